//! trace monitors of engine `pair` (C18, C02): predicates stated from the properties, evaluated on
//! the IMPLEMENTATION's trace with independent reference code: an own decoder of the fragments seen
//! on the wire, an own ledger of what the harness put into the database, an own account of when each
//! fragment was written and when its last octet was forwarded (the harness is the wire, so the
//! one-way delays are known exactly), and the scripted master clock.
//!
//! C18: time_written_is_master_time, sync_failure_reported, success_implies_written
//! C02: nothing_fabricated, no_resurrection, events_delivered_at_least_once, converged_after_quiescence
//!      (`@converged`: after two explicit integrity reads; `@converged auto`: no user request in the tail, the
//!      picture is judged per point on what the library is configured to report by itself, see `owed` below)
use crate::util::{unhex, Stats};
use std::collections::{BTreeMap, VecDeque};
use std::io::Write;

const MAX_TS: u64 = 0x0000_FFFF_FFFF_FFFF;

fn fail(mon: &mut dyn Write, hdr: &str, name: &str, cause: &str, detail: &str) {
    let c = if cause.is_empty() { String::new() } else { format!(" cause={cause}") };
    writeln!(mon, "MONITOR-FAIL {hdr} :: {name}{c} :: {detail}").unwrap();
}

fn kv<'a>(ws: &[&'a str], k: &str) -> Option<&'a str> {
    ws.iter().find_map(|w| w.split_once('=').and_then(|(a, b)| if a == k { Some(b) } else { None }))
}

/// the scripted master clock at virtual time `t`
fn master_clock(base: Option<u64>, t: u64) -> Option<u64> {
    base.map(|b| b.saturating_add(t).min(MAX_TS))
}

fn analog_image(v: i64, flags: u8) -> Vec<u8> {
    let (val, fl) = if v > i32::MAX as i64 {
        (i32::MAX, flags | 0x20)
    } else if v < i32::MIN as i64 {
        (i32::MIN, flags | 0x20)
    } else {
        (v as i32, flags)
    };
    let mut r = vec![fl];
    r.extend_from_slice(&val.to_le_bytes());
    r
}

fn binary_image(v: bool, flags: u8) -> Vec<u8> {
    vec![(flags & 0x7F) | if v { 0x80 } else { 0 }]
}

/// (is event, is binary, index, image) of the measurement objects of a response in this engine's vocabulary
fn decode_measurements(mut b: &[u8]) -> Option<Vec<(bool, bool, u16, Vec<u8>)>> {
    let mut res = Vec::new();
    while !b.is_empty() {
        if b.len() < 3 {
            return None;
        }
        let (g, v, q) = (b[0], b[1], b[2]);
        b = &b[3..];
        let (start, count, isz): (usize, usize, usize) = match q {
            0x00 => {
                if b.len() < 2 { return None; }
                let r = (b[0] as usize, (b[1] as usize + 1).checked_sub(b[0] as usize)?, 0);
                b = &b[2..];
                r
            }
            0x01 => {
                if b.len() < 4 { return None; }
                let s = u16::from_le_bytes([b[0], b[1]]) as usize;
                let e = u16::from_le_bytes([b[2], b[3]]) as usize;
                b = &b[4..];
                (s, (e + 1).checked_sub(s)?, 0)
            }
            0x07 => {
                if b.is_empty() { return None; }
                let c = b[0] as usize;
                b = &b[1..];
                (0, c, 0)
            }
            0x17 => {
                if b.is_empty() { return None; }
                let c = b[0] as usize;
                b = &b[1..];
                (0, c, 1)
            }
            0x28 => {
                if b.len() < 2 { return None; }
                let c = u16::from_le_bytes([b[0], b[1]]) as usize;
                b = &b[2..];
                (0, c, 2)
            }
            _ => return None,
        };
        let size = match (g, v) {
            (1, 2) | (2, 1) => 1,
            (30, 1) | (32, 1) => 5,
            (12, 1) => 11,
            (41, 1) | (41, 3) => 5,
            (41, 2) => 3,
            (41, 4) => 9,
            (52, _) => 2,
            (50, 1) | (50, 3) | (51, _) => 6,
            _ => return None,
        };
        for i in 0..count {
            if b.len() < isz + size {
                return None;
            }
            let idx = match isz {
                0 => (start + i) as u16,
                1 => b[0] as u16,
                _ => u16::from_le_bytes([b[0], b[1]]),
            };
            let body = b[isz..isz + size].to_vec();
            b = &b[isz + size..];
            match (g, v) {
                (2, 1) => res.push((true, true, idx, body)),
                (32, 1) => res.push((true, false, idx, body)),
                (1, 2) => res.push((false, true, idx, body)),
                (30, 1) => res.push((false, false, idx, body)),
                _ => {}
            }
        }
    }
    Some(res)
}

struct Pt {
    /// (number of updates applied before this value became current, image)
    hist: Vec<(u64, Vec<u8>)>,
    /// 0 = no event class (updates create no events), 1..3
    class: u8,
    /// index of the op that added / last updated the point (within an op the database effect comes first)
    changed_at: usize,
}

/// what the `cfg` line and the `addpoll` ops configured: the library's own reporting mechanisms
#[derive(Default)]
struct Mech {
    /// outstation: unsolicited reporting compiled in / allowed
    unsolicited: bool,
    /// master: classes enabled for unsolicited reporting after every start-up integrity poll
    en: u8,
    /// master: classes of the start-up / restart / overflow integrity poll (bit 3 = class 0)
    int: u8,
    /// master: classes scanned automatically when a response reports CLASS_n_EVENTS
    evscan: u8,
    /// master: `auto_integrity_scan_on_buffer_overflow`
    ovf: bool,
    /// class masks of the periodic polls added so far
    polls: Vec<u8>,
}

impl Mech {
    /// a periodic poll re-reads every point
    fn periodic_class0(&self) -> bool {
        self.polls.iter().any(|c| c & 8 != 0)
    }
    /// events of class `c` (1..3) are reported without any user request
    fn events(&self, c: u8) -> Option<&'static str> {
        let bit = 1u8 << (c - 1);
        if self.polls.iter().any(|p| p & bit != 0) {
            Some("periodic event poll")
        } else if self.unsolicited && self.en & bit != 0 {
            Some("unsolicited reporting")
        } else if self.evscan & bit != 0 && !self.polls.is_empty() {
            Some("automatic event scan after a periodic poll")
        } else {
            None
        }
    }
}

struct Ev {
    id: u64,
    key: (bool, u16, Vec<u8>),
    discarded: bool,
    /// index of the op whose update pushed it out of the buffer
    discarded_at: Option<usize>,
    released: bool,
    /// (session, number of the transmitted fragment that carried it last, unsolicited?)
    last_carried: Option<(usize, usize, bool)>,
}

/// why an event that never reached the handler can be missing on the unchanged tree: it was written
/// into a response that was never confirmed and stayed `Written` — across a disconnect (D19), or after
/// an unsolicited series that ended without confirm (D4); it is then skipped by every later READ and
/// released by the next confirmed response of any kind.  Anything else is not a known history.
fn lost_cause(e: &Ev, session: usize) -> &'static str {
    match e.last_carried {
        Some((s, _, _)) if s < session => "D19",
        Some((_, _, true)) => "D4",
        _ => "",
    }
}

struct WireItem {
    sent: u64,
    src: u16,
    frag: Vec<u8>,
    /// number of database updates applied when it was written
    mark: u64,
    /// inserted by the relay
    injected: bool,
}

#[derive(Default, Clone)]
struct Sync {
    fc: u8,
    req: Option<Vec<u8>>,
    req_sent: u64,
    req_delivered: Option<u64>,
    seq: Option<u8>,
    step: u8, // 0 = first request outstanding (23 / 24 / direct write), 1 = final WRITE outstanding
    reply_transit: Option<u64>,
    reported: Option<u64>,
    write: Option<Vec<u8>>,
    write_sent: u64,
    write_delivered: Option<u64>,
    written: Option<(u64, u64)>,
    expect_fail: Option<String>,
    /// the WRITE of the LAN procedure reached the outstation when value + elapsed no longer fits 48 bits
    o_overflow: bool,
    /// an octet of the procedure's own traffic was inserted by the relay: delays are not the wire's
    forged: bool,
}

pub fn check(hdr: &str, trace: &[(String, Vec<String>)], mon: &mut dyn Write, stats: &mut Stats) {
    let mut now: u64 = 0;
    let mut base: Option<u64> = None;
    let mut m2o: VecDeque<WireItem> = VecDeque::new();
    let mut o2m: VecDeque<WireItem> = VecDeque::new();
    // ---- database mirror / ledger (C02)
    let mut pts: BTreeMap<(bool, u16), Pt> = BTreeMap::new();
    let mut updates: u64 = 0;
    let mut ledger: Vec<Ev> = Vec::new();
    let mut delivered_events: BTreeMap<(bool, u16, Vec<u8>), u64> = BTreeMap::new();
    let mut last_delivered: BTreeMap<(bool, u16), Vec<u8>> = BTreeMap::new();
    let mut session = 0usize;
    let mut frag_no = 0usize;
    let mut carried_of: BTreeMap<Vec<u8>, (usize, Vec<u64>)> = BTreeMap::new(); // fragment octets -> (frag no, ids)
    let mut last_sol: Option<usize> = None;
    let mut last_uns: Option<usize> = None;
    let mut d3_possible = false;
    // the D4 / D19 history occurred in this case: events released by a confirm whose fragment did not carry them
    let mut d4_hist = false;
    let mut d19_hist = false;
    // D32: the master accepted, as the answer to its READ, a solicited response the outstation had written
    // before that READ was sent (possible once the 4-bit sequence number has wrapped while responses were
    // held up in transit); its CONFIRM then releases the events of the response the outstation is really
    // waiting on, which the master never saw
    let mut d32_hist = false;
    let mut read_req: Option<(u64, u8)> = None;
    // a response carrying events awaits its confirm (solicited, unsolicited)
    let mut pending_sol = false;
    let mut pending_uns = false;
    let mut d19_fin_seen = false;
    let mut last_sol_fin = true;
    let mut d19_static = false;
    let mut o_dead = false;
    let mut d3_dead = false;
    let mut read_mark: Option<u64> = None; // updates applied when the master's outstanding READ was written
    let mut quiet = false;
    let mut completes: BTreeMap<u64, String> = BTreeMap::new();
    let mut any_data = false;
    // ---- C02, `@converged auto`: what the library is configured to do by itself, and what the master was shown
    let mut mech = Mech::default();
    let mut assoc_ok = false;
    let mut m_dead = false;
    // number of updates applied when the connection was last cut (the master's next session starts with
    // its start-up sequence: disable unsolicited, integrity poll, enable unsolicited)
    let mut last_cut: Option<usize> = None;
    // the master's READ in progress: index of the op in which it was written
    let mut read_outstanding: Option<usize> = None;
    let mut read_task = String::new();
    // fragments with IIN2.3 handed to the handler: (index of the op, READ outstanding then)
    let mut ovf_shown: Vec<(usize, Option<usize>)> = Vec::new();
    // the solicited series being transmitted: fragments so far, carried events, IIN2.3 in a non-final fragment
    let mut ser_frags = 0usize;
    let mut ser_events = false;
    let mut ser_ovf_nonfinal = false;
    let mut shape_cases: std::collections::BTreeSet<&'static str> = Default::default();
    // every response fragment the outstation transmitted: (index of the op, IIN2.3 set)
    let mut o_resp_tx: Vec<(usize, bool)> = Vec::new();
    // ---- C18
    let mut sync: Option<Sync> = None;
    let mut record_delivered: Option<u64> = None; // when the last RECORD_CURRENT_TIME reached the outstation

    for (k, (op, outs)) in trace.iter().enumerate() {
        let ws: Vec<&str> = op.split_whitespace().collect();
        if ws.is_empty() {
            continue;
        }
        let mut injected: Option<WireItem> = None;
        match ws[0] {
            "cfg" => {
                base = kv(&ws, "mclock").and_then(|v| v.parse().ok());
                let num = |k: &str, d: u8| kv(&ws, k).and_then(|v| v.parse::<u8>().ok()).unwrap_or(d);
                mech.unsolicited = num("unsolicited", 0) == 1;
                mech.en = num("en", 7);
                mech.int = num("int", 15);
                mech.evscan = num("evscan", 0);
                mech.ovf = num("ovf", 1) == 1;
            }
            "addpoll" if ws.len() == 3 && outs.iter().any(|o| o.starts_with("m poll ") && o != "m poll err") => {
                mech.polls.push(ws[2].parse::<u64>().unwrap_or(0) as u8);
            }
            "mclock" => base = ws.get(1).and_then(|v| v.parse().ok()),
            "cut" => {
                m2o.clear();
                o2m.clear();
                session += 1;
                // D19 (static half): a disconnect in the middle of a multi-fragment series leaves the rest of
                // the selection (snapshot values) queued for the next session's first READ
                // (the rest stays queued until a READ of a later session has drained it)
                d19_static = d19_static || !last_sol_fin;
                d19_fin_seen = false;
                last_sol_fin = true;
                // D19 (event half): the events such a response carried stay `Written`
                if pending_sol || pending_uns {
                    d19_hist = true;
                }
                pending_sol = false;
                pending_uns = false;
                read_mark = None;
                last_sol = None;
                last_uns = None;
                last_cut = Some(k);
                read_outstanding = None;
                ser_frags = 0;
            }
            "inject" if ws.len() == 5 => {
                injected = Some(WireItem { sent: now, src: ws[2].parse().unwrap_or(0), frag: unhex(ws[4]), mark: updates, injected: true });
                if let Some(s) = sync.as_mut() {
                    s.forged = true;
                }
            }
            "@quiet" => quiet = true,
            "@converged" => {
                let auto = ws.get(1) == Some(&"auto");
                stats.hit("c02_tail_reached");
                stats.hit(if !auto { "c02_tail_explicit" } else if last_cut.is_some() && trace[..k].iter().rev().take_while(|t| t.0 != "@quiet").any(|t| t.0 == "cut") { "c02_tail_auto_after_cut" } else { "c02_tail_auto" });
                for sh in &shape_cases {
                    stats.hit(&format!("{sh}_cases"));
                    if auto {
                        stats.hit(&format!("{sh}_cases_auto_tail"));
                    }
                }
                // ---- converged_after_quiescence / events_delivered_at_least_once
                if !any_data {
                    continue;
                }
                let cause = if d3_dead { "D3" } else { "" };
                if o_dead && !d3_dead {
                    fail(mon, hdr, "converged_after_quiescence", "", "the outstation task died without the D3 history");
                    continue;
                }
                if auto && (!assoc_ok || m_dead) {
                    // no association / no master task: nothing reports anything
                    stats.hit("c02_auto_no_association");
                    continue;
                }
                if !auto {
                    let fin = completes.get(&9002).cloned().unwrap_or("missing".to_string());
                    if fin != "ok" {
                        fail(mon, hdr, "converged_after_quiescence", cause, &format!("the final integrity read did not complete: {fin}"));
                        continue;
                    }
                }
                // `auto`: the tail contains no user request.  A point's current value is OWED to the handler by
                // the library's own mechanisms when, after the point's last update,
                //   A  a periodic poll that includes class 0 is configured (it re-reads every point), or
                //   B  the update was recorded as an event that was not overflow-discarded and the point's class
                //      is reported without a user request (periodic poll of that class, unsolicited reporting
                //      enabled at the outstation and by the master's `en` mask, or an automatic event scan of
                //      that class fed by the IIN of some periodic poll's response), or
                //   C  the master's integrity poll covers class 0 and was due after the update, because
                //      C1 the connection was cut after the update (start-up integrity poll of the new session), or
                //      C2 with auto_integrity_scan_on_buffer_overflow, the handler was handed a fragment with
                //         IIN2.3 after the update while no READ written before the update was in progress (an
                //         indication received during a READ is only known to demand a poll that reads later
                //         values if that READ itself was written after the update).
                // A stale point that is not owed is counted, not failed.
                let owed = |is_bin: bool, idx: u16, p: &Pt| -> Option<String> {
                    let cur = &p.hist.last().unwrap().1;
                    let u = &p.changed_at;
                    if mech.periodic_class0() {
                        return Some("A: a periodic poll including class 0 is configured".to_string());
                    }
                    if p.class >= 1 {
                        if let Some(how) = mech.events(p.class) {
                            if let Some(e) = ledger.iter().rev().find(|e| e.key.0 == is_bin && e.key.1 == idx) {
                                if &e.key.2 == cur && !e.discarded {
                                    return Some(format!("B: its last update is event {} of class {}, not discarded; {how}", e.id, p.class));
                                }
                            }
                        }
                    }
                    if mech.int & 8 != 0 {
                        if let Some(c) = last_cut {
                            if c >= *u {
                                return Some("C1: reconnection after its last update; the start-up integrity poll includes class 0".to_string());
                            }
                        }
                        if mech.ovf {
                            if let Some((acc, _)) = ovf_shown.iter().find(|(acc, out)| acc >= u && out.map(|m| m >= *u).unwrap_or(true)) {
                                return Some(format!("C2: the handler was handed IIN2.3 after its last update (op {acc}, its last update op {u}); overflow demands an integrity poll including class 0"));
                            }
                        }
                    }
                    None
                };
                let mut ok = true;
                let mut all_owed = true;
                for ((is_bin, idx), p) in &pts {
                    let cur = &p.hist.last().unwrap().1;
                    let why = if auto { owed(*is_bin, *idx, p) } else { Some(String::new()) };
                    if auto {
                        match &why {
                            Some(w) => stats.hit(&format!("c02_auto_point_owed_{}", &w[..w.find(':').unwrap_or(1)])),
                            None => {
                                all_owed = false;
                                stats.hit("c02_auto_point_not_owed");
                            }
                        }
                    }
                    match last_delivered.get(&(*is_bin, *idx)) {
                        Some(img) if img == cur => {}
                        other => match why {
                            Some(w) => {
                                if ok {
                                    fail(mon, hdr, "converged_after_quiescence", cause, &format!("{} {idx}: database {:02x?}, handler's last {:02x?}{}", if *is_bin { "binary" } else { "analog" }, cur, other, if auto { format!(" (no user read in the tail; owed by {w})") } else { String::new() }));
                                }
                                ok = false;
                            }
                            None => {
                                // why nothing owes it (distribution only; `INFO` lines are not read by ./check)
                                stats.hit("c02_auto_point_stale_not_owed");
                                let last_ev = ledger.iter().rev().find(|e| e.key.0 == *is_bin && e.key.1 == *idx);
                                let why = if p.class == 0 || last_ev.is_none() {
                                    "static_value_no_periodic_class0_poll_no_trigger"
                                } else if mech.events(p.class).is_none() && !last_ev.map(|e| e.discarded).unwrap_or(false) {
                                    "class_not_reported_by_itself"
                                } else if !mech.ovf || mech.int & 8 == 0 {
                                    "last_event_discarded_overflow_recovery_not_configured"
                                } else if last_ev.map(|e| e.discarded).unwrap_or(false) {
                                    "last_event_discarded_overflow_never_indicated_after"
                                } else {
                                    "other"
                                };
                                stats.hit(&format!("c02_auto_point_stale_not_owed_{why}"));
                                if why.starts_with("last_event_discarded_overflow_never") || why == "other" {
                                    writeln!(mon, "INFO {hdr} :: stale point not owed ({why}) :: {} {idx}", if *is_bin { "binary" } else { "analog" }).unwrap();
                                }
                                // D28 (provisional id): the overflow that discarded the point's last event was never
                                // indicated at all, although the outstation went on responding: the buffer overflowed
                                // while a response carrying events awaited its confirm, and that confirm
                                // (`EventBuffer::clear_written`: no type is full any more) cleared the indication before
                                // any response written after the overflow could carry it.  The master is configured to
                                // recover (ovf, integrity poll with class 0) and is never told to.
                                if let Some(d) = last_ev.and_then(|e| e.discarded_at) {
                                    let indicated = o_resp_tx.iter().any(|(t, b)| *t >= d && *b);
                                    let responded = o_resp_tx.iter().any(|(t, b)| *t >= d && !*b);
                                    if why.starts_with("last_event_discarded_overflow_never") && !indicated && responded && ok {
                                        stats.hit("c02_auto_overflow_indication_lost");
                                        fail(mon, hdr, "converged_after_quiescence", "D28", &format!("{} {idx}: database {:02x?}, handler's last {:02x?} (no user read in the tail; its last event was overflow-discarded in op {d}; auto_integrity_scan_on_buffer_overflow is on and the integrity poll includes class 0, but no response fragment written since carried IIN2.3 although the outstation responded: the indication was cleared without ever being reported)", if *is_bin { "binary" } else { "analog" }, cur, other));
                                        ok = false;
                                    }
                                }
                            }
                        },
                    }
                }
                if ok {
                    stats.hit(if auto { "c02_auto_converged_where_owed" } else { "c02_converged" });
                }
                if auto && all_owed {
                    stats.hit("c02_auto_every_point_owed");
                }
                let mut need: BTreeMap<(bool, u16, Vec<u8>), (u64, Vec<&'static str>)> = BTreeMap::new();
                for e in &ledger {
                    // `auto`: an event is owed when its point's class is reported without a user request
                    let owed_event = !auto || pts.get(&(e.key.0, e.key.1)).map(|p| p.class >= 1 && mech.events(p.class).is_some()).unwrap_or(false);
                    if auto && !e.discarded {
                        stats.hit(if owed_event { "c02_auto_event_owed" } else { "c02_auto_event_not_owed" });
                    }
                    if !e.discarded && owed_event {
                        let ent = need.entry(e.key.clone()).or_insert((0, Vec::new()));
                        ent.0 += 1;
                        let c = lost_cause(e, session);
                        if !c.is_empty() {
                            ent.1.push(c);
                        }
                    }
                }
                let mut all = true;
                for (key, (n, causes)) in &need {
                    let got = *delivered_events.get(key).unwrap_or(&0);
                    if got < *n {
                        all = false;
                        // the shortfall is explained only if that many events of this image have the known history
                        // (events are matched to wire objects by image, so the per-image attribution can be off by
                        // one identical image: the case-level history decides then)
                        let c = if d3_dead { "D3" } else if causes.len() as u64 >= *n - got { causes[0] } else if d19_hist { "D19" } else if d4_hist { "D4" } else if d32_hist { "D32" } else { "" };
                        fail(mon, hdr, "events_delivered_at_least_once", c, &format!("{} {} image {:02x?}: {n} event(s) recorded and not overflow-discarded, {got} reached the handler{}", if key.0 { "binary" } else { "analog" }, key.1, key.2, if auto { " (no user read in the tail; the point's class is reported by the library itself)" } else { "" }));
                        break;
                    }
                }
                if all {
                    stats.hit(if auto { "c02_auto_all_owed_events_delivered" } else { "c02_all_events_delivered" });
                }
                stats.add("c02_events_recorded", ledger.len() as u64);
                stats.add("c02_events_discarded", ledger.iter().filter(|e| e.discarded).count() as u64);
                continue;
            }
            _ => {}
        }
        // ---- direct effects of database ops (the harness' own ledger)
        match ws[0] {
            "addbin" | "addan" if outs.iter().any(|o| o == "o add 1") => {
                let is_bin = ws[0] == "addbin";
                let idx: u16 = ws[1].parse().unwrap();
                any_data = true;
                pts.insert((is_bin, idx), Pt { hist: vec![(updates, if is_bin { vec![0x02] } else { vec![0x02, 0, 0, 0, 0] })], class: ws[2].parse::<u8>().ok().filter(|c| *c <= 3).unwrap_or(0), changed_at: k });
            }
            "addmany" if outs.iter().any(|o| o.starts_with("o added ")) => {
                let is_bin = ws[1] == "bin";
                let start: u16 = ws[2].parse().unwrap();
                let count: u16 = ws[3].parse().unwrap();
                any_data = true;
                for i in 0..count {
                    pts.entry((is_bin, start + i)).or_insert(Pt { hist: vec![(updates, if is_bin { vec![0x02] } else { vec![0x02, 0, 0, 0, 0] })], class: ws[4].parse::<u8>().ok().filter(|c| *c <= 3).unwrap_or(0), changed_at: k });
                }
            }
            "txn" => {
                let upd: Vec<&String> = outs.iter().filter(|o| o.starts_with("o upd ")).collect();
                for (item, res) in ws[1..].iter().zip(upd.iter()) {
                    let p: Vec<&str> = item.split(':').collect();
                    let is_bin = p[0] == "bin";
                    let idx: u16 = p[1].parse().unwrap();
                    let flags: u8 = p[3].parse().unwrap();
                    let img = if is_bin { binary_image(p[2] == "1", flags) } else { analog_image(p[2].parse().unwrap(), flags) };
                    let r: Vec<&str> = res.split_whitespace().collect();
                    if r[2] == "nopoint" {
                        continue;
                    }
                    updates += 1;
                    if let Some(pt) = pts.get_mut(&(is_bin, idx)) {
                        pt.hist.push((updates, img.clone()));
                        pt.changed_at = k;
                    }
                    match r[2] {
                        "created" => ledger.push(Ev { id: r[3].parse().unwrap(), key: (is_bin, idx, img), discarded: false, discarded_at: None, released: false, last_carried: None }),
                        "overflow" => {
                            let disc: u64 = r[4].parse().unwrap();
                            if let Some(e) = ledger.iter_mut().find(|e| e.id == disc) {
                                e.discarded = true;
                                e.discarded_at = Some(k);
                                if e.last_carried.is_some() && !e.released {
                                    d3_possible = true;
                                }
                            }
                            ledger.push(Ev { id: r[3].parse().unwrap(), key: (is_bin, idx, img), discarded: false, discarded_at: None, released: false, last_carried: None });
                            stats.hit("c02_overflow");
                            if !last_sol_fin && ser_frags >= 1 {
                                stats.hit("c02_overflow_during_multifragment_read");
                                shape_cases.insert("c02_overflow_during_multifragment_read");
                            }
                        }
                        _ => {}
                    }
                }
            }
            _ => {}
        }
        // ---- the output lines in order; `cur` = fragments handed to an endpoint by the current delivery
        let mut cur_to_o: Vec<WireItem> = Vec::new();
        let mut cur_to_m: Vec<WireItem> = Vec::new();
        let mut deliver_kind = String::new();
        let mut confirm_frag: Option<usize> = None;
        for line in outs {
            let w: Vec<&str> = line.split_whitespace().collect();
            if w.is_empty() {
                continue;
            }
            match w[0] {
                "t" => {
                    now = w[1].parse().unwrap();
                    cur_to_o.clear();
                    cur_to_m.clear();
                }
                "d" => {
                    let n: usize = w[2].parse().unwrap();
                    cur_to_o.clear();
                    cur_to_m.clear();
                    let (q, cur) = if w[1] == "m2o" { (&mut m2o, &mut cur_to_o) } else { (&mut o2m, &mut cur_to_m) };
                    if let Some(it) = injected.take() {
                        cur.push(it);
                    } else {
                        for _ in 0..n {
                            match q.pop_front() {
                                Some(it) => cur.push(it),
                                // the op in which the outstation task died is canonicalised to `o panic`: what it
                                // transmitted in that activation is not in the trace
                                None if o_dead => {}
                                None => fail(mon, hdr, "wire_account", "", &format!("op {k}: more items delivered than written")),
                            }
                        }
                    }
                    // ---- C18: what this delivery means for the procedure in progress
                    if w[1] == "m2o" {
                        for it in cur_to_o.iter() {
                            if it.frag.len() >= 2 && it.frag[1] == 24 {
                                record_delivered = Some(now);
                            }
                            // D4: DISABLE_UNSOLICITED received while an unsolicited response with events awaits its confirm
                            if it.frag.len() >= 2 && it.frag[1] == 21 && pending_uns {
                                d4_hist = true;
                                pending_uns = false;
                            }
                            if let Some(s) = sync.as_mut() {
                                if s.req.as_ref() == Some(&it.frag) && s.req_sent == it.sent && s.req_delivered.is_none() {
                                    s.req_delivered = Some(now);
                                }
                                if s.write.as_ref() == Some(&it.frag) && s.write_sent == it.sent && s.write_delivered.is_none() {
                                    s.write_delivered = Some(now);
                                    // outstation-side 48-bit check of the LAN procedure
                                    if it.frag.len() == 12 && it.frag[3] == 3 {
                                        if let Some(rd) = record_delivered {
                                            let v = u64::from_le_bytes([it.frag[6], it.frag[7], it.frag[8], it.frag[9], it.frag[10], it.frag[11], 0, 0]);
                                            if v + (now - rd) > MAX_TS {
                                                s.o_overflow = true;
                                            }
                                        }
                                    }
                                }
                            }
                        }
                    } else if let Some(s) = sync.as_mut() {
                        for it in cur_to_m.iter() {
                            let f = &it.frag;
                            if f.len() < 4 || f[1] != 0x81 || f[0] & 0x10 != 0 || it.src != 1024 || Some(f[0] & 0x0F) != s.seq {
                                continue;
                            }
                            if s.step == 1 && s.o_overflow && !it.injected && f[3] & 0x07 == 0 {
                                // the outstation's own reply must refuse such a WRITE (PARAMETER_ERROR)
                                s.expect_fail = Some("written time exceeds 48 bits at the outstation, its reply reports no error".to_string());
                                continue;
                            }
                            if f[0] & 0xC0 != 0xC0 || f[3] & 0x07 != 0 {
                                // multi-fragment or rejected by IIN2: a failure, though not one of the four
                                s.expect_fail.get_or_insert("reply not FIR|FIN or IIN2 error".to_string());
                                continue;
                            }
                            let objs = &f[4..];
                            if s.step == 0 && s.fc == 23 {
                                let interval = now - s.req_sent;
                                s.reply_transit = Some(now - it.sent);
                                if objs.len() == 6 && objs[..4] == [0x34, 0x02, 0x07, 0x01] {
                                    let rep = u16::from_le_bytes([objs[4], objs[5]]) as u64;
                                    s.reported = Some(rep);
                                    if rep > interval {
                                        s.expect_fail = Some(format!("reported processing delay {rep} exceeds the round trip {interval}"));
                                    } else if let Some(c) = master_clock(base, now) {
                                        if c + (interval - rep) / 2 > MAX_TS {
                                            s.expect_fail = Some("written time exceeds 48 bits".to_string());
                                        }
                                    }
                                } else if objs.len() == 7 && objs[..5] == [0x34, 0x02, 0x08, 0x01, 0x00] {
                                    // 16-bit count of one: also a single g52v2
                                    let rep = u16::from_le_bytes([objs[5], objs[6]]) as u64;
                                    s.reported = Some(rep);
                                    s.forged = true;
                                    if rep > interval {
                                        s.expect_fail = Some(format!("reported processing delay {rep} exceeds the round trip {interval}"));
                                    }
                                } else {
                                    s.expect_fail = Some("unexpected objects in the reply to DELAY_MEASURE".to_string());
                                }
                            } else if s.step == 0 && s.fc == 24 {
                                if !objs.is_empty() {
                                    s.expect_fail = Some("unexpected objects in the reply to RECORD_CURRENT_TIME".to_string());
                                }
                            } else {
                                // the final reply
                                if !objs.is_empty() {
                                    s.expect_fail = Some("unexpected objects in the reply to WRITE".to_string());
                                } else if f[2] & 0x10 != 0 {
                                    s.expect_fail = Some("NEED_TIME still set in the final reply".to_string());
                                }
                            }
                        }
                    }
                }
                "m" if w.len() >= 2 => match w[1] {
                    "tx" if w.len() == 4 => {
                        let frag = unhex(w[3]);
                        if frag.len() >= 2 && frag[1] == 1 {
                            read_req = Some((now, frag[0] & 0x0F));
                            read_outstanding = Some(k);
                            read_mark = Some(updates);
                            if d19_fin_seen {
                                d19_static = false;
                                d19_fin_seen = false;
                            }
                        }
                        if let Some(s) = sync.as_mut() {
                            if frag.len() >= 2 && frag[1] != 0 {
                                let is_write = frag[1] == 2 && frag.len() == 12 && frag[2] == 0x32;
                                if s.req.is_none() && (frag[1] == 23 || frag[1] == 24 || (is_write && s.fc == 2)) {
                                    s.req = Some(frag.clone());
                                    s.req_sent = now;
                                    s.seq = Some(frag[0] & 0x0F);
                                    if is_write {
                                        s.write = Some(frag.clone());
                                        s.write_sent = now;
                                        s.step = 1;
                                    }
                                } else if is_write && s.write.is_none() {
                                    s.write = Some(frag.clone());
                                    s.write_sent = now;
                                    s.seq = Some(frag[0] & 0x0F);
                                    s.step = 1;
                                }
                            }
                        }
                        m2o.push_back(WireItem { sent: now, src: 1, frag, mark: updates, injected: false });
                    }
                    "txlink" | "txbad" => m2o.push_back(WireItem { sent: now, src: 1, frag: Vec::new(), mark: updates, injected: false }),
                    "complete" if w.len() >= 4 => {
                        if let Ok(id) = w[2].parse::<u64>() {
                            completes.insert(id, w[3..].join(" "));
                        }
                    }
                    "info" if w.len() >= 5 && w[4] == "time_sync" => match w[3] {
                        "start" => {
                            sync = Some(Sync { fc: w[5].parse().unwrap_or(0), ..Default::default() });
                            stats.hit(&format!("c18_start_fc{}", w[5]));
                        }
                        "success" => {
                            if let Some(s) = sync.take() {
                                stats.hit(&format!("c18_success_fc{}", s.fc));
                                if let Some(why) = &s.expect_fail {
                                    fail(mon, hdr, "sync_failure_reported", "", &format!("op {k}: {why}, yet the task reported success"));
                                }
                                match s.written {
                                    None if s.forged => stats.hit("c18_success_on_relay_forged_reply"),
                                    None => fail(mon, hdr, "success_implies_written", "", &format!("op {k}: time synchronisation reported successful, no write_absolute_time reached the application")),
                                    Some((tw, v)) => {
                                        // the master's clock at the instant of the callback
                                        let unsat = base.map(|b| b.saturating_add(tw) <= MAX_TS).unwrap_or(false);
                                        match (master_clock(base, tw), s.req_delivered, s.write_delivered) {
                                            (Some(clock), Some(rd), Some(wd)) if unsat && !s.forged => {
                                                let a = (rd - s.req_sent) as i128;
                                                let c = (wd - s.write_sent) as i128;
                                                let err = v as i128 - clock as i128;
                                                match s.fc {
                                                    24 => {
                                                        stats.hit("c18_bound_checked_lan");
                                                        if err.abs() > a {
                                                            fail(mon, hdr, "time_written_is_master_time", "", &format!("op {k}: LAN: written {v}, master clock {clock}, forward delay {a}"));
                                                        }
                                                    }
                                                    2 => {
                                                        stats.hit("c18_bound_checked_direct");
                                                        if err.abs() > c {
                                                            fail(mon, hdr, "time_written_is_master_time", "", &format!("op {k}: direct: written {v}, master clock {clock}, forward delay {c}"));
                                                        }
                                                    }
                                                    _ => match (s.reported, s.reply_transit) {
                                                        (Some(p), Some(d2)) if p <= d2 => {
                                                            // an honest report is possible: processing p, reply transit b = d2 - p
                                                            stats.hit("c18_bound_checked_nonlan");
                                                            let b = (d2 - p) as i128;
                                                            let hi = (a - c).max(b - c);
                                                            let lo = (c - a).max(c - b) + 1;
                                                            if err > hi || -err > lo || (a == c && b == c && err != 0) {
                                                                fail(mon, hdr, "time_written_is_master_time", "", &format!("op {k}: non-LAN: written {v}, master clock {clock}, delays request {a} reply {b} write {c} (reported processing {p})"));
                                                            }
                                                            if a == c && b == c {
                                                                stats.hit("c18_nonlan_symmetric_exact");
                                                            }
                                                        }
                                                        _ => stats.hit("c18_nonlan_dishonest_report_no_bound"),
                                                    },
                                                }
                                            }
                                            _ => stats.hit(if s.forged { "c18_success_relay_inserted_traffic_no_bound" } else if !unsat { "c18_success_clock_saturated_no_bound" } else { "c18_success_no_bound_applicable" }),
                                        }
                                    }
                                }
                            }
                        }
                        "fail" => {
                            if let Some(s) = sync.take() {
                                stats.hit(&format!("c18_fail_{}", w.get(5).unwrap_or(&"?")));
                                if s.expect_fail.is_some() {
                                    stats.hit("c18_expected_failure_reported");
                                }
                            }
                        }
                        _ => {}
                    },
                    "info" if w.len() >= 5 && (w[3] == "start" || w[3] == "success" || w[3] == "fail") && matches!(w[4], "user_read" | "periodic_poll" | "startup_integrity" | "auto_event_scan") => {
                        if w[3] == "start" {
                            read_task = w[4].to_string();
                        } else {
                            read_outstanding = None;
                        }
                    }
                    "assoc" if w.len() >= 3 && w[2] == "ok" => assoc_ok = true,
                    "panic" | "task-exit" => m_dead = true,
                    "deliver" if w.len() >= 4 && w[3] == "begin" => {
                        deliver_kind = w[4].to_string();
                        // the IIN handed to the handler with the fragment (`ReadHandler::begin_fragment`)
                        let iin2: u8 = w.get(7).and_then(|v| v.parse().ok()).unwrap_or(0);
                        let from_relay = cur_to_m.iter().any(|i| i.src != 1024) || op.starts_with("inject");
                        if deliver_kind != "unsol" && !from_relay {
                            if let Some((sent, seq)) = read_req {
                                if cur_to_m.iter().any(|i| !i.injected && i.frag.len() >= 4 && i.frag[1] == 0x81 && i.frag[0] & 0x0F == seq && i.sent < sent) {
                                    d32_hist = true;
                                    stats.hit("c02_stale_response_accepted_after_sequence_wrap");
                                }
                            }
                        }
                        if iin2 & 0x08 != 0 && !from_relay {
                            ovf_shown.push((k, read_outstanding));
                            stats.hit("c02_iin23_handed_to_handler");
                        }
                    }
                    "deliver" if w.len() >= 9 && w[3] == "hdr" => {
                        let (g, v): (u8, u8) = (w[4].parse().unwrap(), w[5].parse().unwrap());
                        let (is_ev, is_bin) = match (g, v) {
                            (1, 2) => (false, true),
                            (2, 1) => (true, true),
                            (30, 1) => (false, false),
                            (32, 1) => (true, false),
                            _ => continue,
                        };
                        if w[8] == "-" {
                            continue;
                        }
                        // an inserted fragment is the relay's own fabrication: not the library's
                        let from_relay = cur_to_m.iter().any(|i| i.src != 1024) || op.starts_with("inject");
                        for item in w[8].split(',') {
                            let p: Vec<&str> = item.split(':').collect();
                            let idx: u16 = p[0].parse().unwrap();
                            let flags: u8 = p[1].parse().unwrap();
                            let img = if is_bin { vec![flags] } else { let mut r = vec![flags]; r.extend_from_slice(&(p[2].parse::<i64>().unwrap() as i32).to_le_bytes()); r };
                            if from_relay {
                                continue;
                            }
                            stats.hit(if is_ev { "c02_event_objects_delivered" } else { "c02_static_objects_delivered" });
                            match pts.get(&(is_bin, idx)) {
                                None => fail(mon, hdr, "nothing_fabricated", "", &format!("op {k}: g{g}v{v} index {idx} delivered, no such point of that type exists")),
                                Some(pt) => {
                                    let held: Vec<usize> = pt.hist.iter().enumerate().filter(|(_, h)| h.1 == img).map(|(i, _)| i).collect();
                                    if held.is_empty() {
                                        fail(mon, hdr, "nothing_fabricated", "", &format!("op {k}: g{g}v{v} index {idx} image {img:02x?} was never the point's value"));
                                    } else if !is_ev && deliver_kind != "unsol" {
                                        // static data answers the READ in progress: it must have been current at or after the
                                        // moment that READ was written
                                        if let Some(mark) = read_mark {
                                            let fresh = held.iter().any(|i| pt.hist.get(i + 1).map(|n| n.0 > mark).unwrap_or(true));
                                            if !fresh {
                                                fail(mon, hdr, "no_resurrection", if d19_static { "D19" } else if d32_hist { "D32" } else { "" }, &format!("op {k}: static g{g}v{v} index {idx} image {img:02x?} had been replaced before the READ it answers was written"));
                                            }
                                        }
                                    }
                                }
                            }
                            if is_ev {
                                *delivered_events.entry((is_bin, idx, img.clone())).or_insert(0) += 1;
                            }
                            last_delivered.insert((is_bin, idx), img);
                        }
                    }
                    "session" => {}
                    _ => {}
                },
                "o" if w.len() >= 2 => match w[1] {
                    "panic" => {
                        o_dead = true;
                        d3_dead = d3_possible;
                        stats.hit(if d3_possible { "o_panic_d3_history" } else { "o_panic_unexplained" });
                    }
                    "tx" if w.len() == 4 => {
                        let frag = unhex(w[3]);
                        if frag.len() >= 4 && (frag[1] == 0x81 || frag[1] == 0x82) {
                            let uns = frag[1] == 0x82;
                            o_resp_tx.push((k, frag[3] & 0x08 != 0));
                            // which recorded events does it carry? (oldest alive event of that image first)
                            let key = frag.clone();
                            let no = match carried_of.get(&key) {
                                Some((no, ids)) if ids.iter().all(|id| ledger.iter().any(|e| e.id == *id && !e.released && !e.discarded)) && !ids.is_empty() => {
                                    let no = *no;
                                    for id in ids.clone() {
                                        if let Some(e) = ledger.iter_mut().find(|e| e.id == id) {
                                            e.last_carried = Some((session, no, uns));
                                        }
                                    }
                                    no
                                }
                                _ => {
                                    frag_no += 1;
                                    let mut ids = Vec::new();
                                    if let Some(objs) = decode_measurements(&frag[4..]) {
                                        for (is_ev, is_bin, idx, img) in objs {
                                            if !is_ev {
                                                continue;
                                            }
                                            if let Some(e) = ledger.iter_mut().find(|e| !e.released && !e.discarded && e.key == (is_bin, idx, img.clone()) && !ids.contains(&e.id)) {
                                                e.last_carried = Some((session, frag_no, uns));
                                                ids.push(e.id);
                                            }
                                        }
                                    }
                                    carried_of.insert(key, (frag_no, ids));
                                    frag_no
                                }
                            };
                            let has_events = carried_of.get(&frag).map(|c| !c.1.is_empty()).unwrap_or(false);
                            if uns {
                                last_uns = Some(no);
                                pending_uns = has_events;
                            } else {
                                // shape of the solicited series (FIR starts one; a repeated fragment is counted again,
                                // these are distribution counters only)
                                if frag[0] & 0x80 != 0 {
                                    ser_frags = 0;
                                    ser_events = false;
                                    ser_ovf_nonfinal = false;
                                }
                                ser_frags += 1;
                                ser_events = ser_events || has_events;
                                if frag[0] & 0x40 == 0 {
                                    if frag[3] & 0x08 != 0 {
                                        ser_ovf_nonfinal = true;
                                    }
                                } else {
                                    if ser_frags >= 2 && ser_events {
                                        stats.hit("c02_multifragment_event_read");
                                        shape_cases.insert("c02_multifragment_event_read");
                                    }
                                    if ser_ovf_nonfinal && frag[3] & 0x08 == 0 {
                                        // the S20 shape: the overflow indication is carried by non-final fragments only
                                        stats.hit(&format!("c02_iin23_only_in_nonfinal_fragments_{read_task}"));
                                        shape_cases.insert(if read_task == "startup_integrity" { "c02_iin23_only_in_nonfinal_fragments_integrity" } else { "c02_iin23_only_in_nonfinal_fragments_other_read" });
                                    }
                                }
                                last_sol = Some(no);
                                last_sol_fin = frag[0] & 0x40 != 0;
                                pending_sol = has_events && frag[0] & 0x20 != 0;
                                // the last fragment of a READ response series: the leftover selection is drained
                                if d19_static && last_sol_fin && decode_measurements(&frag[4..]).map(|v| !v.is_empty()).unwrap_or(false) {
                                    d19_fin_seen = true;
                                }
                            }
                        }
                        o2m.push_back(WireItem { sent: now, src: 1024, frag, mark: updates, injected: false });
                    }
                    "txlink" | "txbad" => o2m.push_back(WireItem { sent: now, src: 1024, frag: Vec::new(), mark: updates, injected: false }),
                    "cb" if w.len() >= 3 => match w[2] {
                        "write_time" => {
                            let v: u64 = w[3].parse().unwrap();
                            stats.hit("c18_write_time_callbacks");
                            if let Some(s) = sync.as_mut() {
                                if s.write_delivered == Some(now) && cur_to_o.iter().any(|i| Some(&i.frag) == s.write.as_ref()) {
                                    s.written = Some((now, v));
                                    if s.o_overflow {
                                        fail(mon, hdr, "sync_failure_reported", "", &format!("op {k}: value + elapsed exceeds 48 bits, yet {v} was handed to the application"));
                                    }
                                }
                            }
                        }
                        "sol_confirmed" => {
                            confirm_frag = last_sol;
                            pending_sol = false;
                        }
                        "unsol_confirmed" => {
                            confirm_frag = last_uns;
                            pending_uns = false;
                        }
                        // the series is aborted with Database::reset: the events return to the pool
                        "sol_timeout" | "sol_new_request" => pending_sol = false,
                        // D4: the unsolicited series ends without confirm (no retry left) and without reset
                        "unsol_timeout" if w.len() >= 5 && w[4] == "0" => {
                            if pending_uns {
                                d4_hist = true;
                            }
                            pending_uns = false;
                        }
                        "event_cleared" => {
                            let id: u64 = w[3].parse().unwrap();
                            if let Some(e) = ledger.iter_mut().find(|e| e.id == id) {
                                e.released = true;
                                let carried_here = matches!((e.last_carried, confirm_frag), (Some((s, n, _)), Some(c)) if s == session && n == c);
                                if !carried_here {
                                    stats.hit("c02_released_without_being_carried");
                                    match lost_cause(e, session) {
                                        "D19" => d19_hist = true,
                                        "D4" => d4_hist = true,
                                        _ => {}
                                    }
                                }
                            }
                        }
                        _ => {}
                    },
                    _ => {}
                },
                _ => {}
            }
        }
        let _ = quiet;
    }
}
