//! engine `outstation`: the real `OutstationTask` (link layer, transport, parser, session,
//! database) over the in-memory pipe on a paused clock, against the Lean model
//! `Dnp3.Model.Outstation`, plus trace monitors for C03 C04 C05 C07 C11 C12 C13 C14.
//!
//! ops:  cfg k=v ...                      new outstation (see `Cfg`; evmax=n: binary and analog inputs n events each;
//!                                         evcfg=a,b,c,d,e,f,g,h: per-type maxima in the order bin,dbl,bos,ctr,frz,an,aos,os;
//!                                         czero=<mask>: class-zero types, bit i = type i)
//!       addbin <idx> <class0-3> | addan <idx> <class0-3> | add <type> <idx> <class0-3> [<deadband>]
//!                                         add a point (class 0 = no events; type = bin|dbl|bos|ctr|frz|an|aos|os)
//!       addmany <type> <start> <count> <class>
//!       txn <item> ...                   one database transaction; item = <type>:<idx>:<value>:<flags>:<time|->[:<opts>]
//!                                         value: bin/bos 0|1, dbl 0..3, ctr/frz u32, an/aos integer, os hex octets;
//!                                         opts = `UpdateOptions` number: 0..2 = Detect / Force / Suppress, +3 = update_static false
//!       rx <src> <dst> <hex>             one application fragment from link address src to dst
//!       tick <ms>                        advance the paused clock
//!       cut                              drop the connection; a new session starts
//!       appiin <bits>                    need_time=1 local=2 trouble=4 corrupt=8
//!       ctl <s,s,...>                    statuses the control handler returns, cyclically
//! out:  cb <...> | tx <dst> <hex> | txlink <ctrl> <dst> <src> | session <reason> | ok
use crate::eng_db::Ty;
use crate::util::*;
use dnp3::app::control::*;
use dnp3::app::*;
use dnp3::link::EndpointAddress;
use dnp3::outstation::database::*;
use dnp3::outstation::*;
use dnp3::verif_hooks::outstation_probe as probe;
use std::io::Write;
use std::sync::{Arc, Mutex};
use std::time::Duration;

pub const OUTSTATION: u16 = 1024;
pub const MASTER: u16 = 1;

#[derive(Clone, Default)]
pub struct Shared {
    pub log: Arc<Mutex<Vec<String>>>,
    pub app_iin: Arc<Mutex<u8>>,
    pub ctl: Arc<Mutex<(Vec<u8>, usize)>>,
    pub delay_ms: Arc<Mutex<u16>>,
    pub restart: Arc<Mutex<u8>>,     // 0 = unsupported, 1 = seconds(7), 2 = milliseconds(9)
    pub time_result: Arc<Mutex<u8>>, // 0 ok, 1 not supported, 2 parameter error
}

impl Shared {
    fn push(&self, s: String) {
        self.log.lock().unwrap().push(s);
    }
    fn next_status(&self) -> CommandStatus {
        let mut g = self.ctl.lock().unwrap();
        if g.0.is_empty() {
            return CommandStatus::Success;
        }
        let v = g.0[g.1 % g.0.len()];
        g.1 += 1;
        CommandStatus::from(v)
    }
}

pub(crate) struct App(pub(crate) Shared);
impl OutstationApplication for App {
    fn get_processing_delay_ms(&self) -> u16 {
        *self.0.delay_ms.lock().unwrap()
    }
    fn write_absolute_time(&mut self, time: Timestamp) -> Result<(), RequestError> {
        self.0.push(format!("cb write_time {}", time.raw_value()));
        match *self.0.time_result.lock().unwrap() {
            0 => Ok(()),
            1 => Err(RequestError::NotSupported),
            _ => Err(RequestError::ParameterError),
        }
    }
    fn get_application_iin(&self) -> ApplicationIin {
        let b = *self.0.app_iin.lock().unwrap();
        ApplicationIin { need_time: b & 1 != 0, local_control: b & 2 != 0, device_trouble: b & 4 != 0, config_corrupt: b & 8 != 0 }
    }
    fn cold_restart(&mut self) -> Option<RestartDelay> {
        self.0.push("cb cold_restart".to_string());
        match *self.0.restart.lock().unwrap() {
            0 => None,
            1 => Some(RestartDelay::Seconds(7)),
            _ => Some(RestartDelay::Milliseconds(9)),
        }
    }
    fn warm_restart(&mut self) -> Option<RestartDelay> {
        self.0.push("cb warm_restart".to_string());
        match *self.0.restart.lock().unwrap() {
            0 => None,
            1 => Some(RestartDelay::Seconds(7)),
            _ => Some(RestartDelay::Milliseconds(9)),
        }
    }
    fn freeze_counter(&mut self, indices: FreezeIndices, freeze_type: FreezeType, _db: &mut DatabaseHandle) -> Result<(), RequestError> {
        let i = match indices {
            FreezeIndices::All => "all".to_string(),
            FreezeIndices::Range(a, b) => format!("{a}-{b}"),
        };
        let t = match freeze_type {
            FreezeType::ImmediateFreeze => "immediate",
            FreezeType::FreezeAndClear => "clear",
            FreezeType::FreezeAtTime(_) => "attime",
            _ => "other",
        };
        self.0.push(format!("cb freeze {i} {t}"));
        Ok(())
    }
    fn begin_confirm(&mut self) {
        self.0.push("cb begin_confirm".to_string());
    }
    fn event_cleared(&mut self, id: u64) {
        self.0.push(format!("cb event_cleared {id}"));
    }
    fn end_confirm(&mut self, state: BufferState) -> MaybeAsync<()> {
        self.0.push(format!("cb end_confirm {} {} {}", state.classes.num_class_1, state.classes.num_class_2, state.classes.num_class_3));
        MaybeAsync::ready(())
    }
}

pub(crate) struct Info(pub(crate) Shared);
impl OutstationInformation for Info {
    fn broadcast_received(&mut self, function: FunctionCode, action: BroadcastAction) {
        let a = match action {
            BroadcastAction::Processed => "processed".to_string(),
            BroadcastAction::IgnoredByConfiguration => "ignored_by_config".to_string(),
            BroadcastAction::BadObjectHeaders => "bad_headers".to_string(),
            BroadcastAction::UnsupportedFunction(_) => "unsupported".to_string(),
        };
        self.0.push(format!("cb broadcast {} {a}", function.as_u8()));
    }
    fn enter_solicited_confirm_wait(&mut self, ecsn: Sequence) {
        self.0.push(format!("cb sol_wait {}", ecsn.value()));
    }
    fn solicited_confirm_timeout(&mut self, ecsn: Sequence) {
        self.0.push(format!("cb sol_timeout {}", ecsn.value()));
    }
    fn solicited_confirm_received(&mut self, ecsn: Sequence) {
        self.0.push(format!("cb sol_confirmed {}", ecsn.value()));
    }
    fn solicited_confirm_wait_new_request(&mut self) {
        self.0.push("cb sol_new_request".to_string());
    }
    fn wrong_solicited_confirm_seq(&mut self, ecsn: Sequence, seq: Sequence) {
        self.0.push(format!("cb sol_wrong_seq {} {}", ecsn.value(), seq.value()));
    }
    fn unexpected_confirm(&mut self, unsolicited: bool, seq: Sequence) {
        self.0.push(format!("cb unexpected_confirm {} {}", unsolicited as u8, seq.value()));
    }
    fn enter_unsolicited_confirm_wait(&mut self, ecsn: Sequence) {
        self.0.push(format!("cb unsol_wait {}", ecsn.value()));
    }
    fn unsolicited_confirm_timeout(&mut self, ecsn: Sequence, retry: bool) {
        self.0.push(format!("cb unsol_timeout {} {}", ecsn.value(), retry as u8));
    }
    fn unsolicited_confirmed(&mut self, ecsn: Sequence) {
        self.0.push(format!("cb unsol_confirmed {}", ecsn.value()));
    }
    fn clear_restart_iin(&mut self) {
        self.0.push("cb clear_restart_iin".to_string());
    }
}

pub(crate) struct Ctl(pub(crate) Shared);
fn code_u8(c: ControlCode) -> u8 {
    (c.tcc.as_u8() << 6) | if c.clear { 0x20 } else { 0 } | if c.queue { 0x10 } else { 0 } | c.op_type.as_u8()
}
fn op_name(t: OperateType) -> &'static str {
    match t {
        OperateType::SelectBeforeOperate => "sbo",
        OperateType::DirectOperate => "do",
        OperateType::DirectOperateNoAck => "donr",
    }
}
impl ControlHandler for Ctl {
    fn begin_fragment(&mut self) {
        self.0.push("cb begin_fragment".to_string());
    }
    fn end_fragment(&mut self, _database: &mut DatabaseHandle) -> MaybeAsync<()> {
        self.0.push("cb end_fragment".to_string());
        MaybeAsync::ready(())
    }
}
impl ControlSupport<Group12Var1> for Ctl {
    fn select(&mut self, c: Group12Var1, index: u16, _db: &mut DatabaseHandle) -> CommandStatus {
        let s = self.0.next_status();
        self.0.push(format!("cb select g12v1 {index} {} {} {} {} -> {}", code_u8(c.code), c.count, c.on_time, c.off_time, s.as_u8()));
        s
    }
    fn operate(&mut self, c: Group12Var1, index: u16, t: OperateType, _db: &mut DatabaseHandle) -> CommandStatus {
        let s = self.0.next_status();
        self.0.push(format!("cb operate {} g12v1 {index} {} {} {} {} -> {}", op_name(t), code_u8(c.code), c.count, c.on_time, c.off_time, s.as_u8()));
        s
    }
}
macro_rules! analog_support {
    ($t:ty, $n:expr) => {
        impl ControlSupport<$t> for Ctl {
            fn select(&mut self, c: $t, index: u16, _db: &mut DatabaseHandle) -> CommandStatus {
                let s = self.0.next_status();
                self.0.push(format!("cb select {} {index} {:?} -> {}", $n, c.value, s.as_u8()));
                s
            }
            fn operate(&mut self, c: $t, index: u16, t: OperateType, _db: &mut DatabaseHandle) -> CommandStatus {
                let s = self.0.next_status();
                self.0.push(format!("cb operate {} {} {index} {:?} -> {}", op_name(t), $n, c.value, s.as_u8()));
                s
            }
        }
    };
}
analog_support!(Group41Var1, "g41v1");
analog_support!(Group41Var2, "g41v2");
impl ControlSupport<Group41Var3> for Ctl {
    fn select(&mut self, c: Group41Var3, index: u16, _db: &mut DatabaseHandle) -> CommandStatus {
        let s = self.0.next_status();
        self.0.push(format!("cb select g41v3 {index} f{} -> {}", c.value.to_bits(), s.as_u8()));
        s
    }
    fn operate(&mut self, c: Group41Var3, index: u16, t: OperateType, _db: &mut DatabaseHandle) -> CommandStatus {
        let s = self.0.next_status();
        self.0.push(format!("cb operate {} g41v3 {index} f{} -> {}", op_name(t), c.value.to_bits(), s.as_u8()));
        s
    }
}
impl ControlSupport<Group41Var4> for Ctl {
    fn select(&mut self, c: Group41Var4, index: u16, _db: &mut DatabaseHandle) -> CommandStatus {
        let s = self.0.next_status();
        let b = c.value.to_bits();
        self.0.push(format!("cb select g41v4 {index} d{}:{} -> {}", b & 0xFFFF_FFFF, b >> 32, s.as_u8()));
        s
    }
    fn operate(&mut self, c: Group41Var4, index: u16, t: OperateType, _db: &mut DatabaseHandle) -> CommandStatus {
        let s = self.0.next_status();
        let b = c.value.to_bits();
        self.0.push(format!("cb operate {} g41v4 {index} d{}:{} -> {}", op_name(t), b & 0xFFFF_FFFF, b >> 32, s.as_u8()));
        s
    }
}

// ------------------------------------------------------------------------------------------

pub struct Cfg {
    pub sol: u16,
    pub unsol: u16,
    pub rx: u16,
    pub unsolicited: bool,
    pub retries: Option<usize>,
    pub ctimeout: u64,
    pub stimeout: u64,
    pub rdelay: u64,
    pub keepalive: Option<u64>,
    pub anymaster: bool,
    pub broadcast: bool,
    pub selfaddr: bool,
    pub maxctl: Option<u16>,
    pub discard: bool,
    pub evmax: u16,
    /// per-type event maxima in the order of `enum Event` (overrides `evmax`)
    pub evcfg: Option<[u16; 8]>,
    /// class-zero types, bit i = type i (default: all but octet strings)
    pub czero: Option<u8>,
    /// C01: decode level 0 = nothing .. 3 = object values (+ transport / link payload, physical data)
    pub decode: u8,
}

impl Cfg {
    pub fn parse(ws: &[&str]) -> Cfg {
        let mut c = Cfg {
            sol: 2048, unsol: 2048, rx: 2048, unsolicited: false, retries: None, ctimeout: 5000, stimeout: 5000,
            rdelay: 5000, keepalive: None, anymaster: false, broadcast: true, selfaddr: false, maxctl: None,
            discard: false, evmax: 10, evcfg: None, czero: None, decode: 0,
        };
        for w in ws {
            let (k, v) = w.split_once('=').unwrap();
            match k {
                "sol" => c.sol = v.parse().unwrap(),
                "unsol" => c.unsol = v.parse().unwrap(),
                "rx" => c.rx = v.parse().unwrap(),
                "unsolicited" => c.unsolicited = v == "1",
                "retries" => c.retries = if v == "none" { None } else { Some(v.parse().unwrap()) },
                "ctimeout" => c.ctimeout = v.parse().unwrap(),
                "stimeout" => c.stimeout = v.parse().unwrap(),
                "rdelay" => c.rdelay = v.parse().unwrap(),
                "keepalive" => c.keepalive = if v == "none" { None } else { Some(v.parse().unwrap()) },
                "anymaster" => c.anymaster = v == "1",
                "broadcast" => c.broadcast = v == "1",
                "selfaddr" => c.selfaddr = v == "1",
                "maxctl" => c.maxctl = if v == "none" { None } else { Some(v.parse().unwrap()) },
                "discard" => c.discard = v == "1",
                "evmax" => {
                    c.evmax = v.parse().unwrap();
                    c.evcfg = None;
                }
                "evcfg" => {
                    let n: Vec<u16> = v.split(',').map(|x| x.parse().unwrap()).collect();
                    let mut a = [0u16; 8];
                    for (i, x) in n.iter().take(8).enumerate() {
                        a[i] = *x;
                    }
                    c.evcfg = Some(a);
                }
                "czero" => c.czero = Some(v.parse().unwrap()),
                "decode" => c.decode = v.parse().unwrap(),
                _ => panic!("bad cfg key {k}"),
            }
        }
        c
    }
    fn feature(b: bool) -> Feature {
        if b { Feature::Enabled } else { Feature::Disabled }
    }
    pub(crate) fn to_config(&self) -> OutstationConfig {
        let mut ev = EventBufferConfig::no_events();
        ev.max_binary = self.evmax;
        ev.max_analog = self.evmax;
        if let Some(a) = self.evcfg {
            ev = EventBufferConfig::new(a[0], a[1], a[2], a[3], a[4], a[5], a[6], a[7]);
        }
        let mut c = OutstationConfig::new(
            EndpointAddress::try_new(OUTSTATION).unwrap(),
            EndpointAddress::try_new(MASTER).unwrap(),
            ev,
        );
        c.solicited_buffer_size = BufferSize::new(self.sol as usize).unwrap();
        c.unsolicited_buffer_size = BufferSize::new(self.unsol as usize).unwrap();
        c.rx_buffer_size = BufferSize::new(self.rx as usize).unwrap();
        c.decode_level = decode_level(self.decode);
        c.confirm_timeout = Timeout::from_duration(Duration::from_millis(self.ctimeout)).unwrap();
        c.select_timeout = Timeout::from_duration(Duration::from_millis(self.stimeout)).unwrap();
        c.features.self_address = Self::feature(self.selfaddr);
        c.features.broadcast = Self::feature(self.broadcast);
        c.features.unsolicited = Self::feature(self.unsolicited);
        c.features.respond_to_any_master = Self::feature(self.anymaster);
        c.max_unsolicited_retries = self.retries;
        c.unsolicited_retry_delay = Duration::from_millis(self.rdelay);
        c.keep_alive_timeout = self.keepalive.map(Duration::from_millis);
        c.max_controls_per_request = self.maxctl;
        if let Some(m) = self.czero {
            let b = |i: u8| m & (1 << i) != 0;
            c.class_zero = ClassZeroConfig::new(b(0), b(1), b(2), b(3), b(4), b(5), b(6), b(7));
        }
        c
    }
}

/// C01: `decode=<n>` -> all four layers at the n-th level (0 = nothing)
pub fn decode_level(n: u8) -> dnp3::decode::DecodeLevel {
    use dnp3::decode::*;
    let mut d = DecodeLevel::nothing();
    d.application = match n {
        0 => AppDecodeLevel::Nothing,
        1 => AppDecodeLevel::Header,
        2 => AppDecodeLevel::ObjectHeaders,
        _ => AppDecodeLevel::ObjectValues,
    };
    d.transport = match n {
        0 => TransportDecodeLevel::Nothing,
        1 => TransportDecodeLevel::Header,
        _ => TransportDecodeLevel::Payload,
    };
    d.link = match n {
        0 => LinkDecodeLevel::Nothing,
        1 => LinkDecodeLevel::Header,
        _ => LinkDecodeLevel::Payload,
    };
    d.physical = match n {
        0 => PhysDecodeLevel::Nothing,
        1 => PhysDecodeLevel::Length,
        _ => PhysDecodeLevel::Data,
    };
    d
}

pub struct Station {
    pub shared: Shared,
    handle: OutstationHandle,
    peer: Option<tokio::io::DuplexStream>,
    pipe_tx: tokio::sync::mpsc::UnboundedSender<tokio::io::DuplexStream>,
    tseq: u8,
    rxbuf: Vec<u8>,
    asm: Vec<u8>,
    asm_dst: u16,
    _task: tokio::task::JoinHandle<()>,
    pub panicked: bool,
}

impl Station {
    pub fn new(cfg: &Cfg) -> Station {
        let shared = Shared::default();
        let (mut p, handle) = probe::create_outstation(
            cfg.to_config(),
            cfg.discard,
            Box::new(App(shared.clone())),
            Box::new(Info(shared.clone())),
            Box::new(Ctl(shared.clone())),
        );
        let (pipe_tx, mut pipe_rx) = tokio::sync::mpsc::unbounded_channel::<tokio::io::DuplexStream>();
        let sh = shared.clone();
        let task = tokio::spawn(async move {
            while let Some(pipe) = pipe_rx.recv().await {
                let reason = p.run_session(pipe).await;
                sh.push(format!("session {reason}"));
                p.wait_enabled().await;
            }
        });
        let mut s = Station { shared, handle, peer: None, pipe_tx, tseq: 0, rxbuf: Vec::new(), asm: Vec::new(), asm_dst: 0, _task: task, panicked: false };
        s.connect();
        s
    }

    fn connect(&mut self) {
        let (a, b) = tokio::io::duplex(1 << 20);
        self.peer = Some(b);
        self.tseq = 0;
        self.rxbuf.clear();
        self.asm.clear();
        let _ = self.pipe_tx.send(a);
    }

    /// let the outstation task run until nothing changes any more; returns output lines
    pub async fn quiesce(&mut self) -> Vec<String> {
        use tokio::io::AsyncReadExt;
        let mut idle = 0;
        let mut total = 0;
        let mut buf = [0u8; 8192];
        let mut last_log = self.shared.log.lock().unwrap().len();
        while idle < 8 && total < 20000 {
            tokio::task::yield_now().await;
            total += 1;
            let mut changed = false;
            if let Some(peer) = self.peer.as_mut() {
                loop {
                    match dnp3::verif_hooks::poll_once(peer.read(&mut buf)).await {
                        Some(Ok(n)) if n > 0 => {
                            self.rxbuf.extend_from_slice(&buf[..n]);
                            changed = true;
                        }
                        _ => break,
                    }
                }
            }
            let l = self.shared.log.lock().unwrap().len();
            if l != last_log {
                last_log = l;
                changed = true;
            }
            if changed { idle = 0 } else { idle += 1 }
        }
        let mut out: Vec<String> = std::mem::take(&mut *self.shared.log.lock().unwrap());
        if !self.panicked && self._task.is_finished() {
            self.panicked = true;
            out.push("panic".to_string());
        }
        if total >= 20000 {
            out.push("stall".to_string());
        }
        // decode link frames -> transport segments -> fragments
        let mut i = 0;
        while i + 10 <= self.rxbuf.len() {
            let b = &self.rxbuf;
            let dl = (b[i + 2] as usize).saturating_sub(5);
            let trailer = (dl / 16) * 18 + if dl % 16 == 0 { 0 } else { dl % 16 + 2 };
            if i + 10 + trailer > b.len() {
                break;
            }
            let ctrl = b[i + 3];
            let dst = u16::from_le_bytes([b[i + 4], b[i + 5]]);
            let src = u16::from_le_bytes([b[i + 6], b[i + 7]]);
            let mut payload = Vec::new();
            for blk in b[i + 10..i + 10 + trailer].chunks(18) {
                payload.extend_from_slice(&blk[..blk.len() - 2]);
            }
            if ref_frame(ctrl, dst, src, &payload) != b[i..i + 10 + trailer] {
                out.push(format!("txbad {}", hex(&b[i..i + 10 + trailer])));
            } else if ctrl & 0x4F == 0x44 && !payload.is_empty() {
                let tb = payload[0];
                if tb & 0x40 != 0 {
                    self.asm.clear();
                }
                self.asm.extend_from_slice(&payload[1..]);
                self.asm_dst = dst;
                if tb & 0x80 != 0 {
                    out.push(format!("tx {} {}", dst, hex(&self.asm)));
                    self.asm.clear();
                }
            } else {
                out.push(format!("txlink {ctrl} {dst} {src}"));
            }
            i += 10 + trailer;
        }
        self.rxbuf.drain(..i);
        out
    }

    pub async fn rx(&mut self, src: u16, dst: u16, frag: &[u8]) {
        use tokio::io::AsyncWriteExt;
        let chunks: Vec<&[u8]> = frag.chunks(249).collect();
        let mut bytes = Vec::new();
        for (i, c) in chunks.iter().enumerate() {
            let mut tb = self.tseq & 0x3F;
            self.tseq = (self.tseq + 1) & 0x3F;
            if i == 0 { tb |= 0x40 }
            if i + 1 == chunks.len() { tb |= 0x80 }
            let mut p = vec![tb];
            p.extend_from_slice(c);
            bytes.extend(ref_frame(0xC4, dst, src, &p));
        }
        if let Some(peer) = self.peer.as_mut() {
            let _ = peer.write_all(&bytes).await;
        }
    }

    pub async fn raw(&mut self, bytes: &[u8]) {
        use tokio::io::AsyncWriteExt;
        if let Some(peer) = self.peer.as_mut() {
            let _ = peer.write_all(bytes).await;
        }
    }

    pub async fn cut(&mut self) -> Vec<String> {
        self.peer = None;
        let mut out = self.quiesce().await;
        self.connect();
        out.extend(self.quiesce().await);
        out
    }

    /// `kind`: `addbin` | `addan` | a type code (`bin`, `dbl`, `bos`, `ctr`, `frz`, `an`, `aos`, `os`); the point's
    /// configuration is `Ty::add_vars` (static g1v2 / event g2v1 for binary inputs, the library defaults otherwise)
    pub fn add_point(&mut self, kind: &str, idx: u16, class: u8) -> bool {
        self.add_point_db(kind, idx, class, 0)
    }

    pub fn add_point_db(&mut self, kind: &str, idx: u16, class: u8, deadband: u32) -> bool {
        let ty = match kind {
            "addbin" => Ty::Bin,
            "addan" => Ty::An,
            k => Ty::from_code(k).expect("point type"),
        };
        let (sv, ev) = ty.add_vars();
        self.handle.transaction(|db| dnp3::verif_hooks::db_probe::add_typed_db(db, ty.idx() as u8, idx, class, sv, ev, deadband).expect("variation"))
    }

    pub fn txn(&mut self, items: &[&str]) -> Vec<String> {
        let mut res = Vec::new();
        self.handle.transaction(|db| {
            for it in items {
                let p: Vec<&str> = it.split(':').collect();
                let ty = Ty::from_code(p[0]).expect("point type");
                let idx: u16 = p[1].parse().unwrap();
                let flags: u8 = p[3].parse().unwrap();
                let time: u64 = if p[4] == "-" { 0 } else { p[4].parse().unwrap() };
                let (value, octets): (i64, Vec<u8>) = if ty == Ty::Os { (0, unhex(p[2])) } else { (p[2].parse().unwrap(), vec![]) };
                let opts: u8 = p.get(5).map(|x| x.parse().unwrap()).unwrap_or(0);
                let info = dnp3::verif_hooks::db_probe::update_typed_db(db, ty.idx() as u8, idx, value, &octets, flags, time, opts).expect("update");
                res.push(format!("upd {}", dnp3::verif_hooks::db_probe::info_str(info)));
            }
        });
        res
    }
}

pub fn run(ops: &str, out: &mut dyn Write, mon: &mut dyn Write) {
    std::panic::set_hook(Box::new(|i| { if std::env::var("VERIF_PANIC_TRACE").is_ok() { eprintln!("panic: {i}"); } }));
    let mut stats = Stats::default();
    for (hdr, lines) in split_cases(ops) {
        writeln!(out, "{hdr}").unwrap();
        let kind = case_attr(&hdr, "kind").unwrap_or("?").to_string();
        stats.hit(&format!("kind_{kind}"));
        stats.note_case(&lines.join("\n"));
        // a fresh runtime per case: the paused clock starts at zero and no task leaks
        let rt = runtime();
        let mut trace: Vec<(String, Vec<String>)> = Vec::new();
        rt.block_on(async {
            let mut st: Option<Station> = None;
            let mut last_sol: u8 = 0;
            let mut last_uns: u8 = 0;
            for line in &lines {
                let ws: Vec<&str> = line.split_whitespace().collect();
                if ws.is_empty() || ws[0].starts_with('@') {
                    continue;
                }
                let mut outs: Vec<String> = Vec::new();
                match ws[0] {
                    "cfg" => {
                        let cfg = Cfg::parse(&ws[1..]);
                        let mut s = Station::new(&cfg);
                        outs = s.quiesce().await;
                        st = Some(s);
                    }
                    _ if st.is_none() => outs.push("bad-op".to_string()),
                    // after a panic of the task nothing more is done (the database mutex is poisoned)
                    _ if st.as_ref().map(|s| s.panicked).unwrap_or(false) => {}
                    "addbin" | "addan" | "add" => {
                        let s = st.as_mut().unwrap();
                        let (kind, a) = if ws[0] == "add" { (ws[1], 2) } else { (ws[0], 1) };
                        let deadband: u32 = ws.get(a + 2).map(|x| x.parse().unwrap()).unwrap_or(0);
                        let ok = s.add_point_db(kind, ws[a].parse().unwrap(), ws[a + 1].parse().unwrap(), deadband);
                        outs.push(format!("add {}", ok as u8));
                        outs.extend(s.quiesce().await);
                    }
                    "addmany" => {
                        // addmany bin|an <start> <count> <class>: consecutive points in one go
                        let s = st.as_mut().unwrap();
                        let start: u16 = ws[2].parse().unwrap();
                        let count: u16 = ws[3].parse().unwrap();
                        let mut ok = 0;
                        for i in 0..count {
                            if s.add_point(ws[1], start + i, ws[4].parse().unwrap()) {
                                ok += 1;
                            }
                        }
                        outs.push(format!("added {ok}"));
                        outs.extend(s.quiesce().await);
                    }
                    "txn" => {
                        let s = st.as_mut().unwrap();
                        outs = s.txn(&ws[1..]);
                        outs.extend(s.quiesce().await);
                    }
                    "rx" => {
                        let s = st.as_mut().unwrap();
                        s.rx(ws[1].parse().unwrap(), ws[2].parse().unwrap(), &unhex(ws[3])).await;
                        outs = s.quiesce().await;
                    }
                    "cfm" => {
                        let s = st.as_mut().unwrap();
                        let uns = ws[1] == "uns";
                        let delta: u8 = ws[2].parse().unwrap();
                        let seq = ((if uns { last_uns } else { last_sol }) + delta) & 0x0F;
                        let f = [0xC0 | if uns { 0x10 } else { 0 } | seq, 0x00];
                        s.rx(ws[3].parse().unwrap(), OUTSTATION, &f).await;
                        outs = s.quiesce().await;
                    }
                    "raw" => {
                        let s = st.as_mut().unwrap();
                        s.raw(&unhex(ws[1])).await;
                        outs = s.quiesce().await;
                    }
                    "tick" => {
                        let s = st.as_mut().unwrap();
                        tokio::time::advance(Duration::from_millis(ws[1].parse().unwrap())).await;
                        outs = s.quiesce().await;
                    }
                    "cut" => {
                        let s = st.as_mut().unwrap();
                        outs = s.cut().await;
                    }
                    // the application disables communications (the session ends wherever it is) and enables them
                    // again: the next session starts on a new connection
                    "disable" => {
                        let s = st.as_mut().unwrap();
                        let _ = s.handle.disable().await;
                        outs = s.quiesce().await;
                        s.peer = None;
                        outs.extend(s.quiesce().await);
                        let _ = s.handle.enable().await;
                        s.connect();
                        outs.extend(s.quiesce().await);
                    }
                    "appiin" => {
                        let s = st.as_mut().unwrap();
                        *s.shared.app_iin.lock().unwrap() = ws[1].parse().unwrap();
                    }
                    "ctl" => {
                        let s = st.as_mut().unwrap();
                        *s.shared.ctl.lock().unwrap() = (ws[1].split(',').map(|x| x.parse().unwrap()).collect(), 0);
                    }
                    "delay" => *st.as_mut().unwrap().shared.delay_ms.lock().unwrap() = ws[1].parse().unwrap(),
                    "restart" => *st.as_mut().unwrap().shared.restart.lock().unwrap() = ws[1].parse().unwrap(),
                    "timeres" => *st.as_mut().unwrap().shared.time_result.lock().unwrap() = ws[1].parse().unwrap(),
                    _ => outs.push("bad-op".to_string()),
                }
                // canonical order within one op: callbacks first, then transmissions
                // the op in which the task dies is canonicalised to the single line `panic`
                // (what it emitted before unwinding depends on where exactly the unwinding started)
                let outs = if outs.iter().any(|l| l == "panic") { vec!["panic".to_string()] } else { outs };
                let (cbs, txs): (Vec<String>, Vec<String>) = outs.into_iter().partition(|l| !l.starts_with("tx"));
                let mut all = cbs;
                all.extend(txs);
                for o in &all {
                    if let Some(rest) = o.strip_prefix("tx ") {
                        let b = unhex(rest.split_whitespace().nth(1).unwrap_or("-"));
                        if b.len() >= 2 && b[1] == 0x81 {
                            last_sol = b[0] & 0x0F;
                        } else if b.len() >= 2 && b[1] == 0x82 {
                            last_uns = b[0] & 0x0F;
                        }
                    }
                    writeln!(out, "{o}").unwrap();
                    stats.hit(&format!("out_{}", o.split_whitespace().next().unwrap_or("?")));
                }
                writeln!(out, "ok").unwrap();
                trace.push((line.clone(), all));
            }
        });
        drop(rt);
        crate::mon_outstation::check(&hdr, &lines, &trace, mon, &mut stats);
    }
    stats.dump(mon);
}
