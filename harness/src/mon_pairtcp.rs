//! trace monitors of engine `pairtcp` (C02, C01).  Everything runs in real time on a multi-threaded
//! runtime, so every predicate is either a safety statement that does not depend on the interleaving
//! (judged on time stamps whose order is sound: a stamp taken before an action starts / after it has
//! returned) or an EVENTUAL statement with a generous real-time budget.  Independent reference: the
//! harness' own ledger of what the user thread put into the database (written BEFORE the transaction
//! starts, completed AFTER it has returned), the proxy's own record of connections, and the
//! configuration (`cfg` line).  The semantics of convergence are those of `mon_pair.rs`, with time
//! stamps in place of op numbers.
//!
//! C02: converged_after_quiescence, events_delivered_at_least_once (explicit tails: user reads of
//!      classes 0-3; auto tails: the per-point "owed" rule), nothing_fabricated, no_resurrection,
//!      reconnects_after_cut, server_replaces_session
//! C01: no_panic, no_hang, reconnects_after_cut
use crate::eng_pairtcp::{slack_ms, CaseOut, PEv};
use std::collections::BTreeMap;

fn kv<'a>(ws: &[&'a str], k: &str) -> Option<&'a str> {
    ws.iter().find_map(|w| w.split_once('=').and_then(|(a, b)| if a == k { Some(b) } else { None }))
}
fn kv_u64(ws: &[&str], k: &str, d: u64) -> u64 {
    kv(ws, k).and_then(|v| v.parse().ok()).unwrap_or(d)
}

pub fn ty_name(ty: u8) -> &'static str {
    match ty {
        0 => "binary",
        1 => "analog",
        _ => "counter",
    }
}

/// the octets a measurement object of this engine's variations carries (g1v2 / g2v1, g30v1 / g32v1, g20v1 / g22v1)
pub fn image(ty: u8, v: i64, flags: u8) -> Vec<u8> {
    match ty {
        0 => vec![(flags & 0x7F) | if v == 1 { 0x80 } else { 0 }],
        1 => {
            let (val, fl) = if v > i32::MAX as i64 {
                (i32::MAX, flags | 0x20)
            } else if v < i32::MIN as i64 {
                (i32::MIN, flags | 0x20)
            } else {
                (v as i32, flags)
            };
            let mut r = vec![fl];
            r.extend_from_slice(&val.to_le_bytes());
            r
        }
        _ => {
            let mut r = vec![flags];
            r.extend_from_slice(&(v as u32).to_le_bytes());
            r
        }
    }
}

fn initial_image(ty: u8) -> Vec<u8> {
    if ty == 0 { vec![0x02] } else { vec![0x02, 0, 0, 0, 0] }
}

// ------------------------------------------------------------------------------------------ the ledger

pub struct Hist {
    pub img: Vec<u8>,
    /// stamp taken before the transaction that wrote it started
    pub begin: u64,
    /// stamp taken after the transaction that replaced it had returned
    pub replaced: Option<u64>,
}

pub struct Pt {
    pub class: u8,
    pub hist: Vec<Hist>,
    /// stamp taken after the transaction that added / last updated the point had returned
    pub changed_done: u64,
}

pub struct Ev {
    pub id: u64,
    pub key: (u8, u16, Vec<u8>),
    pub discarded: bool,
    /// stamp taken before the transaction that recorded it started
    pub t0: u64,
}

pub enum Upd {
    NoPoint,
    NoEvent,
    Created(u64),
    Overflow(u64, u64),
}

#[derive(Default)]
pub struct Ledger {
    pub pts: BTreeMap<(u8, u16), Pt>,
    pub events: Vec<Ev>,
    pub updates: u64,
    pub overflows: u64,
    /// the database and the ledger disagree about which points exist (a harness defect, or `add` / `update` lying)
    pub inconsistent: Vec<String>,
    /// (t_begin, t_end, text) of every transaction, for the trace
    pub log: Vec<(u64, String)>,
}

impl Ledger {
    pub fn add_begin(&mut self, ty: u8, idx: u16, class: u8, t0: u64) -> bool {
        if self.pts.contains_key(&(ty, idx)) {
            return false;
        }
        self.pts.insert((ty, idx), Pt { class, hist: vec![Hist { img: initial_image(ty), begin: t0, replaced: None }], changed_done: t0 });
        true
    }
    pub fn add_end(&mut self, ty: u8, idx: u16, fresh: bool, ok: bool, t1: u64) {
        if fresh != ok {
            self.inconsistent.push(format!("add {} {idx}: the ledger says {}, Database::add returned {ok}", ty_name(ty), if fresh { "new" } else { "exists" }));
        }
        if fresh {
            if let Some(p) = self.pts.get_mut(&(ty, idx)) {
                p.changed_done = t1;
            }
            self.log.push((t1, format!("user add {} {idx} class {}", ty_name(ty), self.pts.get(&(ty, idx)).map(|p| p.class).unwrap_or(0))));
        }
    }
    pub fn update_begin(&mut self, ty: u8, idx: u16, img: Vec<u8>, t0: u64) -> Option<usize> {
        let p = self.pts.get_mut(&(ty, idx))?;
        p.hist.push(Hist { img, begin: t0, replaced: None });
        Some(p.hist.len() - 1)
    }
    pub fn update_end(&mut self, ty: u8, idx: u16, mark: Option<usize>, r: Upd, t1: u64) {
        let exists = mark.is_some();
        if exists == matches!(r, Upd::NoPoint) {
            self.inconsistent.push(format!("update {} {idx}: the ledger says the point {}, Database::update2 says the opposite", ty_name(ty), if exists { "exists" } else { "does not exist" }));
        }
        let i = match mark {
            Some(i) => i,
            None => return,
        };
        let p = self.pts.get_mut(&(ty, idx)).unwrap();
        for h in p.hist[..i].iter_mut() {
            if h.replaced.is_none() {
                h.replaced = Some(t1);
            }
        }
        p.changed_done = t1;
        self.updates += 1;
        let img = p.hist[i].img.clone();
        let t0 = p.hist[i].begin;
        let what = match r {
            Upd::Created(id) => {
                self.events.push(Ev { id, key: (ty, idx, img.clone()), discarded: false, t0 });
                format!("event {id}")
            }
            Upd::Overflow(c, d) => {
                if let Some(e) = self.events.iter_mut().find(|e| e.id == d) {
                    e.discarded = true;
                }
                self.events.push(Ev { id: c, key: (ty, idx, img.clone()), discarded: false, t0 });
                self.overflows += 1;
                format!("event {c}, overflow discarded event {d}")
            }
            Upd::NoEvent => "no event".to_string(),
            Upd::NoPoint => "no point".to_string(),
        };
        self.log.push((t1, format!("user update {} {idx} = {:02x?} ({what})", ty_name(ty), img)));
    }
}

// ------------------------------------------------------------------------------------------ configuration

/// what the `cfg` line and the polls that were added configured: the library's own reporting mechanisms
#[derive(Default, Clone)]
pub struct Mech {
    pub unsolicited: bool,
    pub dis: u8,
    pub en: u8,
    pub int: u8,
    pub evscan: u8,
    pub ovf: bool,
    pub polls: Vec<u8>,
    pub cmin: u64,
    pub cmax: u64,
    pub crec: u64,
}

impl Mech {
    pub fn from_cfg(ws: &[&str]) -> Mech {
        Mech {
            unsolicited: kv_u64(ws, "unsolicited", 0) == 1,
            dis: kv_u64(ws, "dis", 7) as u8,
            en: kv_u64(ws, "en", 7) as u8,
            int: kv_u64(ws, "int", 15) as u8,
            evscan: kv_u64(ws, "evscan", 0) as u8,
            ovf: kv_u64(ws, "ovf", 1) == 1,
            polls: Vec::new(),
            cmin: kv_u64(ws, "cmin", 10),
            cmax: kv_u64(ws, "cmax", 80),
            crec: kv_u64(ws, "crec", 10),
        }
    }
    fn periodic_class0(&self) -> bool {
        self.polls.iter().any(|c| c & 8 != 0)
    }
    /// events of class `c` (1..3) are reported without any user request
    fn events(&self, c: u8) -> Option<&'static str> {
        let bit = 1u8 << (c - 1);
        if self.polls.iter().any(|p| p & bit != 0) {
            Some("periodic event poll")
        } else if self.unsolicited && self.en & bit != 0 {
            Some("unsolicited reporting")
        } else if self.evscan & bit != 0 && !self.polls.is_empty() {
            Some("automatic event scan after a periodic poll")
        } else {
            None
        }
    }
}

// ------------------------------------------------------------------------------------------ the master's log

pub struct Delivery {
    pub t: u64,
    pub ty: u8,
    pub is_ev: bool,
    pub idx: u16,
    pub img: Vec<u8>,
    pub unsol: bool,
    /// stamp of the `task_start` of the read in progress (taken before its request was written)
    pub read_start: Option<u64>,
    pub gv: (u8, u8),
}

#[derive(Default)]
pub struct MView {
    pos: usize,
    pub last_delivered: BTreeMap<(u8, u16), Vec<u8>>,
    pub delivered_events: BTreeMap<(u8, u16, Vec<u8>), u64>,
    pub deliveries: Vec<Delivery>,
    pub foreign_objects: Vec<(u64, String)>,
    deliver_unsol: bool,
    cur_read_start: Option<u64>,
    read_outstanding: Option<u64>,
    /// fragments with IIN2.3 handed to the handler: (stamp, start of the READ outstanding then)
    pub ovf_shown: Vec<(u64, Option<u64>)>,
    pub completes: BTreeMap<u64, (u64, String)>,
    pub polls: Vec<u8>,
    pub assoc_ok: bool,
    /// (stamp, line number, state, duration in µs)
    pub client: Vec<(u64, usize, String, u64)>,
    /// (stamp, line number, task, phase: start | success | fail, error)
    pub tasks: Vec<(u64, usize, String, String, String)>,
    pub fragments: u64,
}

const READ_TASKS: [&str; 4] = ["user_read", "periodic_poll", "startup_integrity", "auto_event_scan"];

impl MView {
    pub fn process(&mut self, lines: &[(u64, String)]) {
        while self.pos < lines.len() {
            let (t, s) = &lines[self.pos];
            let n = self.pos;
            self.pos += 1;
            let w: Vec<&str> = s.split_whitespace().collect();
            match w.as_slice() {
                ["client", st] => self.client.push((*t, n, st.to_string(), 0)),
                ["client", st, d] => self.client.push((*t, n, st.to_string(), d.parse().unwrap_or(0))),
                ["assoc", "ok"] => self.assoc_ok = true,
                ["complete", id, rest @ ..] => {
                    if let Ok(id) = id.parse::<u64>() {
                        if rest.len() == 3 && rest[0] == "poll" && rest[1] == "ok" {
                            self.polls.push(rest[2].parse::<u64>().unwrap_or(0) as u8);
                        }
                        self.completes.insert(id, (*t, rest.join(" ")));
                    }
                }
                ["info", _, phase, task, rest @ ..] if *phase == "start" || *phase == "success" || *phase == "fail" => {
                    self.tasks.push((*t, n, task.to_string(), phase.to_string(), if *phase == "fail" { rest.join(" ") } else { String::new() }));
                    if READ_TASKS.contains(task) {
                        if *phase == "start" {
                            self.cur_read_start = Some(*t);
                            self.read_outstanding = Some(*t);
                        } else {
                            self.read_outstanding = None;
                        }
                    }
                }
                ["deliver", _, "begin", kind, _ctrl, _iin1, iin2] => {
                    self.deliver_unsol = *kind == "unsol";
                    self.fragments += 1;
                    if iin2.parse::<u8>().unwrap_or(0) & 0x08 != 0 {
                        self.ovf_shown.push((*t, self.read_outstanding));
                    }
                }
                ["deliver", _, "hdr", g, v, _q, _n, items] => {
                    let (g, v): (u8, u8) = (g.parse().unwrap_or(0), v.parse().unwrap_or(0));
                    if *items == "-" {
                        continue;
                    }
                    let (ty, is_ev) = match (g, v) {
                        (1, 2) => (0, false),
                        (2, 1) => (0, true),
                        (30, 1) => (1, false),
                        (32, 1) => (1, true),
                        (20, 1) => (2, false),
                        (22, 1) => (2, true),
                        _ => {
                            self.foreign_objects.push((*t, s.clone()));
                            continue;
                        }
                    };
                    for item in items.split(',') {
                        let p: Vec<&str> = item.split(':').collect();
                        let idx: u16 = p[0].parse().unwrap_or(0);
                        let flags: u8 = p.get(1).and_then(|x| x.parse().ok()).unwrap_or(0);
                        let img = match ty {
                            0 => vec![flags],
                            1 => {
                                let mut r = vec![flags];
                                r.extend_from_slice(&(p.get(2).and_then(|x| x.parse::<i64>().ok()).unwrap_or(0) as i32).to_le_bytes());
                                r
                            }
                            _ => {
                                let mut r = vec![flags];
                                r.extend_from_slice(&(p.get(2).and_then(|x| x.parse::<u64>().ok()).unwrap_or(0) as u32).to_le_bytes());
                                r
                            }
                        };
                        if is_ev {
                            *self.delivered_events.entry((ty, idx, img.clone())).or_insert(0) += 1;
                        }
                        self.last_delivered.insert((ty, idx), img.clone());
                        self.deliveries.push(Delivery { t: *t, ty, is_ev, idx, img, unsol: self.deliver_unsol, read_start: self.cur_read_start, gv: (g, v) });
                    }
                }
                _ => {}
            }
        }
    }

    /// the start-up sequence after the last `connected`: None = concluded (or nothing configured); Some(what is missing)
    fn startup_missing(&self, mech: &Mech) -> Option<String> {
        let from = match self.client.iter().rev().find(|c| c.2 == "connected") {
            Some(c) => c.1,
            None => return Some("the client never reported `Connected`".to_string()),
        };
        let mut at = from;
        let mut steps: Vec<(&str, &str)> = Vec::new();
        if mech.dis != 0 {
            steps.push(("disable_unsol", "DISABLE_UNSOLICITED"));
        }
        if mech.int != 0 {
            steps.push(("startup_integrity", "the integrity poll"));
        }
        if mech.en != 0 {
            steps.push(("enable_unsol", "ENABLE_UNSOLICITED"));
        }
        for (task, name) in steps {
            // concluded: answered by the outstation (success, or rejected by IIN2 which the master takes as final)
            let hit = self.tasks.iter().find(|x| x.1 > at && x.2 == task && (x.3 == "success" || (x.3 == "fail" && x.4.starts_with("iin2") && task != "startup_integrity")));
            match hit {
                Some(x) => at = x.1,
                None => {
                    let started = self.tasks.iter().any(|x| x.1 > at && x.2 == task && x.3 == "start");
                    return Some(format!("{name} ({task}) {} after the last `Connected`", if started { "was started but has not been answered" } else { "was never started" }));
                }
            }
        }
        None
    }
}

/// the obligations on the connection at the end of the quiescent tail
pub fn connection_obligations(view: &MView, pev: &[(u64, PEv)], mech: &Mech) -> Result<(), String> {
    let last_up = pev.iter().rev().find_map(|(t, e)| match e { PEv::Up(id) => Some((*t, *id)), _ => None });
    let (_, id) = match last_up {
        Some(x) => x,
        None => return Err("the proxy never had a forwarding connection".to_string()),
    };
    if pev.iter().any(|(_, e)| matches!(e, PEv::Down(k, _) if *k == id)) {
        return Err(format!("connection {id}, the last one, has ended and no new one was established"));
    }
    match view.client.last() {
        Some(c) if c.2 == "connected" => {}
        Some(c) => return Err(format!("the client's last reported state is `{}`", c.2)),
        None => return Err("the client reported no state".to_string()),
    }
    if view.assoc_ok {
        if let Some(m) = view.startup_missing(mech) {
            return Err(format!("start-up sequence not (re-)run on the last connection: {m}"));
        }
    }
    Ok(())
}

#[derive(Default)]
pub struct Judgement {
    /// owed and not there (yet)
    pub pending: Vec<String>,
    pub pending_points: Vec<((u8, u16), String)>,
    pub pending_events: Vec<String>,
    /// (image key, events recorded and not discarded, objects that reached the handler)
    pub pending_event_keys: Vec<((u8, u16, Vec<u8>), u64, u64)>,
    pub counts: BTreeMap<String, u64>,
}

/// the picture at the handler against the database: which current values / events are OWED by the library, and
/// which of those are missing
pub fn judge(view: &MView, ledger: &Ledger, mech: &Mech, pev: &[(u64, PEv)], auto: bool) -> Judgement {
    let mut j = Judgement::default();
    let mut hit = |j: &mut Judgement, k: &str| *j.counts.entry(k.to_string()).or_insert(0) += 1;
    let last_up = pev.iter().rev().find_map(|(t, e)| match e { PEv::Up(_) => Some(*t), _ => None });
    // `auto`: no user request in the tail.  A point's current value is OWED to the handler when, after the point's
    // last update (stamp taken when the transaction had returned),
    //   A  a periodic poll that includes class 0 is configured, or
    //   B  the update was recorded as an event that was not overflow-discarded and the point's class is reported
    //      without a user request (periodic poll of that class, unsolicited reporting enabled at the outstation and by
    //      the master's `en` mask, automatic event scan fed by some periodic poll), or
    //   C  the master's integrity poll covers class 0 and was due after the update:
    //      C1 the last connection through the proxy was established after the update (start-up integrity poll), or
    //      C2 auto_integrity_scan_on_buffer_overflow and the handler was handed a fragment with IIN2.3 after the update
    //         while no READ started before the update was in progress.
    let owed = |idx: (u8, u16), p: &Pt| -> Option<String> {
        let cur = &p.hist.last().unwrap().img;
        let u = p.changed_done;
        if mech.periodic_class0() {
            return Some("A: a periodic poll including class 0 is configured".to_string());
        }
        if p.class >= 1 {
            if let Some(how) = mech.events(p.class) {
                if let Some(e) = ledger.events.iter().rev().find(|e| e.key.0 == idx.0 && e.key.1 == idx.1) {
                    if &e.key.2 == cur && !e.discarded {
                        return Some(format!("B: its last update is event {} of class {}, not discarded; {how}", e.id, p.class));
                    }
                }
            }
        }
        if mech.int & 8 != 0 {
            if let Some(t) = last_up {
                if t >= u {
                    return Some(format!("C1: the last connection was established at {t} us, after its last update ({u} us); the start-up integrity poll includes class 0"));
                }
            }
            if mech.ovf {
                if let Some((ti, _)) = view.ovf_shown.iter().find(|(ti, out)| *ti >= u && out.map(|s| s >= u).unwrap_or(true)) {
                    return Some(format!("C2: the handler was handed IIN2.3 at {ti} us, after its last update ({u} us); overflow demands an integrity poll including class 0"));
                }
            }
        }
        None
    };
    if !view.assoc_ok {
        return j;
    }
    for (k, p) in &ledger.pts {
        let cur = &p.hist.last().unwrap().img;
        let why = if auto { owed(*k, p) } else { Some("explicit".to_string()) };
        let ok = view.last_delivered.get(k) == Some(cur);
        match (&why, ok) {
            (Some(w), true) => hit(&mut j, &format!("point_owed_{}_current", &w[..w.find(':').unwrap_or(w.len())])),
            (Some(w), false) => {
                hit(&mut j, &format!("point_owed_{}_missing", &w[..w.find(':').unwrap_or(w.len())]));
                let text = format!("{} {}: database {:02x?}, handler's last {:02x?}{}", ty_name(k.0), k.1, cur, view.last_delivered.get(k), if auto { format!(" (no user read in the tail; owed by {w})") } else { String::new() });
                j.pending.push(text.clone());
                j.pending_points.push((*k, text));
            }
            (None, true) => hit(&mut j, "point_not_owed_current"),
            (None, false) => {
                hit(&mut j, "point_not_owed_stale");
                let last_ev = ledger.events.iter().rev().find(|e| e.key.0 == k.0 && e.key.1 == k.1);
                hit(&mut j, if last_ev.map(|e| e.discarded).unwrap_or(false) { "point_not_owed_stale_last_event_discarded" } else { "point_not_owed_stale_nothing_reports_by_itself" });
            }
        }
    }
    let mut need: BTreeMap<(u8, u16, Vec<u8>), u64> = BTreeMap::new();
    for e in &ledger.events {
        let owed_event = !auto || ledger.pts.get(&(e.key.0, e.key.1)).map(|p| p.class >= 1 && mech.events(p.class).is_some()).unwrap_or(false);
        if e.discarded {
            hit(&mut j, "event_discarded");
        } else if owed_event {
            hit(&mut j, "event_owed");
            *need.entry(e.key.clone()).or_insert(0) += 1;
        } else {
            hit(&mut j, "event_not_owed");
        }
    }
    for (key, n) in &need {
        let got = *view.delivered_events.get(key).unwrap_or(&0);
        if got < *n {
            j.pending_event_keys.push((key.clone(), *n, got));
            j.pending_events.push(format!("{} {} image {:02x?}: {n} event(s) recorded and not overflow-discarded, {got} reached the handler{}", ty_name(key.0), key.1, key.2, if auto { " (no user read in the tail; the point's class is reported by the library itself)" } else { "" }));
        }
    }
    if !j.pending_events.is_empty() {
        // the tail also waits for them
        j.pending.push(j.pending_events[0].clone());
    }
    j
}

/// (is event, type, index, image) of the measurement objects of a response in this engine's vocabulary
fn decode_measurements(mut b: &[u8]) -> Option<Vec<(bool, u8, u16, Vec<u8>)>> {
    let mut res = Vec::new();
    while !b.is_empty() {
        if b.len() < 3 {
            return None;
        }
        let (g, v, q) = (b[0], b[1], b[2]);
        b = &b[3..];
        let (start, count, isz): (usize, usize, usize) = match q {
            0x00 => {
                if b.len() < 2 { return None; }
                let r = (b[0] as usize, (b[1] as usize + 1).checked_sub(b[0] as usize)?, 0);
                b = &b[2..];
                r
            }
            0x01 => {
                if b.len() < 4 { return None; }
                let s = u16::from_le_bytes([b[0], b[1]]) as usize;
                let e = u16::from_le_bytes([b[2], b[3]]) as usize;
                b = &b[4..];
                (s, (e + 1).checked_sub(s)?, 0)
            }
            0x17 => {
                if b.is_empty() { return None; }
                let c = b[0] as usize;
                b = &b[1..];
                (0, c, 1)
            }
            0x28 => {
                if b.len() < 2 { return None; }
                let c = u16::from_le_bytes([b[0], b[1]]) as usize;
                b = &b[2..];
                (0, c, 2)
            }
            _ => return None,
        };
        let (size, ty, is_ev) = match (g, v) {
            (1, 2) => (1, 0, false),
            (2, 1) => (1, 0, true),
            (30, 1) => (5, 1, false),
            (32, 1) => (5, 1, true),
            (20, 1) => (5, 2, false),
            (22, 1) => (5, 2, true),
            (12, 1) => (11, 9, false),
            (41, 1) | (41, 3) => (5, 9, false),
            (41, 2) => (3, 9, false),
            (41, 4) => (9, 9, false),
            _ => return None,
        };
        for i in 0..count {
            if b.len() < isz + size {
                return None;
            }
            let idx = match isz {
                0 => (start + i) as u16,
                1 => b[0] as u16,
                _ => u16::from_le_bytes([b[0], b[1]]),
            };
            if ty != 9 {
                res.push((is_ev, ty, idx, b[isz..isz + size].to_vec()));
            }
            b = &b[isz + size..];
        }
    }
    Some(res)
}

/// D33 (provisional id): when the TCP server hands the outstation task a new connection while the previous session is
/// still running (`ServerTask::run_one_session`: `select!` drops the future of `Session::run`), the end-of-session
/// resets of `OutstationSession::run` / `OutstationTask::run` (SessionState::reset, Database::reset, reader / writer
/// reset) never run: events written into a response that was awaiting its confirm stay `Written`, are skipped by every
/// later response and are released by the next confirm of any response (the D19 history through the replacement path).
/// Signature, from observations only: the event was carried as an object by a response fragment the PROXY received on
/// connection j, it never reached the handler, and either the application was told `event_cleared` while a LATER
/// connection was the current one, or it was never released at all although a later connection exists (it is still
/// `Written`: no response since has asked for a confirm).  The replacement also happens without any half-open socket:
/// the client closes its old socket only when its reconnect delay is over, i.e. together with the new connection attempt,
/// so the end of stream of the old socket and the new connection reach the outstation task at the same moment and
/// `select!` may take the new connection first.
struct D33<'a> {
    e: &'a End,
    /// (stamp, connection, event objects) of the response fragments seen on the wire
    carried: Vec<(u64, usize, Vec<(u8, u16, Vec<u8>)>)>,
    /// (stamp, connection): the last solicited response fragment seen on the connection was not final
    unfinished_series: Vec<(u64, usize)>,
}

impl<'a> D33<'a> {
    fn new(e: &'a End) -> Self {
        let mut carried = Vec::new();
        let mut last_sol: BTreeMap<usize, (u64, bool)> = BTreeMap::new();
        for (t, conn, m2o, line) in &e.wire {
            if *m2o {
                continue;
            }
            let w: Vec<&str> = line.split_whitespace().collect();
            if w.len() == 3 && w[0] == "tx" {
                let frag = crate::util::unhex(w[2]);
                if frag.len() >= 4 && (frag[1] == 0x81 || frag[1] == 0x82) {
                    if frag[1] == 0x81 {
                        last_sol.insert(*conn, (*t, frag[0] & 0x40 != 0));
                    }
                    if let Some(objs) = decode_measurements(&frag[4..]) {
                        let evs: Vec<(u8, u16, Vec<u8>)> = objs.into_iter().filter(|o| o.0).map(|o| (o.1, o.2, o.3)).collect();
                        if !evs.is_empty() {
                            carried.push((*t, *conn, evs));
                        }
                    }
                }
            }
        }
        let unfinished_series = last_sol.into_iter().filter(|(_, (_, fin))| !*fin).map(|(c, (t, _))| (t, c)).collect();
        D33 { e, carried, unfinished_series }
    }
    fn conn_at(&self, t: u64) -> Option<usize> {
        self.e.pev.iter().filter(|(tu, _)| *tu <= t).filter_map(|(_, x)| match x { PEv::Up(k) => Some(*k), _ => None }).last()
    }
    /// how many recorded events of this image have the signature
    fn lost_events(&self, key: &(u8, u16, Vec<u8>)) -> u64 {
        let mut n = 0;
        for ev in self.e.ledger.events.iter().filter(|x| &x.key == key && !x.discarded) {
            let cleared = self.e.olog.iter().find(|(_, l)| *l == format!("cb event_cleared {}", ev.id)).map(|x| x.0);
            // released: while which connection was the current one; never released: the last connection of the case
            let (tc, at_release) = match cleared {
                Some(t) => (t, self.conn_at(t)),
                None => (self.e.t_end, self.conn_at(self.e.t_end)),
            };
            let at_release = match at_release {
                Some(k) => k,
                None => continue,
            };
            if self.carried.iter().any(|(t, j, evs)| *t >= ev.t0 && *t <= tc && *j < at_release && evs.contains(key)) {
                n += 1;
            }
        }
        n
    }
}

// ------------------------------------------------------------------------------------------ the verdict

pub struct End {
    pub cfg: Vec<String>,
    pub mlog: Vec<(u64, String)>,
    pub olog: Vec<(u64, String)>,
    pub pev: Vec<(u64, PEv)>,
    pub wire: Vec<(u64, usize, bool, String)>,
    pub ocb: Vec<String>,
    pub ledger: Ledger,
    pub pending: Vec<(u64, u64)>,
    pub hangs: Vec<String>,
    pub master_alive: &'static str,
    pub outstation_task_ended: bool,
    pub server_task_ended: bool,
    pub t_clear: Option<u64>,
    pub t_end: u64,
    pub tail_auto: Option<bool>,
    pub held: Vec<(usize, &'static str, String)>,
    pub octets: [u64; 2],
    /// the tail found every eventual obligation met when the master log / the proxy log had this many entries
    pub satisfied_at: Option<(usize, usize)>,
}

fn bucket(ms: u64) -> &'static str {
    match ms {
        0..=4 => "le5ms",
        5..=19 => "le20ms",
        20..=99 => "le100ms",
        100..=499 => "le500ms",
        500..=1999 => "le2s",
        _ => "gt2s",
    }
}

pub fn verdict(_hdr: &str, ops: &[String], e: &End, panics: &[String], out: &mut CaseOut) {
    let ws: Vec<&str> = e.cfg.iter().map(|s| s.as_str()).collect();
    let mut mech = Mech::from_cfg(&ws);
    let mut view = MView::default();
    view.process(&e.mlog);
    mech.polls = view.polls.clone();
    let mut stat = |k: &str, n: u64| out.stats.push((k.to_string(), n));
    let mut fails: Vec<(String, String, String)> = Vec::new();
    let fails_cell = std::cell::RefCell::new(&mut fails);
    let fail_c = |name: &str, cause: &str, detail: String| {
        let mut f = fails_cell.borrow_mut();
        if !f.iter().any(|x| x.0 == name) {
            f.push((name.to_string(), cause.to_string(), detail));
        }
    };
    let fail = |name: &str, detail: String| fail_c(name, "", detail);
    let d32 = D33::new(e);
    let slack = slack_ms() * 1000;

    // ---- no_panic: the panic hook (threads of this case), the JoinHandles of the tasks spawned for the library, the channel
    if !panics.is_empty() {
        fail("no_panic", format!("panic in a thread of this case: {}", panics.join(" | ")));
    }
    if e.outstation_task_ended {
        fail("no_panic", "the outstation task ended while its handle and the server handle were alive".to_string());
    }
    if e.server_task_ended {
        fail("no_panic", "the TCP server task ended while its handle was alive".to_string());
    }
    if e.master_alive == "gone" {
        fail("no_panic", "the master channel task is gone (requests answered with Shutdown) while its handle was alive".to_string());
    }
    // ---- no_hang
    if e.master_alive == "silent" {
        fail("no_hang", format!("the master channel task did not answer a get_decode_level request within {} ms", slack_ms()));
    }
    for h in &e.hangs {
        fail("no_hang", h.clone());
    }
    for l in &e.ledger.inconsistent {
        fail("harness_ok", l.clone());
    }

    // ---- nothing_fabricated / no_resurrection (safety; judged on the complete ledger)
    for (t, line) in &view.foreign_objects {
        fail("nothing_fabricated", format!("at {t} us the handler was given objects of a type no point of the database has: {line}"));
    }
    let mut static_checked = 0u64;
    for d in &view.deliveries {
        let name = format!("g{}v{} index {}", d.gv.0, d.gv.1, d.idx);
        match e.ledger.pts.get(&(d.ty, d.idx)) {
            None => fail("nothing_fabricated", format!("at {} us: {name} delivered, no such {} point exists", d.t, ty_name(d.ty))),
            Some(pt) => {
                // the ledger entry is written before the transaction starts: whatever is delivered is already there
                let held: Vec<&Hist> = pt.hist.iter().filter(|h| h.img == d.img && h.begin <= d.t).collect();
                if held.is_empty() {
                    fail("nothing_fabricated", format!("at {} us: {name} image {:02x?} was never the point's value (history {:02x?})", d.t, d.img, pt.hist.iter().map(|h| h.img.clone()).collect::<Vec<_>>()));
                } else if !d.is_ev && !d.unsol {
                    // static data answers the READ in progress: it must still have been current when that READ's task
                    // started (the stamp `replaced` is taken after the replacing transaction has returned)
                    if let Some(s) = d.read_start {
                        static_checked += 1;
                        if !held.iter().any(|h| h.replaced.map(|r| r >= s).unwrap_or(true)) {
                            // D33, static half: the rest of the selection of a series cut short on an earlier connection
                            let now = d32.conn_at(d.t);
                            let cause = if d32.unfinished_series.iter().any(|(t, c)| *t < d.t && now.map(|k| *c < k).unwrap_or(false)) { "D33" } else { "" };
                            fail_c("no_resurrection", cause, format!("at {} us: static {name} image {:02x?} had been replaced (transaction returned at {:?} us) before the READ it answers was started ({s} us)", d.t, d.img, held.iter().filter_map(|h| h.replaced).max()));
                        }
                    }
                }
            }
        }
    }
    stat("c02_objects_delivered", view.deliveries.len() as u64);
    stat("c02_static_objects_checked_against_read_start", static_checked);
    stat("c02_fragments_delivered", view.fragments);

    // ---- reconnects_after_cut
    // (1) the back-off law of ConnectStrategy, exactly: the first failed attempt after a success (or the start) waits
    //     cmin, every further one twice the last, capped at cmax; after a disconnect the wait is crec
    let mut expect = mech.cmin * 1000;
    let mut failed_waits = 0u64;
    for (i, c) in view.client.iter().enumerate() {
        match c.2.as_str() {
            "connected" => expect = mech.cmin * 1000,
            "wait_failed" => {
                failed_waits += 1;
                if c.3 != expect {
                    fail("reconnects_after_cut", format!("at {} us the client waits {} us after a failed connection attempt; the configured back-off (min {} ms, max {} ms, doubling, reset by a success) gives {} us", c.0, c.3, mech.cmin, mech.cmax, expect));
                }
                expect = (expect * 2).min(mech.cmax * 1000).max(mech.cmin * 1000);
            }
            "wait_disc" => {
                if c.3 != mech.crec * 1000 {
                    fail("reconnects_after_cut", format!("at {} us the client waits {} us after a disconnect; configured reconnect delay {} ms", c.0, c.3, mech.crec));
                }
            }
            _ => {}
        }
        // (2) the loop goes on: a wait of d is followed by `Connecting` no earlier than d and no later than d + slack;
        //     `Connecting` is followed by its outcome within the slack
        let next = view.client.get(i + 1);
        let (lo, hi, what) = match c.2.as_str() {
            "wait_failed" | "wait_disc" => (c.3, c.3 + slack, "connecting"),
            "connecting" => (0, slack, ""),
            _ => continue,
        };
        match next {
            Some(n) => {
                let dt = n.0 - c.0;
                if !what.is_empty() && n.2 != what {
                    fail("reconnects_after_cut", format!("client state `{}` at {} us is followed by `{}`, not by a new connection attempt", c.2, c.0, n.2));
                } else if dt + 1000 < lo {
                    fail("reconnects_after_cut", format!("client state `{} {}` at {} us is followed by `{}` after {dt} us only", c.2, c.3, c.0, n.2));
                } else if dt > hi {
                    fail("reconnects_after_cut", format!("client state `{} {}` at {} us is followed by `{}` after {dt} us (allowed: {hi} us)", c.2, c.3, c.0, n.2));
                }
            }
            None => {
                if e.t_end.saturating_sub(c.0) > hi {
                    fail("reconnects_after_cut", format!("client state `{} {}` at {} us is the last one reported; {} us later the case ended: the reconnect loop has stopped", c.2, c.3, c.0, e.t_end - c.0));
                }
            }
        }
    }
    stat("tcp_failed_connect_waits", failed_waits);
    stat("tcp_client_connected", view.client.iter().filter(|c| c.2 == "connected").count() as u64);
    // (3) every connection the proxy ended is followed by a new one (distribution: how fast; verdict: at the end of the tail)
    let mut downs = 0u64;
    for (t, ev) in &e.pev {
        if let PEv::Down(id, why) = ev {
            downs += 1;
            stat(&format!("tcp_down_{why}"), 1);
            // the listener may have been closed meanwhile: count from its re-opening
            let mut from = *t;
            let mut closed = false;
            for (t2, e2) in &e.pev {
                match e2 {
                    PEv::ListenClosed if *t2 <= *t => closed = true,
                    PEv::ListenOpen if *t2 <= *t => closed = false,
                    PEv::ListenOpen if closed && *t2 > *t => {
                        from = *t2;
                        closed = false;
                    }
                    _ => {}
                }
            }
            if let Some(ta) = e.pev.iter().find_map(|(t2, e2)| match e2 { PEv::Accept(k) if *k > *id && *t2 >= from => Some(*t2), _ => None }) {
                stat(&format!("tcp_reconnect_latency_{}", bucket((ta - from) / 1000)), 1);
            } else {
                stat("tcp_down_without_successor_before_the_end", 1);
            }
        }
    }
    stat("tcp_connections_ended", downs);
    stat("tcp_connections_forwarding", e.pev.iter().filter(|(_, x)| matches!(x, PEv::Up(_))).count() as u64);
    stat("tcp_connections_rejected", e.pev.iter().filter(|(_, x)| matches!(x, PEv::Rejected)).count() as u64);
    stat("tcp_listener_closed", e.pev.iter().filter(|(_, x)| matches!(x, PEv::ListenClosed)).count() as u64);
    stat("tcp_garbled_batches", e.pev.iter().filter(|(_, x)| matches!(x, PEv::Garbled(_))).count() as u64);
    stat("tcp_octets_m2o", e.octets[0]);
    stat("tcp_octets_o2m", e.octets[1]);
    stat("tcp_fragments_m2o", e.wire.iter().filter(|w| w.2 && w.3.starts_with("tx ")).count() as u64);
    stat("tcp_fragments_o2m", e.wire.iter().filter(|w| !w.2 && w.3.starts_with("tx ")).count() as u64);
    let startup_runs = view.tasks.iter().filter(|x| x.2 == "startup_integrity" && x.3 == "success").count() as u64;
    stat("tcp_startup_integrity_successes", startup_runs);

    // ---- server_replaces_session
    for (id, v, detail) in &e.held {
        stat(&format!("tcp_halfopen_o_{}", v.to_lowercase()), 1);
        if *v == "FAIL" {
            fail("server_replaces_session", detail.clone());
        }
        // ... and the replacing connection is served: a request forwarded on it is answered on it (judged when that
        // connection lived to the end of a case that has a quiescent tail)
        if let Some(k) = e.pev.iter().find_map(|(_, x)| match x { PEv::Up(k) if *k > *id => Some(*k), _ => None }) {
            let asked = e.wire.iter().find(|w| w.1 == k && w.2 && w.3.starts_with("tx "));
            let served = e.wire.iter().any(|w| w.1 == k && !w.2 && w.3.starts_with("tx "));
            let ended = e.pev.iter().any(|(_, x)| matches!(x, PEv::Down(j, _) if *j == k));
            if let Some(a) = asked {
                if served {
                    stat("tcp_halfopen_o_successor_served", 1);
                } else if !ended && e.tail_auto.is_some() && e.t_end.saturating_sub(a.0) > slack {
                    fail("server_replaces_session", format!("connection {k} replaced the half-open connection {id}; the request forwarded on it at {} us ({}) has not been answered on it {} ms later", a.0, a.3, (e.t_end - a.0) / 1000));
                }
            }
        }
    }

    // ---- the quiescent tail
    if let Some(auto) = e.tail_auto {
        stat(if auto { "c02_tail_auto" } else { "c02_tail_explicit" }, 1);
        // the eventual obligations are judged at the moment the tail found them met (what is re-delivered afterwards,
        // e.g. an older event of an unsolicited series still in progress, does not undo it); at the end otherwise
        let (view, pev_all) = (view, &e.pev);
        let (view, pev): (MView, &[(u64, PEv)]) = match e.satisfied_at {
            Some((nm, np)) => {
                let mut v = MView::default();
                v.process(&e.mlog[..nm.min(e.mlog.len())]);
                drop(view);
                (v, &pev_all[..np.min(pev_all.len())])
            }
            None => (view, &pev_all[..]),
        };
        stat(if e.satisfied_at.is_some() { "tcp_tail_satisfied" } else { "tcp_tail_budget_used_up" }, 1);
        match connection_obligations(&view, pev, &mech) {
            Ok(()) => stat("tcp_tail_connection_ok", 1),
            Err(why) => {
                let t_clear = e.t_clear.unwrap_or(0);
                if why.starts_with("start-up") {
                    fail("reconnects_after_cut", format!("{} ms after the faults were cleared: {why}", (e.t_end - t_clear) / 1000));
                } else {
                    fail("reconnects_after_cut", format!("{} ms after the faults were cleared (listener open, nothing refused, delayed or cut) there is no connection: {why}", (e.t_end - t_clear) / 1000));
                }
            }
        }
        if !e.ledger.pts.is_empty() {
            if !view.assoc_ok {
                stat("c02_no_association", 1);
            } else {
                let j = judge(&view, &e.ledger, &mech, pev, auto);
                for (k, n) in &j.counts {
                    stat(&format!("c02_{}{k}", if auto { "auto_" } else { "" }), *n);
                }
                if !auto {
                    let t_clear = e.t_clear.unwrap_or(0);
                    let fin = view.completes.iter().filter(|(id, (t, _))| **id >= 9000 && **id < 10000 && *t >= t_clear).map(|(_, (_, r))| r.clone()).collect::<Vec<_>>();
                    if !fin.iter().any(|r| r == "ok") {
                        let mut kinds: Vec<String> = fin.clone();
                        kinds.sort();
                        kinds.dedup();
                        fail("converged_after_quiescence", format!("none of the {} integrity reads issued after the faults were cleared completed: {:?}", fin.len(), kinds));
                    }
                }
                if let Some((k, p)) = j.pending_points.first() {
                    // a point owed through its last event (B) is stale for the known reason when that event has the D33 signature
                    let cur = e.ledger.pts.get(k).map(|p| p.hist.last().unwrap().img.clone()).unwrap_or_default();
                    let cause = if p.contains("owed by B:") && d32.lost_events(&(k.0, k.1, cur)) >= 1 { "D33" } else { "" };
                    fail_c("converged_after_quiescence", cause, format!("{p}{}", if j.pending_points.len() > 1 { format!(" (+ {} more points)", j.pending_points.len() - 1) } else { String::new() }));
                } else {
                    stat(if auto { "c02_auto_converged_where_owed" } else { "c02_converged" }, 1);
                }
                if let Some(p) = j.pending_events.first() {
                    // explained only if, for every image short, that many events have the D33 signature
                    let explained = j.pending_event_keys.iter().all(|(key, n, got)| d32.lost_events(key) >= n - got);
                    if explained {
                        stat("c02_events_lost_with_d32_signature", j.pending_event_keys.iter().map(|(_, n, got)| n - got).sum());
                    }
                    fail_c("events_delivered_at_least_once", if explained { "D33" } else { "" }, p.clone());
                } else {
                    stat(if auto { "c02_auto_all_owed_events_delivered" } else { "c02_all_events_delivered" }, 1);
                }
            }
        }
        stat("c02_events_recorded", e.ledger.events.len() as u64);
        stat("c02_overflows", e.ledger.overflows);
        stat("c02_updates", e.ledger.updates);
        let tail_ms = view_tail_ms(&e.mlog);
        stat(&format!("tcp_tail_{}", bucket(tail_ms)), 1);
    }
    stat(&format!("tcp_case_wall_{}", bucket(e.t_end / 1000)), 1);

    // ---- the trace (written for failing cases)
    let mut tl: Vec<(u64, String)> = Vec::new();
    for (t, l) in &e.mlog {
        tl.push((*t, format!("M  {l}")));
    }
    for (t, l) in &e.olog {
        tl.push((*t, format!("O  {l}")));
    }
    for (t, ev) in &e.pev {
        tl.push((*t, format!("P  {ev:?}")));
    }
    for (t, c, m2o, l) in &e.wire {
        tl.push((*t, format!("W  conn {c} {} {l}", if *m2o { "m2o" } else { "o2m" })));
    }
    for (t, l) in &e.ledger.log {
        tl.push((*t, format!("U  {l}")));
    }
    tl.sort_by_key(|x| x.0);
    out.trace.push(format!("cfg {}", e.cfg.join(" ")));
    for o in ops.iter().skip(1) {
        out.trace.push(format!("op  {o}"));
    }
    for (t, l) in tl {
        out.trace.push(format!("{:>10} {l}", t));
    }
    out.trace.push(format!("outstation callbacks (unstamped): {}", e.ocb.join(" ; ")));
    drop(fail);
    drop(fail_c);
    drop(fails_cell);
    out.fails = fails;
}

fn view_tail_ms(mlog: &[(u64, String)]) -> u64 {
    let a = mlog.iter().find(|(_, l)| l == "cleared").map(|x| x.0);
    let b = mlog.iter().rev().find(|(_, l)| l.starts_with("tail ")).map(|x| x.0);
    match (a, b) {
        (Some(a), Some(b)) if b >= a => (b - a) / 1000,
        _ => 0,
    }
}
