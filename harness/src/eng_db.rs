//! engine `db` (C03 / C11 / C13 component level): the real outstation `DatabaseHandle`
//! (event buffer + static database + response writing) through `hooks/db_probe.rs`
//! against the Lean model `Dnp3.Model.Database` (driver `Dnp3/Driver/Db.lean`), for all eight
//! point types of the library's database.
//!
//! ops:  new <evmax> [<max_read_sel>]                    binary and analog inputs `evmax` events each
//!       newc <bin> <dbl> <bos> <ctr> <frz> <an> <aos> <os> <class-zero mask> [<max_read_sel>]
//!       add <type> <idx> <class> [<svar> <evar> [<deadband>]]   type = bin|dbl|bos|ctr|frz|an|aos|os
//!       upd <type> <idx> <value> <flags> <time>         value: integer; octet string: hex octets or `-`
//!       updo <type> <idx> <value> <flags> <time> <opts> the same with `UpdateOptions` number <opts>: 0..2 = Detect /
//!                                                       Force / Suppress, +3 = `update_static` false
//!       select <hex of READ object headers> | write <cap> | unsol <c1c2c3 bits> <cap> | clear | reset | iin
//! out:  add true|false | upd nopoint|noevent|created <id>|overflow <created> <discarded>
//!       sel <iin2> | parse-error | resp <hex> <has_events> <complete> | unsol <hex> <count>
//!       cleared <ids|-> <c1> <c2> <c3> | iin <c1c2c3> <ovf> | panic | ok
//!
//! Monitors (reference bookkeeping below is independent of the library and of the Lean model):
//!   event ledger (C03), the event rule `event_iff_beyond_deadband_of_last_reported` (C03 / C02), static
//!   coverage / snapshot (C11), class bits + overflow flag (C13).
use crate::rng::Rng;
use crate::util::*;
use dnp3::verif_hooks::db_probe::DbProbe;
use std::collections::BTreeMap;
use std::io::Write;

// ------------------------------------------------------------------------------------------
// the point types and the reference encoders (C10-style `carry`): what a variation shows of a
// measurement.  Shared with the outstation engine's database monitors.
// ------------------------------------------------------------------------------------------
#[derive(Clone, Copy, PartialEq, Eq, Debug, Hash, PartialOrd, Ord)]
pub enum Ty {
    Bin,
    Dbl,
    Bos,
    Ctr,
    Frz,
    An,
    Aos,
    Os,
}

impl Ty {
    pub const ALL: [Ty; 8] = [Ty::Bin, Ty::Dbl, Ty::Bos, Ty::Ctr, Ty::Frz, Ty::An, Ty::Aos, Ty::Os];
    pub fn idx(self) -> usize {
        self as usize
    }
    pub fn code(self) -> &'static str {
        ["bin", "dbl", "bos", "ctr", "frz", "an", "aos", "os"][self.idx()]
    }
    pub fn from_code(s: &str) -> Option<Ty> {
        Ty::ALL.iter().copied().find(|t| t.code() == s)
    }
    pub fn static_group(self) -> u8 {
        [1, 3, 10, 20, 21, 30, 40, 110][self.idx()]
    }
    pub fn event_group(self) -> u8 {
        [2, 4, 11, 22, 23, 32, 42, 111][self.idx()]
    }
    pub fn from_static_group(g: u8) -> Option<Ty> {
        Ty::ALL.iter().copied().find(|t| t.static_group() == g)
    }
    pub fn from_event_group(g: u8) -> Option<Ty> {
        Ty::ALL.iter().copied().find(|t| t.event_group() == g)
    }
    /// the static variations a point of this type can be configured with / asked for (octet strings: none)
    pub fn static_vars(self) -> &'static [u8] {
        match self {
            Ty::Bin | Ty::Dbl | Ty::Bos => &[1, 2],
            Ty::Ctr => &[1, 2, 5, 6],
            Ty::Frz => &[1, 2, 5, 6, 9, 10],
            Ty::An => &[1, 2, 3, 4, 5, 6],
            Ty::Aos => &[1, 2, 3, 4],
            Ty::Os => &[],
        }
    }
    pub fn event_vars(self) -> &'static [u8] {
        match self {
            Ty::Bin | Ty::Dbl => &[1, 2, 3],
            Ty::Bos => &[1, 2],
            Ty::Ctr | Ty::Frz => &[1, 2, 5, 6],
            Ty::An | Ty::Aos => &[1, 2, 3, 4, 5, 6, 7, 8],
            Ty::Os => &[],
        }
    }
    /// the configuration a plain `add <type> <idx> <class>` uses (static, event)
    pub fn add_vars(self) -> (u8, u8) {
        match self {
            Ty::Bin => (2, 1),
            Ty::Bos => (1, 2),
            Ty::Os => (0, 0),
            _ => (1, 1),
        }
    }
}

/// a measurement as the harness put it in
#[derive(Clone, Debug, PartialEq)]
pub struct Val {
    pub v: i64,
    pub flags: u8,
    pub time: u64,
    pub octets: Vec<u8>,
}

impl Val {
    /// `T::default()`: RESTART, value 0 (double bit: indeterminate), octet string [0]
    pub fn default_of(ty: Ty) -> Val {
        Val { v: if ty == Ty::Dbl { 3 } else { 0 }, flags: 0x02, time: 0, octets: if ty == Ty::Os { vec![0] } else { vec![] } }
    }
}

/// the value the library stores for an update with this integer
pub fn norm_value(ty: Ty, v: i64) -> i64 {
    match ty {
        Ty::Bin | Ty::Bos => (v != 0) as i64,
        Ty::Dbl => v & 3,
        Ty::Ctr | Ty::Frz => v as u32 as i64,
        Ty::An | Ty::Aos => v,
        Ty::Os => 0,
    }
}

fn sat(v: i64, bits: u32) -> (i64, bool) {
    let lo = -(1i64 << (bits - 1));
    let hi = (1i64 << (bits - 1)) - 1;
    if v < lo {
        (lo, true)
    } else if v > hi {
        (hi, true)
    } else {
        (v, false)
    }
}

fn le48(t: u64) -> Vec<u8> {
    t.to_le_bytes()[..6].to_vec()
}

/// flags octet with the state folded in (binary: bit 7; double bit: bits 7..6)
pub fn wire_flags(ty: Ty, x: &Val) -> u8 {
    match ty {
        Ty::Bin | Ty::Bos => (x.flags & 0x7F) | if x.v != 0 { 0x80 } else { 0 },
        Ty::Dbl => (x.flags & 0x3F) | (((x.v & 3) as u8) << 6),
        _ => x.flags,
    }
}

fn analog_int(v: i64, flags: u8, bits: u32, with_flags: bool) -> Vec<u8> {
    let (s, over) = sat(v, bits);
    let mut out = Vec::new();
    if with_flags {
        out.push(if over { flags | 0x20 } else { flags });
    }
    if bits == 32 {
        out.extend_from_slice(&(s as i32).to_le_bytes());
    } else {
        out.extend_from_slice(&(s as i16).to_le_bytes());
    }
    out
}

fn analog_f32(v: i64, flags: u8) -> Vec<u8> {
    // |v| <= 2^53 here: far inside the f32 range, never over-range
    let mut out = vec![flags];
    out.extend_from_slice(&((v as f64) as f32).to_le_bytes());
    out
}

fn analog_f64(v: i64, flags: u8) -> Vec<u8> {
    let mut out = vec![flags];
    out.extend_from_slice(&(v as f64).to_le_bytes());
    out
}

fn counter_obj(v: i64, flags: Option<u8>, bits: u32) -> Vec<u8> {
    let mut out = Vec::new();
    if let Some(f) = flags {
        out.push(f);
    }
    if bits == 32 {
        out.extend_from_slice(&(v as u32).to_le_bytes());
    } else {
        out.extend_from_slice(&(v as u32 as u16).to_le_bytes());
    }
    out
}

/// flags + value of the analog event variations 1..8 / of g30 / g40 by their representation
fn analog_repr(repr: u8, x: &Val) -> Vec<u8> {
    match repr {
        0 => analog_int(x.v, x.flags, 32, true),
        1 => analog_int(x.v, x.flags, 16, true),
        2 => analog_f32(x.v, x.flags),
        _ => analog_f64(x.v, x.flags),
    }
}

/// octets of one event object (without index prefix); `cto` = time of the preceding g51 header
pub fn ref_event_obj(ty: Ty, var: u8, x: &Val, cto: Option<u64>) -> Option<Vec<u8>> {
    let t = x.time & 0xFFFF_FFFF_FFFF;
    let with_time = |mut b: Vec<u8>| {
        b.extend(le48(t));
        b
    };
    Some(match (ty, var) {
        (Ty::Bin | Ty::Dbl | Ty::Bos, 1) => vec![wire_flags(ty, x)],
        (Ty::Bin | Ty::Dbl | Ty::Bos, 2) => with_time(vec![wire_flags(ty, x)]),
        (Ty::Bin | Ty::Dbl, 3) => {
            let c = cto?;
            if t < c || t - c > 65535 {
                return None;
            }
            [vec![wire_flags(ty, x)], ((t - c) as u16).to_le_bytes().to_vec()].concat()
        }
        (Ty::Ctr | Ty::Frz, 1) => counter_obj(x.v, Some(x.flags), 32),
        (Ty::Ctr | Ty::Frz, 2) => counter_obj(x.v, Some(x.flags), 16),
        (Ty::Ctr | Ty::Frz, 5) => with_time(counter_obj(x.v, Some(x.flags), 32)),
        (Ty::Ctr | Ty::Frz, 6) => with_time(counter_obj(x.v, Some(x.flags), 16)),
        (Ty::An | Ty::Aos, 1) => analog_repr(0, x),
        (Ty::An | Ty::Aos, 2) => analog_repr(1, x),
        (Ty::An | Ty::Aos, 3) => with_time(analog_repr(0, x)),
        (Ty::An | Ty::Aos, 4) => with_time(analog_repr(1, x)),
        (Ty::An | Ty::Aos, 5) => analog_repr(2, x),
        (Ty::An | Ty::Aos, 6) => analog_repr(3, x),
        (Ty::An | Ty::Aos, 7) => with_time(analog_repr(2, x)),
        (Ty::An | Ty::Aos, 8) => with_time(analog_repr(3, x)),
        (Ty::Os, n) if n as usize == x.octets.len() => x.octets.clone(),
        _ => return None,
    })
}

pub fn ev_obj_size(g: u8, v: u8) -> Option<usize> {
    Some(match (g, v) {
        (2 | 4 | 11, 1) => 1,
        (2 | 4 | 11, 2) => 7,
        (2 | 4, 3) => 3,
        (22 | 23, 1) => 5,
        (22 | 23, 2) => 3,
        (22 | 23, 5) => 11,
        (22 | 23, 6) => 9,
        (32 | 42, 1) => 5,
        (32 | 42, 2) => 3,
        (32 | 42, 3) => 11,
        (32 | 42, 4) => 9,
        (32 | 42, 5) => 5,
        (32 | 42, 6) => 9,
        (32 | 42, 7) => 11,
        (32 | 42, 8) => 15,
        (111, n) => n as usize,
        _ => return None,
    })
}

/// bits per value of the packed static variations (0 = not packed)
pub fn pack_width(g: u8, v: u8) -> usize {
    match (g, v) {
        (1, 1) | (10, 1) => 1,
        (3, 1) => 2,
        _ => 0,
    }
}

pub fn st_obj_size(g: u8, v: u8) -> Option<usize> {
    Some(match (g, v) {
        (1 | 3 | 10, 2) => 1,
        (20 | 21, 1) => 5,
        (20 | 21, 2) => 3,
        (20, 5) => 4,
        (20, 6) => 2,
        (21, 5) => 11,
        (21, 6) => 9,
        (21, 9) => 4,
        (21, 10) => 2,
        (30, 1) => 5,
        (30, 2) => 3,
        (30, 3) => 4,
        (30, 4) => 2,
        (30, 5) => 5,
        (30, 6) => 9,
        (34, 1) => 2,
        (34, 2) => 4,
        (34, 3) => 4,
        (40, 1) => 5,
        (40, 2) => 3,
        (40, 3) => 5,
        (40, 4) => 9,
        (110, n) => n as usize,
        _ => return None,
    })
}

/// octets of one static object (packed variations: a single octet holding the bit / the two bits)
pub fn ref_static_obj(g: u8, v: u8, x: &Val) -> Vec<u8> {
    let t = x.time & 0xFFFF_FFFF_FFFF;
    match (g, v) {
        (1, 1) | (10, 1) => vec![(x.v != 0) as u8],
        (3, 1) => vec![(x.v & 3) as u8],
        (1, 2) => vec![wire_flags(Ty::Bin, x)],
        (3, 2) => vec![wire_flags(Ty::Dbl, x)],
        (10, 2) => vec![wire_flags(Ty::Bos, x)],
        (20 | 21, 1) => counter_obj(x.v, Some(x.flags), 32),
        (20 | 21, 2) => counter_obj(x.v, Some(x.flags), 16),
        (20, 5) | (21, 9) => counter_obj(x.v, None, 32),
        (20, 6) | (21, 10) => counter_obj(x.v, None, 16),
        (21, 5) => [counter_obj(x.v, Some(x.flags), 32), le48(t)].concat(),
        (21, 6) => [counter_obj(x.v, Some(x.flags), 16), le48(t)].concat(),
        (30, 1) | (40, 1) => analog_repr(0, x),
        (30, 2) | (40, 2) => analog_repr(1, x),
        (30, 3) => analog_int(x.v, x.flags, 32, false),
        (30, 4) => analog_int(x.v, x.flags, 16, false),
        (30, 5) | (40, 3) => analog_repr(2, x),
        (30, 6) | (40, 4) => analog_repr(3, x),
        // analog dead-bands (`x.v` = the configured dead-band): clamped to u16 / u32, or as f32
        (34, 1) => (x.v.clamp(0, u16::MAX as i64) as u16).to_le_bytes().to_vec(),
        (34, 2) => (x.v.clamp(0, u32::MAX as i64) as u32).to_le_bytes().to_vec(),
        (34, 3) => ((x.v as f64) as f32).to_le_bytes().to_vec(),
        (110, _) => x.octets.clone(),
        _ => vec![],
    }
}

/// does the type's detector have a dead-band (counters, analogs)?
pub fn has_deadband(ty: Ty) -> bool {
    matches!(ty, Ty::Ctr | Ty::Frz | Ty::An | Ty::Aos)
}

/// the event rule (`EventMode::Detect`): an update owes an event iff the flags as reported changed, or the value
/// differs from the value LAST REPORTED as an event by more than the dead-band (binary types: the state is part
/// of the flags; octet strings: the octets differ)
pub fn owes_event(ty: Ty, deadband: u64, last_reported: &Val, new: &Val) -> bool {
    match ty {
        Ty::Bin | Ty::Dbl | Ty::Bos => wire_flags(ty, last_reported) != wire_flags(ty, new),
        Ty::Os => last_reported.octets != new.octets,
        _ => new.flags != last_reported.flags || (new.v as i128 - last_reported.v as i128).unsigned_abs() > deadband as u128,
    }
}

/// the (group, variation) a point is reported with: requested variation (0 = the configured one), the
/// packed variation 1 of g1 / g3 / g10 only for flags that are plain ONLINE, an octet string's length
pub fn static_variation(ty: Ty, requested: u8, configured: u8, x: &Val) -> (u8, u8) {
    let g = ty.static_group();
    if ty == Ty::Os {
        return (g, x.octets.len() as u8);
    }
    let want = if requested == 0 { configured } else { requested };
    let state_mask: u8 = match ty {
        Ty::Bin | Ty::Bos => 0x7F,
        Ty::Dbl => 0x3F,
        _ => 0xFF,
    };
    if matches!(ty, Ty::Bin | Ty::Bos | Ty::Dbl) && want == 1 && (x.flags & state_mask) != 0x01 {
        (g, 2)
    } else {
        (g, want)
    }
}

// ------------------------------------------------------------------------------------------
// reference parser of the object part of a response
// ------------------------------------------------------------------------------------------
#[derive(Debug, Clone, PartialEq)]
pub struct EvObj {
    pub g: u8,
    pub v: u8,
    pub idx: u16,
    pub raw: Vec<u8>,
    pub cto: Option<u64>,
}

#[derive(Debug, Clone, PartialEq)]
pub struct StObj {
    pub g: u8,
    pub v: u8,
    pub idx: u16,
    pub raw: Vec<u8>,
}

pub struct ParsedResp {
    pub events: Vec<EvObj>,
    pub statics: Vec<StObj>,
    /// an event object after a static object
    pub events_after_static: bool,
    /// (g, v, start, stop) of every range header
    pub ranges: Vec<(u8, u8, u16, u16)>,
}

pub fn parse_response(b: &[u8]) -> Result<ParsedResp, String> {
    let mut r = ParsedResp { events: vec![], statics: vec![], events_after_static: false, ranges: vec![] };
    let mut i = 0usize;
    let mut cto: Option<u64> = None;
    let need = |i: usize, n: usize| if i + n <= b.len() { Ok(()) } else { Err(format!("truncated at {i}")) };
    while i < b.len() {
        need(i, 3)?;
        let (g, v, q) = (b[i], b[i + 1], b[i + 2]);
        i += 3;
        match q {
            0x07 => {
                need(i, 7)?;
                if g != 51 || (v != 1 && v != 2) || b[i] != 1 {
                    return Err(format!("unexpected count header g{g}v{v}"));
                }
                let mut t = [0u8; 8];
                t[..6].copy_from_slice(&b[i + 1..i + 7]);
                cto = Some(u64::from_le_bytes(t));
                i += 7;
            }
            0x28 => {
                need(i, 2)?;
                let n = u16::from_le_bytes([b[i], b[i + 1]]) as usize;
                i += 2;
                let sz = ev_obj_size(g, v).ok_or(format!("unexpected event variation g{g}v{v}"))?;
                if n == 0 {
                    return Err("event header with count 0".into());
                }
                for _ in 0..n {
                    need(i, 2 + sz)?;
                    let idx = u16::from_le_bytes([b[i], b[i + 1]]);
                    if !r.statics.is_empty() {
                        r.events_after_static = true;
                    }
                    r.events.push(EvObj { g, v, idx, raw: b[i + 2..i + 2 + sz].to_vec(), cto });
                    i += 2 + sz;
                }
            }
            0x01 => {
                need(i, 4)?;
                let start = u16::from_le_bytes([b[i], b[i + 1]]);
                let stop = u16::from_le_bytes([b[i + 2], b[i + 3]]);
                i += 4;
                if stop < start {
                    return Err(format!("range {start}..{stop}"));
                }
                r.ranges.push((g, v, start, stop));
                let n = stop as usize - start as usize + 1;
                let w = pack_width(g, v);
                if w != 0 {
                    let per = 8 / w;
                    let nb = n.div_ceil(per);
                    need(i, nb)?;
                    for k in 0..n {
                        let val = (b[i + k / per] >> ((k % per) * w)) & ((1u8 << w) - 1);
                        r.statics.push(StObj { g, v, idx: start + k as u16, raw: vec![val] });
                    }
                    // padding bits must be zero
                    if n % per != 0 && (b[i + nb - 1] >> ((n % per) * w)) != 0 {
                        return Err("non-zero padding bits".into());
                    }
                    i += nb;
                } else {
                    let sz = st_obj_size(g, v).ok_or(format!("unexpected static variation g{g}v{v}"))?;
                    need(i, n * sz)?;
                    for k in 0..n {
                        r.statics.push(StObj { g, v, idx: start + k as u16, raw: b[i + k * sz..i + (k + 1) * sz].to_vec() });
                    }
                    i += n * sz;
                }
            }
            _ => return Err(format!("unexpected qualifier {q:#x}")),
        }
    }
    Ok(r)
}

// ------------------------------------------------------------------------------------------
// reference bookkeeping
// ------------------------------------------------------------------------------------------
#[derive(Clone, Copy, PartialEq, Debug)]
enum LState {
    Live,
    Released,
    Discarded,
}

#[derive(Clone, Debug)]
struct LedgerEv {
    id: u64,
    ty: Ty,
    index: u16,
    val: Val,
    class: u8,
    state: LState,
    /// carried by a response since the last reset (library state `Written`)
    carried: bool,
    /// the event variation configured for the point when the event was recorded
    evar: u8,
}

#[derive(Clone, Debug)]
struct RefPoint {
    class: u8,
    val: Val,
    /// the value last reported as an event (the detector's baseline)
    last_reported: Val,
    deadband: u64,
    svar: u8,
    evar: u8,
    /// op number at which the point was added
    #[allow(dead_code)]
    added_at: usize,
}

#[derive(Default)]
struct Reference {
    ev_max: [u64; 8],
    class_zero: u8,
    pts: [BTreeMap<u16, RefPoint>; 8],
    ledger: Vec<LedgerEv>,
    overflow_flag: bool,
    /// an overflow discarded an event that a response had carried and no clear / reset had
    /// followed (the cause predicate of D3)
    d3_happened: bool,
    // static series
    expected: Vec<StObj>,
    got: Vec<StObj>,
    series_open: bool,
    series_unreliable: bool,
    /// an update / add happened since the series was opened
    series_dirty: bool,
    series_start_op: usize,
    /// a point was added inside a selected range while the series was open (cause predicate of D12)
    d12_points: Vec<(Ty, u16)>,
    selected_ranges: Vec<(Ty, u16, u16)>,
    /// a header of an event group (READ by type, any variation) was selected since the last reset: the
    /// variation in which an event is reported may then be the requested one
    typed_event_select: bool,
    /// all three classes were selected without limit (g60v2..4, all objects) since the last reset, when the
    /// ledger had this many entries: a response reported complete has carried every one of them that is alive
    full_class_select: Option<usize>,
}

impl Reference {
    fn live_of_type(&self, ty: Ty) -> usize {
        self.ledger.iter().filter(|e| e.state == LState::Live && e.ty == ty).count()
    }
    fn any_type_full(&self) -> bool {
        Ty::ALL.iter().any(|t| self.ev_max[t.idx()] != 0 && self.live_of_type(*t) as u64 >= self.ev_max[t.idx()])
    }
    fn end_series(&mut self) {
        self.expected.clear();
        self.got.clear();
        self.series_open = false;
        self.series_unreliable = false;
        self.series_dirty = false;
        self.d12_points.clear();
        self.selected_ranges.clear();
    }
    fn reset(&mut self) {
        for e in self.ledger.iter_mut() {
            e.carried = false;
        }
        self.typed_event_select = false;
        self.full_class_select = None;
        self.end_series();
    }
}

struct Mon<'a> {
    w: &'a mut dyn Write,
    hdr: String,
    stats: &'a mut Stats,
}

impl<'a> Mon<'a> {
    fn fail(&mut self, name: &str, cause: Option<&str>, detail: &str) {
        let c = cause.map(|c| format!(" cause={c}")).unwrap_or_default();
        writeln!(self.w, "MONITOR-FAIL {} :: {name}{c} :: {detail}", self.hdr).unwrap();
        self.stats.hit(&format!("monfail_{name}{}", cause.map(|c| format!("_{c}")).unwrap_or_default()));
    }
}

/// headers of a select op, decoded for the static-coverage reference (only what it needs)
pub fn static_headers(bytes: &[u8]) -> Vec<(u8, u8, u8, u16, u16)> {
    let mut res = Vec::new();
    let mut i = 0;
    while i + 3 <= bytes.len() {
        let (g, v, q) = (bytes[i], bytes[i + 1], bytes[i + 2]);
        i += 3;
        let (a, b, n) = match q {
            0x06 => (0, 0, 0),
            0x00 if i + 2 <= bytes.len() => (bytes[i] as u16, bytes[i + 1] as u16, 2),
            0x01 if i + 4 <= bytes.len() => (u16::from_le_bytes([bytes[i], bytes[i + 1]]), u16::from_le_bytes([bytes[i + 2], bytes[i + 3]]), 4),
            0x07 if i + 1 <= bytes.len() => (bytes[i] as u16, 0, 1),
            0x08 if i + 2 <= bytes.len() => (u16::from_le_bytes([bytes[i], bytes[i + 1]]), 0, 2),
            _ => break,
        };
        i += n;
        if q == 0x07 || q == 0x08 {
            // time objects carry data even in a READ
            let sz = match (g, v) {
                (50, 1) | (50, 3) | (51, 1) | (51, 2) => 6,
                (50, 2) => 10,
                (50, 4) => 11,
                (52, 1) | (52, 2) => 2,
                _ => 0,
            };
            i += a as usize * sz;
        }
        res.push((g, v, q, a, b));
    }
    res
}

impl Reference {
    /// expected objects of one accepted static header, from the reference database NOW
    fn expect_header(&mut self, g: u8, v: u8, q: u8, a: u16, b: u16) {
        let all = q == 0x06;
        let ranged = q == 0x00 || q == 0x01;
        if !(all || ranged) {
            return;
        }
        let push_type = |this: &mut Reference, ty: Ty, req: u8, deadband: bool| {
            let map = &this.pts[ty.idx()];
            let (lo, hi) = if all {
                match (map.keys().next(), map.keys().next_back()) {
                    (Some(l), Some(h)) => (*l, *h),
                    _ => return,
                }
            } else {
                (a, b)
            };
            this.selected_ranges.push((ty, lo, hi));
            let items: Vec<(u16, RefPoint)> = map.range(lo..=hi).map(|(k, p)| (*k, p.clone())).collect();
            for (idx, p) in items {
                if deadband {
                    let ev = if req == 0 { 3 } else { req };
                    let db = Val { v: p.deadband as i64, flags: 0, time: 0, octets: vec![] };
                    this.expected.push(StObj { g: 34, v: ev, idx, raw: ref_static_obj(34, ev, &db) });
                } else {
                    let (eg, ev) = static_variation(ty, req, p.svar, &p.val);
                    this.expected.push(StObj { g: eg, v: ev, idx, raw: ref_static_obj(eg, ev, &p.val) });
                }
            }
        };
        if (g, v) == (60, 1) {
            for ty in Ty::ALL {
                if self.class_zero & (1 << ty.idx()) != 0 {
                    push_type(self, ty, 0, false);
                }
            }
        } else if g == 34 {
            push_type(self, Ty::An, v, true);
        } else if let Some(ty) = Ty::from_static_group(g) {
            if ty != Ty::Os || v == 0 {
                push_type(self, ty, v, false);
            }
        }
    }
}

// ------------------------------------------------------------------------------------------
// run
// ------------------------------------------------------------------------------------------
pub fn run(ops: &str, out: &mut dyn Write, mon_w: &mut dyn Write) {
    // panics of the library are caught by the probe; keep stderr quiet
    std::panic::set_hook(Box::new(|_| {}));
    let mut stats = Stats::default();
    for (hdr, lines) in split_cases(ops) {
        writeln!(out, "{hdr}").unwrap();
        let kind = case_attr(&hdr, "kind").unwrap_or("?").to_string();
        stats.hit(&format!("kind_{kind}"));
        stats.note_case(&lines.join("\n"));
        let mut probe = DbProbe::new(0, None);
        let mut rf = Reference { class_zero: 0x7F, ..Default::default() };
        let mut dead = false;
        for (opn, line) in lines.iter().enumerate() {
            let ws: Vec<&str> = line.split_whitespace().collect();
            if ws.is_empty() || ws[0].starts_with('@') {
                continue;
            }
            stats.hit(&format!("op_{}", ws[0]));
            let mut m = Mon { w: mon_w, hdr: hdr.clone(), stats: &mut stats };
            let d3 = if rf.d3_happened { Some("D3") } else { None };
            macro_rules! panicked {
                () => {{
                    writeln!(out, "panic").unwrap();
                    writeln!(out, "ok").unwrap();
                    if !dead {
                        m.fail("no_panic", d3, &format!("op {opn}: {line}"));
                        m.stats.hit("panic");
                    }
                    dead = true;
                    continue;
                }};
            }
            match ws.as_slice() {
                ["new", rest @ ..] => {
                    let ev: u16 = rest[0].parse().unwrap();
                    let sel: Option<u16> = rest.get(1).map(|s| s.parse().unwrap());
                    probe = DbProbe::new(ev, sel);
                    let mut ev_max = [0u64; 8];
                    ev_max[Ty::Bin.idx()] = ev as u64;
                    ev_max[Ty::An.idx()] = ev as u64;
                    rf = Reference { ev_max, class_zero: 0x7F, ..Default::default() };
                    dead = false;
                    m.stats.hit(&format!("evmax_{}", if ev > 5 { "big".to_string() } else { ev.to_string() }));
                    writeln!(out, "ok").unwrap();
                }
                ["newc", rest @ ..] if rest.len() == 9 || rest.len() == 10 => {
                    let n: Vec<u64> = rest.iter().map(|s| s.parse().unwrap()).collect();
                    let mut ev = [0u16; 8];
                    let mut ev_max = [0u64; 8];
                    for i in 0..8 {
                        ev[i] = n[i] as u16;
                        ev_max[i] = n[i];
                    }
                    let cz = n[8] as u8;
                    probe = DbProbe::new_cfg(ev, cz, n.get(9).map(|x| *x as u16));
                    rf = Reference { ev_max, class_zero: cz, ..Default::default() };
                    dead = false;
                    let distinct: std::collections::BTreeSet<u64> = ev_max.iter().copied().collect();
                    m.stats.hit(&format!("evcfg_{}_distinct_maxima", distinct.len()));
                    m.stats.hit(if cz == 0x7F { "class_zero_default" } else { "class_zero_other" });
                    writeln!(out, "ok").unwrap();
                }
                ["add", t, idx, cls, rest @ ..] if rest.is_empty() || rest.len() == 2 || rest.len() == 3 => {
                    let ty = Ty::from_code(t).unwrap();
                    let idx: u16 = idx.parse().unwrap();
                    let cls: u8 = cls.parse().unwrap();
                    let (sv, ev) = if rest.is_empty() { ty.add_vars() } else { (rest[0].parse().unwrap(), rest[1].parse().unwrap()) };
                    let deadband: u32 = rest.get(2).map(|x| x.parse().unwrap()).unwrap_or(0);
                    m.stats.hit(&format!("add_{}", ty.code()));
                    if deadband != 0 {
                        m.stats.hit("add_with_deadband");
                    }
                    match probe.add_typed(ty.idx() as u8, idx, cls, sv, ev, deadband) {
                        None => {
                            writeln!(out, "bad-op").unwrap();
                            continue;
                        }
                        Some(Err(())) => panicked!(),
                        Some(Ok(r)) => {
                            writeln!(out, "add {r}").unwrap();
                            let map = &mut rf.pts[ty.idx()];
                            let fresh = !map.contains_key(&idx);
                            if fresh != r {
                                m.fail("add_result", None, &format!("op {opn}: add returned {r}, point {}", if fresh { "was new" } else { "existed" }));
                            }
                            if fresh {
                                rf.series_dirty = true;
                                let class = if (1..=3).contains(&cls) { cls } else { 0 };
                                map.insert(idx, RefPoint { class, val: Val::default_of(ty), last_reported: Val::default_of(ty), deadband: if has_deadband(ty) { deadband as u64 } else { 0 }, svar: sv, evar: ev, added_at: opn });
                                if rf.series_open && rf.selected_ranges.iter().any(|(a, lo, hi)| *a == ty && *lo <= idx && idx <= *hi) {
                                    rf.d12_points.push((ty, idx));
                                }
                            }
                        }
                    }
                    writeln!(out, "ok").unwrap();
                }
                ["upd", t, idx, value, flags, time] | ["updo", t, idx, value, flags, time, _] => {
                    let ty = Ty::from_code(t).unwrap();
                    let idx: u16 = idx.parse().unwrap();
                    let flags: u8 = flags.parse().unwrap();
                    let time: u64 = time.parse().unwrap();
                    let opts: u8 = ws.get(6).map(|x| x.parse().unwrap()).unwrap_or(0);
                    let (update_static, mode) = (opts % 6 < 3, opts % 3); // mode: 0 Detect, 1 Force, 2 Suppress
                    m.stats.hit(&format!("upd_mode_{}{}", ["detect", "force", "suppress"][mode as usize], if update_static { "" } else { "_nostatic" }));
                    let (value, octets): (i64, Vec<u8>) = if ty == Ty::Os { (0, unhex(value)) } else { (value.parse().unwrap(), vec![]) };
                    let res = match probe.update_typed(ty.idx() as u8, idx, value, &octets, flags, time, opts) {
                        None => {
                            writeln!(out, "bad-op").unwrap();
                            continue;
                        }
                        Some(Err(())) => panicked!(),
                        Some(Ok(s)) => s,
                    };
                    writeln!(out, "upd {res}").unwrap();
                    let val = if ty == Ty::Os {
                        Val { v: 0, flags: 0, time: 0, octets }
                    } else {
                        Val { v: norm_value(ty, value), flags, time, octets: vec![] }
                    };
                    let p: Vec<&str> = res.split_whitespace().collect();
                    m.stats.hit(&format!("upd_{}", p[0]));
                    m.stats.hit(&format!("upd_{}_{}", ty.code(), p[0]));
                    rf.series_dirty = true;
                    // ---- the event rule: Suppress never, Force always, Detect iff the flags changed or the value is
                    // beyond the dead-band of the value LAST REPORTED; that baseline moves only with an event
                    let mut owed: Option<bool> = None;
                    let point = rf.pts[ty.idx()].get_mut(&idx).map(|pt| {
                        let detect = owes_event(ty, pt.deadband, &pt.last_reported, &val);
                        let wants = match mode {
                            0 => detect,
                            1 => true,
                            _ => false,
                        };
                        owed = Some(wants);
                        if mode == 0 && pt.deadband != 0 {
                            let d = (val.v as i128 - pt.last_reported.v as i128).unsigned_abs();
                            let k = if d > pt.deadband as u128 { "beyond" } else if d == pt.deadband as u128 { "at" } else { "within" };
                            m.stats.hit(&format!("deadband_{k}"));
                        }
                        if update_static {
                            pt.val = val.clone();
                        }
                        if wants {
                            pt.last_reported = val.clone();
                        }
                        pt.clone()
                    });
                    if let (Some(wants), Some(pt)) = (owed, &point) {
                        let recordable = pt.class != 0 && rf.ev_max[ty.idx()] != 0;
                        let got_event = p[0] == "created" || p[0] == "overflow";
                        if got_event != (wants && recordable) {
                            m.fail(
                                "event_iff_beyond_deadband_of_last_reported",
                                None,
                                &format!("op {opn}: {res}; {} point {idx} dead-band {} mode {mode}: an event is {}owed (class {}, type maximum {})", ty.code(), pt.deadband, if wants { "" } else { "not " }, pt.class, rf.ev_max[ty.idx()]),
                            );
                        } else {
                            m.stats.hit("event_rule_checked");
                        }
                    }
                    match (p[0], point) {
                        ("nopoint", None) => {}
                        ("nopoint", Some(_)) => m.fail("update_result", None, &format!("op {opn}: {res} but the point exists")),
                        (_, None) => m.fail("update_result", None, &format!("op {opn}: {res} but the point does not exist")),
                        ("noevent", Some(_)) => {}
                        (k, Some(pt)) => {
                            // created <id> | overflow <created> <discarded>
                            let id: u64 = p[1].parse().unwrap();
                            let evmax = rf.ev_max[ty.idx()];
                            if pt.class == 0 || evmax == 0 {
                                m.fail("event_only_for_class_points", None, &format!("op {opn}: {res} for class {} evmax {evmax}", pt.class));
                            }
                            if let Some(last) = rf.ledger.last() {
                                if id <= last.id {
                                    m.fail("event_ids_increase", None, &format!("op {opn}: id {id} after {}", last.id));
                                }
                            }
                            let live = rf.live_of_type(ty) as u64;
                            if k == "overflow" {
                                let disc: u64 = p[2].parse().unwrap();
                                // the oldest live event of that type must be the one discarded
                                let oldest = rf.ledger.iter().position(|e| e.state == LState::Live && e.ty == ty);
                                match oldest {
                                    Some(pos) if rf.ledger[pos].id == disc && live == evmax => {
                                        if rf.ledger[pos].carried {
                                            rf.d3_happened = true;
                                            m.stats.hit("d3_written_record_discarded");
                                        }
                                        rf.ledger[pos].state = LState::Discarded;
                                    }
                                    _ => {
                                        m.fail("overflow_discards_oldest_of_type", None, &format!("op {opn}: {res}; live of type {} {live}, evmax {evmax}, oldest {:?}", ty.code(), oldest.map(|p| rf.ledger[p].id)));
                                        if let Some(e) = rf.ledger.iter_mut().find(|e| e.id == disc) {
                                            e.state = LState::Discarded;
                                        }
                                    }
                                }
                                rf.overflow_flag = true;
                                m.stats.hit(&format!("overflow_{}", ty.code()));
                            } else if live >= evmax {
                                m.fail("type_capacity_respected", None, &format!("op {opn}: created with {live} live events of type {}, evmax {evmax}", ty.code()));
                            }
                            rf.ledger.push(LedgerEv { id, ty, index: idx, val, class: pt.class, state: LState::Live, carried: false, evar: pt.evar });
                        }
                    }
                    writeln!(out, "ok").unwrap();
                }
                ["select", h] => {
                    let bytes = unhex(h);
                    match probe.select(&bytes) {
                        Err(()) => panicked!(),
                        Ok(None) => {
                            m.stats.hit("select_parse_error");
                            writeln!(out, "parse-error").unwrap();
                        }
                        Ok(Some(iin2)) => {
                            writeln!(out, "sel {iin2}").unwrap();
                            m.stats.hit(&format!("select_iin2_{iin2}"));
                            if !rf.series_open {
                                rf.series_open = true;
                                rf.series_start_op = opn;
                            } else if rf.series_dirty {
                                // a second request on top of an open series after the database changed:
                                // it re-snapshots points the first one selected; "the value when the
                                // request was processed" is no longer one instant
                                rf.series_unreliable = true;
                            }
                            if iin2 & 0x04 != 0 {
                                rf.series_unreliable = true; // selection queue overflow: not everything was selected
                            }
                            let hs = static_headers(&bytes);
                            if iin2 == 0 && rf.full_class_select.is_none() && [2u8, 3, 4].iter().all(|c| hs.iter().any(|h| h.0 == 60 && h.1 == *c && h.2 == 0x06)) {
                                rf.full_class_select = Some(rf.ledger.len());
                            }
                            for (g, v, q, a, b) in hs {
                                if Ty::from_event_group(g).is_some() {
                                    rf.typed_event_select = true;
                                }
                                m.stats.hit(&format!("hdr_g{g}_q{q:02x}"));
                                rf.expect_header(g, v, q, a, b);
                            }
                        }
                    }
                    writeln!(out, "ok").unwrap();
                }
                ["write", cap] | ["unsol", _, cap] => {
                    let cap: usize = cap.parse().unwrap();
                    let is_unsol = ws[0] == "unsol";
                    let (bytes, has_events, complete, count) = if is_unsol {
                        let c: Vec<bool> = ws[1].chars().map(|c| c == '1').collect();
                        // write_unsolicited starts with Database::reset
                        rf.reset();
                        match probe.write_unsolicited(c[0], c[1], c[2], cap) {
                            Err(()) => panicked!(),
                            Ok((b, n)) => {
                                writeln!(out, "unsol {} {n}", hex(&b)).unwrap();
                                (b, n > 0, true, Some(n))
                            }
                        }
                    } else {
                        match probe.write_response(cap) {
                            Err(()) => panicked!(),
                            Ok((b, he, c)) => {
                                writeln!(out, "resp {} {} {}", hex(&b), he as u8, c as u8).unwrap();
                                (b, he, c, None)
                            }
                        }
                    };
                    m.stats.hit(if bytes.is_empty() { "write_empty" } else { "write_nonempty" });
                    if !is_unsol {
                        m.stats.hit(if complete { "write_complete" } else { "write_incomplete" });
                    }
                    if bytes.len() > cap {
                        m.fail("response_within_capacity", None, &format!("op {opn}: {} octets, cap {cap}", bytes.len()));
                    }
                    match parse_response(&bytes) {
                        Err(e) => m.fail("response_well_formed", None, &format!("op {opn}: {e}")),
                        Ok(pr) => {
                            // ---- C03 event ledger: every event object is a recorded, live, not yet carried event
                            // with its recorded index / value / flags / time, in recording order
                            let mut pos = 0usize;
                            let mut matched = 0usize;
                            for eo in &pr.events {
                                let mut found = None;
                                if let Some(ty) = Ty::from_event_group(eo.g) {
                                    for k in pos..rf.ledger.len() {
                                        let e = &rf.ledger[k];
                                        if e.state == LState::Live && !e.carried && e.ty == ty && e.index == eo.idx {
                                            if ref_event_obj(ty, eo.v, &e.val, eo.cto).as_deref() == Some(&eo.raw[..]) {
                                                found = Some(k);
                                                break;
                                            }
                                        }
                                    }
                                }
                                match found {
                                    Some(k) => {
                                        // reported by class (class poll, unsolicited) and by nothing else since the last
                                        // reset: in the event variation configured for its point, i.e. with everything
                                        // that variation carries of what was recorded — not in whatever a READ of an
                                        // earlier, abandoned series had asked for (S73)
                                        if !rf.typed_event_select && eo.g != 111 {
                                            if eo.v != rf.ledger[k].evar {
                                                m.fail("class_report_in_configured_variation", None, &format!("op {opn}: event {} ({} {}) reported by class as g{}v{}, its point is configured for g{}v{}", rf.ledger[k].id, rf.ledger[k].ty.code(), eo.idx, eo.g, eo.v, eo.g, rf.ledger[k].evar));
                                            } else {
                                                m.stats.hit("class_report_variation_checked");
                                            }
                                        }
                                        rf.ledger[k].carried = true;
                                        pos = k + 1;
                                        matched += 1;
                                        m.stats.hit(&format!("event_g{}v{}", eo.g, if eo.g == 111 { 0 } else { eo.v }));
                                    }
                                    None => {
                                        m.fail("event_is_recorded_live_in_order", None, &format!("op {opn}: g{}v{} index {} raw {} matches no live uncarried event after position {pos}", eo.g, eo.v, eo.idx, hex(&eo.raw)));
                                    }
                                }
                            }
                            m.stats.add("event_objects_checked", matched as u64);
                            // ---- C03 / C02: a complete answer to "all three classes" has carried every event that
                            // was recorded and alive when the request was processed
                            if !is_unsol && complete {
                                if let Some(n) = rf.full_class_select.take() {
                                    match rf.ledger[..n].iter().find(|e| e.state == LState::Live && !e.carried) {
                                        Some(e) => m.fail("complete_class_poll_carries_every_event", None, &format!("op {opn}: event {} ({} {}) recorded, alive, of a class asked for, and in no fragment of the complete response", e.id, e.ty.code(), e.index)),
                                        None => m.stats.hit("complete_class_poll_checked"),
                                    }
                                }
                            }
                            if has_events != !pr.events.is_empty() {
                                m.fail("has_events_flag", None, &format!("op {opn}: has_events={has_events}, {} event objects", pr.events.len()));
                            }
                            if let Some(n) = count {
                                if n != pr.events.len() {
                                    m.fail("unsolicited_count", None, &format!("op {opn}: count {n}, {} event objects", pr.events.len()));
                                }
                                if !pr.statics.is_empty() {
                                    m.fail("unsolicited_events_only", None, &format!("op {opn}: {} static objects", pr.statics.len()));
                                }
                            }
                            if pr.events_after_static {
                                m.fail("events_before_static", None, &format!("op {opn}"));
                            }
                            // ---- C11: ascending inside every range header is structural; accumulate the series
                            if !is_unsol {
                                rf.got.extend(pr.statics.iter().cloned());
                                m.stats.add("static_objects_seen", pr.statics.len() as u64);
                                for (g, v, _, _) in &pr.ranges {
                                    m.stats.hit(&format!("static_g{g}v{}", if *g == 110 { 0 } else { *v }));
                                }
                                // an octet string of up to 255 octets needs 7 + 255 octets for itself
                                if !complete && bytes.is_empty() && cap >= 262 {
                                    m.fail("write_makes_progress", None, &format!("op {opn}: empty incomplete response with cap {cap}"));
                                }
                                if complete {
                                    if rf.series_open && !rf.series_unreliable {
                                        if rf.expected != rf.got {
                                            // the first difference
                                            let exp = &rf.expected;
                                            let k = exp.iter().zip(rf.got.iter()).position(|(a, b)| a != b).unwrap_or(exp.len().min(rf.got.len()));
                                            let d12 = rf.got.get(k).map(|o| Ty::from_static_group(if o.g == 34 { 30 } else { o.g }).map_or(false, |t| rf.d12_points.contains(&(t, o.idx)))).unwrap_or(false);
                                            m.fail(
                                                "series_is_exact_snapshot",
                                                if d12 { Some("D12") } else { None },
                                                &format!("ops {}..{opn}: expected {} objects, got {}; first difference at {k}: expected {:?} got {:?}", rf.series_start_op, exp.len(), rf.got.len(), exp.get(k), rf.got.get(k)),
                                            );
                                        } else {
                                            m.stats.hit("series_checked");
                                            m.stats.add("series_objects_checked", rf.expected.len() as u64);
                                        }
                                    }
                                    rf.end_series();
                                }
                            }
                        }
                    }
                    writeln!(out, "ok").unwrap();
                }
                ["clear"] => {
                    match probe.clear_written() {
                        Err(()) => panicked!(),
                        Ok(c) => {
                            let ids = if c.cleared.is_empty() { "-".to_string() } else { c.cleared.iter().map(|x| x.to_string()).collect::<Vec<_>>().join(",") };
                            writeln!(out, "cleared {ids} {} {} {}", c.classes.0, c.classes.1, c.classes.2).unwrap();
                            if c.begin_confirms != 1 || c.end_confirms != 1 || c.cleared_before_end != c.cleared.len() {
                                m.fail("confirm_callbacks_bracketed", None, &format!("op {opn}: begin {} end {} cleared-before-end {}", c.begin_confirms, c.end_confirms, c.cleared_before_end));
                            }
                            // released = exactly the carried live events, oldest first, each once
                            let want: Vec<u64> = rf.ledger.iter().filter(|e| e.state == LState::Live && e.carried).map(|e| e.id).collect();
                            for id in &c.cleared {
                                match rf.ledger.iter().find(|e| e.id == *id) {
                                    None => m.fail("released_was_recorded", None, &format!("op {opn}: id {id} never recorded")),
                                    Some(e) if e.state == LState::Released => m.fail("released_once", None, &format!("op {opn}: id {id} released twice")),
                                    Some(e) if e.state == LState::Discarded => m.fail("released_once", None, &format!("op {opn}: id {id} released after its overflow discard")),
                                    Some(e) if !e.carried => m.fail("released_only_after_carried", None, &format!("op {opn}: id {id} released, never carried since the last reset")),
                                    _ => {}
                                }
                            }
                            if want != c.cleared {
                                m.fail("release_exactly_the_carried_oldest_first", None, &format!("op {opn}: released {:?}, carried live {:?}", c.cleared, want));
                            }
                            for e in rf.ledger.iter_mut() {
                                if c.cleared.contains(&e.id) {
                                    e.state = LState::Released;
                                }
                                e.carried = false;
                            }
                            m.stats.add("released_events", c.cleared.len() as u64);
                            // nothing else left: remaining counts = live ledger
                            let cnt = |cl: u8| rf.ledger.iter().filter(|e| e.state == LState::Live && e.class == cl).count();
                            let live = (cnt(1), cnt(2), cnt(3));
                            let live_types: Vec<usize> = Ty::ALL.iter().map(|t| rf.live_of_type(*t)).collect();
                            if live != c.classes || live_types[..] != c.types[..] {
                                m.fail("kept_until_released_or_discarded", None, &format!("op {opn}: buffer reports classes {:?} types {:?}, ledger has {:?} / {:?}", c.classes, c.types, live, live_types));
                            }
                            // overflow flag: cleared by a clear that leaves every type below capacity
                            if !rf.any_type_full() {
                                rf.overflow_flag = false;
                            } else if rf.overflow_flag {
                                m.stats.hit("clear_leaves_a_type_full");
                            }
                            // the library leaves the static selection alone on clear; the series goes on
                        }
                    }
                    writeln!(out, "ok").unwrap();
                }
                ["reset"] => {
                    match probe.reset() {
                        Err(()) => panicked!(),
                        Ok(()) => rf.reset(),
                    }
                    writeln!(out, "ok").unwrap();
                }
                ["iin"] => {
                    match probe.events_info() {
                        Err(()) => panicked!(),
                        Ok((c1, c2, c3, ovf)) => {
                            writeln!(out, "iin {}{}{} {}", c1 as u8, c2 as u8, c3 as u8, ovf as u8).unwrap();
                            let has = |cl: u8| rf.ledger.iter().any(|e| e.state == LState::Live && !e.carried && e.class == cl);
                            let want = (has(1), has(2), has(3));
                            if want != (c1, c2, c3) {
                                m.fail("class_bits_exact", d3, &format!("op {opn}: bits {}{}{} expected {}{}{}", c1 as u8, c2 as u8, c3 as u8, want.0 as u8, want.1 as u8, want.2 as u8));
                            } else {
                                m.stats.hit("class_bits_checked");
                            }
                            if ovf != rf.overflow_flag {
                                m.fail("overflow_flag_interval", None, &format!("op {opn}: flag {ovf}, expected {}", rf.overflow_flag));
                            }
                        }
                    }
                    writeln!(out, "ok").unwrap();
                }
                _ => writeln!(out, "bad-op").unwrap(),
            }
        }
    }
    let _ = std::panic::take_hook();
    stats.dump(mon_w);
}

// ------------------------------------------------------------------------------------------
// generator
// ------------------------------------------------------------------------------------------
struct Gen<'a> {
    w: &'a mut dyn Write,
    case: u64,
}

impl<'a> Gen<'a> {
    fn hdr(&mut self, kind: &str, extra: &str) {
        writeln!(self.w, "# case {} kind={} {}", self.case, kind, extra).unwrap();
        self.case += 1;
    }
    fn line(&mut self, s: &str) {
        writeln!(self.w, "{s}").unwrap();
    }
}

const BOUNDARY_IDX: [u16; 9] = [0, 1, 7, 8, 255, 256, 257, 65534, 65535];

/// generator-side picture of the case (only to aim the ops; no oracle)
struct GState {
    pts: [Vec<u16>; 8],
    /// the types this case uses
    active: Vec<Ty>,
    time: u64,
    counter: i64,
    dense: bool,
}

impl GState {
    fn some_index(&self, r: &mut Rng, ty: Ty) -> u16 {
        let v = &self.pts[ty.idx()];
        if v.is_empty() || r.chance(1, 12) {
            if r.chance(1, 2) { *r.pick(&BOUNDARY_IDX) } else { r.below(65536) as u16 }
        } else {
            *r.pick(v)
        }
    }
    fn new_index(&self, r: &mut Rng) -> u16 {
        if self.dense {
            r.below(40) as u16
        } else {
            match r.below(4) {
                0 => *r.pick(&BOUNDARY_IDX),
                1 => r.below(600) as u16,
                _ => r.below(65536) as u16,
            }
        }
    }
    fn some_type(&self, r: &mut Rng) -> Ty {
        if self.active.is_empty() || r.chance(1, 15) { *r.pick(&Ty::ALL) } else { *r.pick(&self.active) }
    }
    fn note(&mut self, ty: Ty, idx: u16) {
        let v = &mut self.pts[ty.idx()];
        if !v.contains(&idx) {
            v.push(idx);
        }
    }
}

fn range_hdr(g: u8, v: u8, a: u16, b: u16, r: &mut Rng) -> Vec<u8> {
    if a <= 255 && b <= 255 && r.chance(1, 2) {
        vec![g, v, 0x00, a as u8, b as u8]
    } else {
        let mut h = vec![g, v, 0x01];
        h.extend_from_slice(&a.to_le_bytes());
        h.extend_from_slice(&b.to_le_bytes());
        h
    }
}

fn count_hdr(g: u8, v: u8, n: u16, r: &mut Rng) -> Vec<u8> {
    if n <= 255 && r.chance(1, 2) {
        vec![g, v, 0x07, n as u8]
    } else {
        let mut h = vec![g, v, 0x08];
        h.extend_from_slice(&n.to_le_bytes());
        h
    }
}

fn pick_range(gs: &GState, r: &mut Rng, ty: Ty) -> (u16, u16) {
    let a = gs.some_index(r, ty);
    let b = match r.below(5) {
        0 => a,
        1 => a.saturating_add(r.below(10) as u16),
        2 => gs.some_index(r, ty),
        3 => a.saturating_add(r.below(400) as u16),
        _ => 65535,
    };
    (a.min(b), a.max(b))
}

fn limit(r: &mut Rng) -> u16 {
    match r.below(6) {
        0 => 0,
        1 => 1,
        2 => 2,
        3 => r.below(8) as u16,
        4 => 255,
        _ => *r.pick(&[256u16, 1000, 65535]),
    }
}

/// a requested variation of a static / event group: 0 or one the group has (`wide`), else 0 / the usual one
fn req_var(r: &mut Rng, vars: &[u8], wide: bool) -> u8 {
    if vars.is_empty() || r.chance(1, 3) {
        0
    } else if wide {
        *r.pick(vars)
    } else {
        vars[0]
    }
}

/// one READ object header
fn gen_header(gs: &GState, r: &mut Rng, wide: bool) -> Vec<u8> {
    let k = r.below(100);
    if k < 22 {
        // class polls
        let v = r.range(1, 4) as u8;
        if v == 1 || r.chance(2, 3) { vec![60, v, 0x06] } else { count_hdr(60, v, limit(r), r) }
    } else if k < 52 {
        // static data of one type: all objects or a range, default or specific variation
        let ty = gs.some_type(r);
        let v = req_var(r, ty.static_vars(), wide);
        let g = ty.static_group();
        if r.chance(1, 3) { vec![g, v, 0x06] } else { let (a, b) = pick_range(gs, r, ty); range_hdr(g, v, a, b, r) }
    } else if k < 76 {
        // events of one type: all or count-limited
        let ty = gs.some_type(r);
        let v = req_var(r, ty.event_vars(), wide);
        let g = ty.event_group();
        if r.chance(1, 2) { vec![g, v, 0x06] } else { count_hdr(g, v, limit(r), r) }
    } else if k < 80 {
        // analog dead-bands: ranged needs a specific variation
        if r.chance(1, 2) { vec![34, r.below(4) as u8, 0x06] } else { let (a, b) = pick_range(gs, r, Ty::An); range_hdr(34, r.range(1, 3) as u8, a, b, r) }
    } else if k < 86 {
        // frozen analogs: known, not supported, no indication
        let v = r.below(9) as u8;
        match r.below(3) {
            0 => vec![31, v, 0x06],
            1 => { let (a, b) = pick_range(gs, r, Ty::An); range_hdr(31, v, a, b, r) }
            _ => if r.chance(1, 2) { vec![33, v, 0x06] } else { count_hdr(33, v, limit(r), r) },
        }
    } else if k < 93 {
        // any static / event group with any of its variations (types the case does not use included)
        let ty = *r.pick(&Ty::ALL);
        if r.chance(1, 2) {
            let v = req_var(r, ty.static_vars(), true);
            let g = ty.static_group();
            if r.chance(1, 2) { vec![g, v, 0x06] } else { let (a, b) = pick_range(gs, r, ty); range_hdr(g, v, a, b, r) }
        } else {
            let v = req_var(r, ty.event_vars(), true);
            let g = ty.event_group();
            if r.chance(1, 2) { vec![g, v, 0x06] } else { count_hdr(g, v, limit(r), r) }
        }
    } else if k < 97 {
        // parse, but not supported in READ
        match r.below(9) {
            6 => {
                // time objects carry data even in a READ
                let (g, v, sz) = *r.pick(&[(50u8, 1u8, 6usize), (50, 2, 10), (50, 3, 6), (50, 4, 11), (51, 1, 6), (51, 2, 6), (52, 1, 2), (52, 2, 2)]);
                let n = r.below(3) as u16;
                let mut h = count_hdr(g, v, n, r);
                h.extend(r.bytes(n as usize * sz));
                h
            }
            7 => vec![0, *r.pick(&[254u8, 255, 1, 200, 252]), 0x06],
            8 => {
                let (a, b) = if r.chance(2, 3) { let x = r.below(4) as u16; (x, x) } else { pick_range(gs, r, Ty::Bin) };
                range_hdr(0, *r.pick(&[254u8, 255, 255, 1, 200]), a, b, r)
            }
            0 => vec![13, r.range(1, 2) as u8, 0x06],
            1 => count_hdr(13, r.range(1, 2) as u8, limit(r), r),
            2 => vec![43, r.range(1, 8) as u8, 0x06],
            3 => { let (a, b) = pick_range(gs, r, Ty::Bin); range_hdr(80, 1, a, b, r) }
            4 => vec![102, r.below(2) as u8, 0x06],
            _ => count_hdr(111, r.range(1, 255) as u8, limit(r), r),
        }
    } else {
        // rejected by the parser
        match r.below(12) {
            0 => { let (a, b) = pick_range(gs, r, Ty::Bin); range_hdr(2, 1, a, b, r) }
            1 => count_hdr(1, 2, 3, r),
            2 => { let mut h = vec![30, 1, 0x01]; h.extend_from_slice(&9u16.to_le_bytes()); h.extend_from_slice(&3u16.to_le_bytes()); h }
            3 => vec![5, 1, 0x06],
            4 => vec![1, 3, 0x06],
            5 => vec![60, 1, 0x07, 2],
            6 => vec![30, 1, 0x01, 0x00],
            7 => vec![21, *r.pick(&[3u8, 4, 7, 8, 11]), 0x06],
            8 => { let (a, b) = pick_range(gs, r, Ty::Os); range_hdr(110, r.range(1, 255) as u8, a, b, r) }
            9 => vec![110, r.range(1, 255) as u8, 0x06],
            10 => count_hdr(21, 1, 3, r),
            _ => vec![1, 2, 0x02],
        }
    }
}

fn gen_select(gs: &GState, r: &mut Rng, wide: bool) -> String {
    let n = match r.below(20) {
        0 => r.range(60, 70) as usize,
        1..=3 => r.range(3, 6) as usize,
        4..=8 => 2,
        _ => 1,
    };
    let mut bytes = Vec::new();
    for _ in 0..n {
        bytes.extend(gen_header(gs, r, wide));
    }
    format!("select {}", hex(&bytes))
}

fn gen_cap(r: &mut Rng) -> usize {
    match r.below(10) {
        0..=3 => r.range(245, 2044) as usize,
        4..=6 => r.range(0, 40) as usize,
        7 => r.range(40, 245) as usize,
        8 => *r.pick(&[0usize, 7, 8, 12, 13, 15, 16, 17, 22, 245, 2044]),
        _ => r.range(245, 300) as usize,
    }
}

fn gen_upd(gs: &mut GState, r: &mut Rng, ty: Ty) -> String {
    let idx = gs.some_index(r, ty);
    gs.counter += 1;
    gs.time = match r.below(12) {
        0 => gs.time + 65535,
        1 => gs.time + 65536,
        2 => gs.time.saturating_sub(r.below(50)),
        3 => gs.time + r.below(200_000),
        _ => gs.time + r.below(40),
    };
    let flags: u8 = match r.below(8) {
        0 => r.next() as u8,
        1 => 0x81,
        2 => 0x02,
        3 => 0x21,
        4 => *r.pick(&[0x41u8, 0xC1, 0x01]),
        _ => 0x01,
    };
    if ty == Ty::Os {
        let n = match r.below(12) {
            0 => 0usize,
            1 => 255,
            2 => r.range(200, 255) as usize,
            3 => r.range(1, 40) as usize,
            _ => r.range(1, 4) as usize,
        };
        let mut o = r.bytes(n);
        if !o.is_empty() {
            o[0] = gs.counter as u8;
        }
        return format!("upd os {} {} {} {}", idx, hex(&o), flags, gs.time);
    }
    let value: i64 = match ty {
        Ty::An | Ty::Aos => match r.below(14) {
            0 => *r.pick(&[i32::MAX as i64, i32::MAX as i64 + 1, i32::MIN as i64, i32::MIN as i64 - 1, 32767, 32768, -32768, -32769, 0, -1]),
            1 => (1i64 << 40) + gs.counter,
            2 => -(1i64 << 40) - gs.counter,
            3 => (1i64 << 24) + gs.counter,
            4 => -gs.counter,
            5 => gs.counter * 70000,
            _ => gs.counter,
        },
        Ty::Ctr | Ty::Frz => match r.below(10) {
            0 => *r.pick(&[0i64, 65535, 65536, 65537, u32::MAX as i64, u32::MAX as i64 - 1]),
            1 => 65536 * gs.counter + 7,
            2 => (1i64 << 31) + gs.counter,
            _ => gs.counter,
        },
        Ty::Dbl => r.below(4) as i64,
        _ => r.below(2) as i64,
    };
    format!("upd {} {} {} {} {}", ty.code(), idx, value, flags, gs.time)
}

/// per-type event capacities: uniform, or each type its own (0 included)
fn gen_evcfg(r: &mut Rng, base: u16) -> [u16; 8] {
    let mut ev = [base; 8];
    match r.below(4) {
        0 => {}
        1 => {
            for e in ev.iter_mut() {
                *e = *r.pick(&[0u16, 1, 2, 3, 5, base]);
            }
        }
        2 => {
            // one type tighter / wider than the others
            ev[r.below(8) as usize] = *r.pick(&[0u16, 1, 2, base.saturating_add(3)]);
        }
        _ => {
            for e in ev.iter_mut() {
                *e = base.saturating_add(r.below(3) as u16);
            }
        }
    }
    ev
}

fn add_line(r: &mut Rng, ty: Ty, idx: u16, cls: u64) -> String {
    if ty != Ty::Os && r.chance(1, 2) {
        let base = format!("add {} {} {} {} {}", ty.code(), idx, cls, *r.pick(ty.static_vars()), *r.pick(ty.event_vars()));
        if has_deadband(ty) && r.chance(1, 3) {
            // a dead-band: small ones are crossed by the counting values of `gen_upd`
            format!("{base} {}", *r.pick(&[1u32, 1, 2, 3, 5, 100, 65535, 1_000_000]))
        } else {
            base
        }
    } else {
        format!("add {} {} {}", ty.code(), idx, cls)
    }
}

/// an update line with `UpdateOptions` other than the default once in a while
fn with_opts(r: &mut Rng, upd: String) -> String {
    if r.chance(1, 8) {
        format!("updo{} {}", &upd[3..], r.below(6))
    } else {
        upd
    }
}

/// `counts`: how many points of each type
fn setup(g: &mut Gen, r: &mut Rng, evmax: u16, counts: &[(Ty, usize)], dense: bool, legacy: bool) -> GState {
    let mut gs = GState { pts: Default::default(), active: counts.iter().filter(|c| c.1 > 0).map(|c| c.0).collect(), time: r.below(1 << 40), counter: 0, dense };
    let sel = if r.chance(1, 25) { format!(" {}", *r.pick(&[1u16, 63, 64, 65, 70])) } else { String::new() };
    if legacy {
        g.line(&format!("new {evmax}{sel}"));
    } else {
        let ev = gen_evcfg(r, evmax);
        let cz: u8 = match r.below(6) {
            0 => 0xFF,
            1 => r.next() as u8,
            _ => 0x7F,
        };
        g.line(&format!("newc {} {cz}{sel}", ev.iter().map(|e| e.to_string()).collect::<Vec<_>>().join(" ")));
    }
    let class_mode = r.below(4);
    for (ty, n) in counts {
        for k in 0..*n {
            let idx = if dense && r.chance(7, 8) { k as u16 } else { gs.new_index(r) };
            let cls = match class_mode {
                0 => 1,
                1 => r.range(1, 3),
                2 => r.below(4),
                _ => *r.pick(&[0u64, 1, 2, 3, 4, 255]),
            };
            g.line(&if legacy { format!("add {} {} {}", ty.code(), idx, cls) } else { add_line(r, *ty, idx, cls) });
            gs.note(*ty, idx);
        }
    }
    gs
}

/// which types a case uses and how many points of each: the two original types only (`legacy`), one to
/// four types, or all eight
fn gen_counts(r: &mut Rng, legacy: bool, small: usize, big: usize) -> Vec<(Ty, usize)> {
    if legacy {
        let (nb, na) = match r.below(4) {
            0 => (r.range(0, 3) as usize, r.range(0, 3) as usize),
            1 => (r.range(1, small as u64) as usize, r.range(1, small as u64) as usize),
            2 => (r.range(0, big as u64) as usize, r.range(0, 6) as usize),
            _ => (r.range(0, 6) as usize, r.range(0, big as u64) as usize),
        };
        return vec![(Ty::Bin, nb), (Ty::An, na)];
    }
    let ntypes = match r.below(6) {
        0 => 8,
        1 => 1,
        2 | 3 => 2,
        _ => r.range(3, 4) as usize,
    };
    let mut tys: Vec<Ty> = Ty::ALL.to_vec();
    // partial shuffle
    for i in 0..ntypes {
        let j = i + r.below((8 - i) as u64) as usize;
        tys.swap(i, j);
    }
    tys.truncate(ntypes);
    tys.sort();
    tys.iter()
        .map(|t| {
            let n = match r.below(4) {
                0 => r.range(0, 3) as usize,
                1 => r.range(1, small as u64) as usize,
                2 => r.range(0, (big / ntypes.max(1)).max(2) as u64) as usize,
                _ => r.range(1, 6) as usize,
            };
            (*t, n)
        })
        .collect()
}

pub fn gen(thorough: bool, seed: u64, w: &mut dyn Write) {
    let mut r = Rng::new(seed);
    let mut g = Gen { w, case: 0 };

    // (0) the D3 shape, always present: a carried (`Written`) record overflow-discarded
    g.hdr("d3", "");
    for l in ["new 1", "add bin 0 1", "add bin 1 2", "upd bin 0 1 1 100", "unsol 100 300", "upd bin 1 1 1 200", "iin", "clear", "iin"] {
        g.line(l);
    }

    // (0b) the D12 shape, always present: a point added inside the selected range between two fragments
    g.hdr("d12", "");
    for l in ["new 0", "add an 0 0", "add an 2 0", "add an 4 0", "upd an 0 10 1 1", "upd an 2 20 1 2", "upd an 4 40 1 3", "select 3c0106", "write 12", "add an 3 0", "upd an 3 99 1 4", "write 300"] {
        g.line(l);
    }

    // (0c) every type once: a point in class 1, an update, read its events and its static value in every
    //      variation it has (all objects and a range), confirm
    for ty in Ty::ALL {
        g.hdr("alltypes", &format!("type={}", ty.code()));
        g.line("newc 3 3 3 3 3 3 3 3 255");
        for idx in [3u16, 4, 5, 9] {
            g.line(&format!("add {} {} 1", ty.code(), idx));
        }
        let mut gs = GState { pts: Default::default(), active: vec![ty], time: 1000, counter: 0, dense: true };
        for idx in [3u16, 4, 5, 9] {
            gs.note(ty, idx);
        }
        for _ in 0..3 {
            let l = gen_upd(&mut gs, &mut r, ty);
            g.line(&l);
        }
        let mut svars = vec![0u8];
        svars.extend_from_slice(ty.static_vars());
        for v in svars {
            g.line(&format!("select {}", hex(&[ty.static_group(), v, 0x06])));
            g.line("write 2044");
            g.line(&format!("select {}", hex(&[ty.static_group(), v, 0x00, 4, 9])));
            g.line("write 2044");
        }
        let mut evars = vec![0u8];
        evars.extend_from_slice(ty.event_vars());
        for v in evars {
            g.line(&format!("select {}", hex(&[ty.event_group(), v, 0x06])));
            g.line("write 2044");
            g.line("reset");
        }
        g.line("select 3c0206");
        g.line("write 2044");
        g.line("clear");
        g.line("iin");
    }

    // (0d) every type's event buffer filled to its capacity, in a random order of types, then the class poll:
    //      the shared event list holds the sum of the per-type capacities, every recorded event that was not
    //      reported overflow-discarded is in the complete answer (S93 / S98)
    let n_full = if thorough { 2000 } else { 60 };
    for _ in 0..n_full {
        let caps: Vec<u64> = (0..8).map(|_| if r.chance(1, 2) { 1 } else { r.range(1, 4) }).collect();
        g.hdr("fullbuf", "");
        g.line(&format!("newc {} 255", caps.iter().map(|c| c.to_string()).collect::<Vec<_>>().join(" ")));
        let mut gs = GState { pts: Default::default(), active: Ty::ALL.to_vec(), time: 1000, counter: 0, dense: true };
        for ty in Ty::ALL {
            for idx in 0..2u16 {
                g.line(&format!("add {} {} {}", ty.code(), idx, r.range(1, 3)));
                gs.note(ty, idx);
            }
        }
        let mut order: Vec<Ty> = Ty::ALL.to_vec();
        for i in (1..order.len()).rev() {
            let j = r.below(i as u64 + 1) as usize;
            order.swap(i, j);
        }
        let over = r.chance(1, 3);
        for ty in order {
            // enough updates to fill the type (a few may be no-events), sometimes one more (a reported overflow)
            let n = caps[ty.idx()] * 2 + if over { 2 } else { 0 };
            for _ in 0..n {
                let l = gen_upd(&mut gs, &mut r, ty);
                g.line(&l);
            }
        }
        g.line("select 3c02063c03063c0406");
        g.line("write 2048");
        g.line("write 2048");
        g.line("write 2048");
        g.line("clear");
        g.line("iin");
    }

    // (1) random op sequences
    let n_rand = if thorough { 60000 } else { 4000 };
    for _ in 0..n_rand {
        let evmax = match r.below(12) {
            0 => 0u16,
            1..=3 => 1,
            4..=6 => 2,
            7..=9 => 5,
            10 => 20,
            _ => 200,
        };
        let dense = r.chance(1, 2);
        let wide = r.chance(1, 2);
        let legacy = r.chance(1, 4);
        g.hdr("rand", &format!("evmax={evmax} wide={} legacy={}", wide as u8, legacy as u8));
        let counts = gen_counts(&mut r, legacy, 12, 40);
        let mut gs = setup(&mut g, &mut r, evmax, &counts, dense, legacy);
        let len = r.range(5, 60);
        for _ in 0..len {
            match r.below(100) {
                0..=29 => {
                    let ty = gs.some_type(&mut r);
                    let l = gen_upd(&mut gs, &mut r, ty);
                    let l = if legacy { l } else { with_opts(&mut r, l) };
                    g.line(&l);
                }
                30..=49 => {
                    let l = gen_select(&gs, &mut r, wide);
                    g.line(&l);
                }
                50..=69 => g.line(&format!("write {}", gen_cap(&mut r))),
                70..=77 => g.line("clear"),
                78..=82 => g.line("reset"),
                83..=89 => g.line(&format!("unsol {}{}{} {}", r.below(2), r.below(2), r.below(2), gen_cap(&mut r))),
                90..=96 => g.line("iin"),
                _ => {
                    let ty = gs.some_type(&mut r);
                    let idx = gs.new_index(&mut r);
                    let cls = r.below(4);
                    g.line(&if legacy { format!("add {} {} {}", ty.code(), idx, cls) } else { add_line(&mut r, ty, idx, cls) });
                    gs.note(ty, idx);
                }
            }
        }
    }

    // (2) READ series: many points, one request, writes until complete with small / medium buffers,
    //     updates and adds between the fragments (snapshot / D12), events ahead of the static data
    let n_series = if thorough { 6000 } else { 500 };
    for _ in 0..n_series {
        let evmax = *r.pick(&[0u16, 2, 5, 50]);
        let wide = r.chance(2, 3);
        let legacy = r.chance(1, 4);
        g.hdr("series", &format!("evmax={evmax} wide={} legacy={}", wide as u8, legacy as u8));
        let dense = r.chance(2, 3);
        let counts = if legacy { vec![(Ty::Bin, r.range(0, 120) as usize), (Ty::An, r.range(0, 80) as usize)] } else { gen_counts(&mut r, false, 40, 160) };
        let mut gs = setup(&mut g, &mut r, evmax, &counts, dense, legacy);
        let n_upd = r.range(0, 30);
        for _ in 0..n_upd {
            let ty = gs.some_type(&mut r);
            let l = gen_upd(&mut gs, &mut r, ty);
            g.line(&l);
        }
        let rounds = r.range(1, 3);
        for _ in 0..rounds {
            if r.chance(1, 2) {
                g.line("reset");
            }
            let l = match r.below(5) {
                0 => format!("select {}", hex(&[60, 2, 6, 60, 3, 6, 60, 4, 6, 60, 1, 6])),
                1 => format!("select {}", hex(&[60, 1, 6])),
                2 if wide => format!("select {}", hex(&[1, 1, 6, 30, *r.pick(&[2u8, 3, 4, 5, 6]), 6])),
                3 if !gs.active.is_empty() => {
                    // one type, ranged, a specific variation
                    let ty = *r.pick(&gs.active);
                    let v = req_var(&mut r, ty.static_vars(), true);
                    let (a, b) = pick_range(&gs, &mut r, ty);
                    format!("select {}", hex(&range_hdr(ty.static_group(), v, a, b, &mut r)))
                }
                _ => gen_select(&gs, &mut r, wide),
            };
            g.line(&l);
            let cap_mode = r.below(3);
            let writes = r.range(1, 25);
            for _ in 0..writes {
                let cap = match cap_mode {
                    0 => r.range(9, 60) as usize,
                    1 => r.range(245, 400) as usize,
                    _ => gen_cap(&mut r),
                };
                g.line(&format!("write {cap}"));
                match r.below(10) {
                    0 | 1 => {
                        let ty = gs.some_type(&mut r);
                        let l = gen_upd(&mut gs, &mut r, ty);
                        let l = if legacy { l } else { with_opts(&mut r, l) };
                        g.line(&l);
                    }
                    2 => {
                        // add inside / near the selected range
                        let ty = gs.some_type(&mut r);
                        let v = &gs.pts[ty.idx()];
                        let idx = if v.is_empty() { gs.new_index(&mut r) } else { r.pick(v).saturating_add(r.range(1, 3) as u16) };
                        let cls = r.below(4);
                        g.line(&if legacy { format!("add {} {} {}", ty.code(), idx, cls) } else { add_line(&mut r, ty, idx, cls) });
                        gs.note(ty, idx);
                    }
                    3 => g.line("clear"),
                    4 => g.line("iin"),
                    _ => {}
                }
            }
        }
    }

    // (3) overflow-directed: tiny buffers (per type), carried events, discards, clears, class bits
    let n_ovf = if thorough { 20000 } else { 1500 };
    for _ in 0..n_ovf {
        let evmax = *r.pick(&[1u16, 1, 2, 2, 5]);
        let legacy = r.chance(1, 4);
        g.hdr("overflow", &format!("evmax={evmax} legacy={}", legacy as u8));
        let counts: Vec<(Ty, usize)> = if legacy {
            vec![(Ty::Bin, r.range(1, 4) as usize), (Ty::An, r.range(0, 3) as usize)]
        } else {
            gen_counts(&mut r, false, 4, 8).into_iter().map(|(t, n)| (t, n.clamp(1, 4))).collect()
        };
        let mut gs = setup(&mut g, &mut r, evmax, &counts, true, legacy);
        let len = r.range(5, 40);
        // a favourite type is updated most of the time, so that it fills while the others do not
        let fav = gs.some_type(&mut r);
        for _ in 0..len {
            match r.below(20) {
                0..=8 => {
                    let ty = if r.chance(1, 2) { fav } else { gs.some_type(&mut r) };
                    let l = gen_upd(&mut gs, &mut r, ty);
                    g.line(&l);
                }
                9 | 10 => g.line(&format!("unsol {}{}{} {}", r.below(2), r.below(2), r.below(2), *r.pick(&[8usize, 16, 30, 300]))),
                11 => g.line(&format!("select {}", hex(&[60, r.range(2, 4) as u8, 6]))),
                12 => {
                    // events of one type only: a confirm then leaves the other types as they are
                    let ty = gs.some_type(&mut r);
                    g.line(&format!("select {}", hex(&[ty.event_group(), 0, 6])));
                }
                13 | 14 => g.line(&format!("write {}", *r.pick(&[8usize, 10, 20, 300]))),
                15 | 16 => g.line("clear"),
                17 => g.line("reset"),
                _ => g.line("iin"),
            }
        }
        g.line("iin");
    }

    // (4) dead-band-directed: points with a non-zero dead-band, values drifting in steps of dead-band - 1,
    //     dead-band, dead-band + 1 away from / back to the value last reported as an event, accumulated drift,
    //     forced / suppressed updates and updates that leave the static value alone in between
    let n_drift = if thorough { 10000 } else { 800 };
    for _ in 0..n_drift {
        let evmax = *r.pick(&[0u16, 1, 3, 50, 50]);
        g.hdr("drift", &format!("evmax={evmax}"));
        g.line(&format!("newc {evmax} {evmax} {evmax} {evmax} {evmax} {evmax} {evmax} {evmax} 255"));
        // (type, index, dead-band, generator's picture of the reported baseline, current value)
        let mut pts: Vec<(Ty, u16, i64, i64, i64)> = Vec::new();
        let np = r.range(1, 3);
        for k in 0..np {
            let ty = *r.pick(&[Ty::An, Ty::An, Ty::Aos, Ty::Ctr, Ty::Frz]);
            let d = *r.pick(&[1i64, 2, 5, 5, 10, 100, 65535]);
            let cls = if r.chance(1, 8) { 0 } else { r.range(1, 3) };
            let (sv, ev) = ty.add_vars();
            g.line(&format!("add {} {} {} {} {} {}", ty.code(), k, cls, sv, ev, d));
            pts.push((ty, k as u16, d, 0, 0));
        }
        let mut time = 1000u64;
        let len = r.range(6, 40);
        for _ in 0..len {
            let i = r.below(pts.len() as u64) as usize;
            let (ty, idx, d, base, cur) = pts[i];
            let counter = matches!(ty, Ty::Ctr | Ty::Frz);
            match r.below(20) {
                0..=13 => {
                    let step = match r.below(12) {
                        0 => d - 1,
                        1 => d,
                        2 => d + 1,
                        3 => -(d - 1),
                        4 => -d,
                        5 => -(d + 1),
                        6 => 1,
                        7 => 2 * d,
                        8 => base - cur,                 // back to the reported value
                        9 => base + d - cur,             // exactly at the dead-band from the reported value
                        10 => base + d + 1 - cur,        // just beyond
                        _ => base - d - 1 - cur,
                    };
                    let mut v = cur + step;
                    if counter {
                        v = v.clamp(0, u32::MAX as i64);
                    }
                    time += r.range(1, 50);
                    let flags: u8 = if r.chance(1, 12) { *r.pick(&[0x01u8, 0x21, 0x05]) } else { 0x01 };
                    let opts = if r.chance(1, 7) { r.below(6) } else { 0 };
                    if opts == 0 {
                        g.line(&format!("upd {} {} {} {} {}", ty.code(), idx, v, flags, time));
                    } else {
                        g.line(&format!("updo {} {} {} {} {} {}", ty.code(), idx, v, flags, time, opts));
                    }
                    // the generator's picture (aim only): the baseline follows an event that is owed
                    let mode = opts % 3;
                    let owed = mode == 1 || (mode == 0 && ((v - base).abs() > d || flags != 0x01));
                    pts[i].4 = v;
                    if owed {
                        pts[i].3 = v;
                    }
                }
                14 => g.line(&format!("select {}", hex(&[60, r.range(2, 4) as u8, 6]))),
                15 => g.line(&format!("select {}", hex(&[ty.event_group(), 0, 6, ty.static_group(), 0, 6]))),
                16 => g.line(&format!("write {}", *r.pick(&[20usize, 60, 300, 2044]))),
                17 => g.line("clear"),
                18 => g.line(&format!("unsol 111 {}", *r.pick(&[30usize, 300]))),
                _ => g.line("iin"),
            }
        }
        g.line("select 3c0206");
        g.line("write 2044");
        g.line("iin");
    }
}
