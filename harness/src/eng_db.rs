//! engine `db` (C03 / C11 / C13 component level): the real outstation `DatabaseHandle`
//! (event buffer + static database + response writing) through `hooks/db_probe.rs`
//! against the Lean model `Dnp3.Model.Database` (driver `Dnp3/Driver/Db.lean`).
//!
//! ops:  new <evmax> [<max_read_sel>] | add bin|an <idx> <class> | upd bin|an <idx> <value> <flags> <time>
//!       select <hex of READ object headers> | write <cap> | unsol <c1c2c3 bits> <cap> | clear | reset | iin
//! out:  add true|false | upd nopoint|noevent|created <id>|overflow <created> <discarded>
//!       sel <iin2> | parse-error | resp <hex> <has_events> <complete> | unsol <hex> <count>
//!       cleared <ids|-> <c1> <c2> <c3> | iin <c1c2c3> <ovf> | panic | ok
//!
//! Monitors (reference bookkeeping below is independent of the library and of the Lean model):
//!   event ledger (C03), static coverage / snapshot (C11), class bits + overflow flag (C13).
use crate::rng::Rng;
use crate::util::*;
use dnp3::verif_hooks::db_probe::DbProbe;
use std::collections::BTreeMap;
use std::io::Write;

// ------------------------------------------------------------------------------------------
// reference encoders (C10-style `carry`): what a variation shows of a measurement
// ------------------------------------------------------------------------------------------
fn sat(v: i64, bits: u32) -> (i64, bool) {
    let lo = -(1i64 << (bits - 1));
    let hi = (1i64 << (bits - 1)) - 1;
    if v < lo {
        (lo, true)
    } else if v > hi {
        (hi, true)
    } else {
        (v, false)
    }
}

fn le48(t: u64) -> Vec<u8> {
    t.to_le_bytes()[..6].to_vec()
}

fn bin_wire(value: i64, flags: u8) -> u8 {
    (flags & 0x7F) | if value != 0 { 0x80 } else { 0 }
}

fn analog_int(v: i64, flags: u8, bits: u32, with_flags: bool) -> Vec<u8> {
    let (s, over) = sat(v, bits);
    let mut out = Vec::new();
    if with_flags {
        out.push(if over { flags | 0x20 } else { flags });
    }
    if bits == 32 {
        out.extend_from_slice(&(s as i32).to_le_bytes());
    } else {
        out.extend_from_slice(&(s as i16).to_le_bytes());
    }
    out
}

fn analog_f32(v: i64, flags: u8) -> Vec<u8> {
    // |v| <= 2^53 here: far inside the f32 range, never over-range
    let mut out = vec![flags];
    out.extend_from_slice(&((v as f64) as f32).to_le_bytes());
    out
}

fn analog_f64(v: i64, flags: u8) -> Vec<u8> {
    let mut out = vec![flags];
    out.extend_from_slice(&(v as f64).to_le_bytes());
    out
}

/// octets of one event object (without index prefix); `cto` = time of the preceding g51 header
fn ref_event_obj(analog: bool, var: u8, value: i64, flags: u8, time: u64, cto: Option<u64>) -> Option<Vec<u8>> {
    let t = time & 0xFFFF_FFFF_FFFF;
    Some(match (analog, var) {
        (false, 1) => vec![bin_wire(value, flags)],
        (false, 2) => [vec![bin_wire(value, flags)], le48(t)].concat(),
        (false, 3) => {
            let c = cto?;
            if t < c || t - c > 65535 {
                return None;
            }
            [vec![bin_wire(value, flags)], ((t - c) as u16).to_le_bytes().to_vec()].concat()
        }
        (true, 1) => analog_int(value, flags, 32, true),
        (true, 2) => analog_int(value, flags, 16, true),
        (true, 3) => [analog_int(value, flags, 32, true), le48(t)].concat(),
        (true, 4) => [analog_int(value, flags, 16, true), le48(t)].concat(),
        (true, 5) => analog_f32(value, flags),
        (true, 6) => analog_f64(value, flags),
        (true, 7) => [analog_f32(value, flags), le48(t)].concat(),
        (true, 8) => [analog_f64(value, flags), le48(t)].concat(),
        _ => return None,
    })
}

fn ev_obj_size(g: u8, v: u8) -> Option<usize> {
    Some(match (g, v) {
        (2, 1) => 1,
        (2, 2) => 7,
        (2, 3) => 3,
        (32, 1) => 5,
        (32, 2) => 3,
        (32, 3) => 11,
        (32, 4) => 9,
        (32, 5) => 5,
        (32, 6) => 9,
        (32, 7) => 11,
        (32, 8) => 15,
        _ => return None,
    })
}

fn st_obj_size(g: u8, v: u8) -> Option<usize> {
    Some(match (g, v) {
        (1, 2) => 1,
        (30, 1) => 5,
        (30, 2) => 3,
        (30, 3) => 4,
        (30, 4) => 2,
        (30, 5) => 5,
        (30, 6) => 9,
        (34, 1) => 2,
        (34, 2) => 4,
        (34, 3) => 4,
        _ => return None,
    })
}

/// octets of one static object (g1v1: a single octet 0/1 standing for the bit)
fn ref_static_obj(g: u8, v: u8, value: i64, flags: u8) -> Vec<u8> {
    match (g, v) {
        (1, 1) => vec![(value != 0) as u8],
        (1, 2) => vec![bin_wire(value, flags)],
        (30, 1) => analog_int(value, flags, 32, true),
        (30, 2) => analog_int(value, flags, 16, true),
        (30, 3) => analog_int(value, flags, 32, false),
        (30, 4) => analog_int(value, flags, 16, false),
        (30, 5) => analog_f32(value, flags),
        (30, 6) => analog_f64(value, flags),
        (34, 1) => vec![0; 2],
        (34, 2) | (34, 3) => vec![0; 4],
        _ => vec![],
    }
}

// ------------------------------------------------------------------------------------------
// reference parser of the object part of a response
// ------------------------------------------------------------------------------------------
#[derive(Debug, Clone, PartialEq)]
struct EvObj {
    g: u8,
    v: u8,
    idx: u16,
    raw: Vec<u8>,
    cto: Option<u64>,
}

#[derive(Debug, Clone, PartialEq)]
struct StObj {
    g: u8,
    v: u8,
    idx: u16,
    raw: Vec<u8>,
}

struct ParsedResp {
    events: Vec<EvObj>,
    statics: Vec<StObj>,
    /// an event object after a static object
    events_after_static: bool,
    /// (g, v, start, stop) of every range header
    ranges: Vec<(u8, u8, u16, u16)>,
}

fn parse_response(b: &[u8]) -> Result<ParsedResp, String> {
    let mut r = ParsedResp { events: vec![], statics: vec![], events_after_static: false, ranges: vec![] };
    let mut i = 0usize;
    let mut cto: Option<u64> = None;
    let need = |i: usize, n: usize| if i + n <= b.len() { Ok(()) } else { Err(format!("truncated at {i}")) };
    while i < b.len() {
        need(i, 3)?;
        let (g, v, q) = (b[i], b[i + 1], b[i + 2]);
        i += 3;
        match q {
            0x07 => {
                need(i, 7)?;
                if g != 51 || (v != 1 && v != 2) || b[i] != 1 {
                    return Err(format!("unexpected count header g{g}v{v}"));
                }
                let mut t = [0u8; 8];
                t[..6].copy_from_slice(&b[i + 1..i + 7]);
                cto = Some(u64::from_le_bytes(t));
                i += 7;
            }
            0x28 => {
                need(i, 2)?;
                let n = u16::from_le_bytes([b[i], b[i + 1]]) as usize;
                i += 2;
                let sz = ev_obj_size(g, v).ok_or(format!("unexpected event variation g{g}v{v}"))?;
                if n == 0 {
                    return Err("event header with count 0".into());
                }
                for _ in 0..n {
                    need(i, 2 + sz)?;
                    let idx = u16::from_le_bytes([b[i], b[i + 1]]);
                    if !r.statics.is_empty() {
                        r.events_after_static = true;
                    }
                    r.events.push(EvObj { g, v, idx, raw: b[i + 2..i + 2 + sz].to_vec(), cto });
                    i += 2 + sz;
                }
            }
            0x01 => {
                need(i, 4)?;
                let start = u16::from_le_bytes([b[i], b[i + 1]]);
                let stop = u16::from_le_bytes([b[i + 2], b[i + 3]]);
                i += 4;
                if stop < start {
                    return Err(format!("range {start}..{stop}"));
                }
                r.ranges.push((g, v, start, stop));
                let n = stop as usize - start as usize + 1;
                if (g, v) == (1, 1) {
                    let nb = n.div_ceil(8);
                    need(i, nb)?;
                    for k in 0..n {
                        let bit = (b[i + k / 8] >> (k % 8)) & 1;
                        r.statics.push(StObj { g, v, idx: start + k as u16, raw: vec![bit] });
                    }
                    // padding bits must be zero
                    if n % 8 != 0 && (b[i + nb - 1] >> (n % 8)) != 0 {
                        return Err("non-zero padding bits".into());
                    }
                    i += nb;
                } else {
                    let sz = st_obj_size(g, v).ok_or(format!("unexpected static variation g{g}v{v}"))?;
                    need(i, n * sz)?;
                    for k in 0..n {
                        r.statics.push(StObj { g, v, idx: start + k as u16, raw: b[i + k * sz..i + (k + 1) * sz].to_vec() });
                    }
                    i += n * sz;
                }
            }
            _ => return Err(format!("unexpected qualifier {q:#x}")),
        }
    }
    Ok(r)
}

// ------------------------------------------------------------------------------------------
// reference bookkeeping
// ------------------------------------------------------------------------------------------
#[derive(Clone, Copy, PartialEq, Debug)]
enum LState {
    Live,
    Released,
    Discarded,
}

#[derive(Clone, Debug)]
struct LedgerEv {
    id: u64,
    analog: bool,
    index: u16,
    value: i64,
    flags: u8,
    time: u64,
    class: u8,
    state: LState,
    /// carried by a response since the last reset (library state `Written`)
    carried: bool,
}

#[derive(Clone, Copy, Debug)]
struct RefPoint {
    class: u8,
    value: i64,
    flags: u8,
    /// op number at which the point was added
    added_at: usize,
}

/// one expected static object of the current series
#[derive(Debug, Clone, PartialEq)]
struct Expected {
    g: u8,
    v: u8,
    idx: u16,
    raw: Vec<u8>,
}

#[derive(Default)]
struct Reference {
    ev_max: u64,
    bins: BTreeMap<u16, RefPoint>,
    ans: BTreeMap<u16, RefPoint>,
    ledger: Vec<LedgerEv>,
    overflow_flag: bool,
    /// an overflow discarded an event that a response had carried and no clear / reset had
    /// followed (the cause predicate of D3)
    d3_happened: bool,
    // static series
    expected: Vec<Expected>,
    got: Vec<StObj>,
    series_open: bool,
    series_unreliable: bool,
    /// an update / add happened since the series was opened
    series_dirty: bool,
    series_start_op: usize,
    /// a point was added inside a selected range while the series was open (cause predicate of D12)
    d12_points: Vec<(bool, u16)>,
    selected_ranges: Vec<(bool, u16, u16)>,
}

impl Reference {
    fn live_of_type(&self, analog: bool) -> usize {
        self.ledger.iter().filter(|e| e.state == LState::Live && e.analog == analog).count()
    }
    fn end_series(&mut self) {
        self.expected.clear();
        self.got.clear();
        self.series_open = false;
        self.series_unreliable = false;
        self.series_dirty = false;
        self.d12_points.clear();
        self.selected_ranges.clear();
    }
    fn reset(&mut self) {
        for e in self.ledger.iter_mut() {
            e.carried = false;
        }
        self.end_series();
    }
}

struct Mon<'a> {
    w: &'a mut dyn Write,
    hdr: String,
    stats: &'a mut Stats,
}

impl<'a> Mon<'a> {
    fn fail(&mut self, name: &str, cause: Option<&str>, detail: &str) {
        let c = cause.map(|c| format!(" cause={c}")).unwrap_or_default();
        writeln!(self.w, "MONITOR-FAIL {} :: {name}{c} :: {detail}", self.hdr).unwrap();
        self.stats.hit(&format!("monfail_{name}{}", cause.map(|c| format!("_{c}")).unwrap_or_default()));
    }
}

/// headers of a select op, decoded for the static-coverage reference (only what it needs)
fn static_headers(bytes: &[u8]) -> Vec<(u8, u8, u8, u16, u16)> {
    let mut res = Vec::new();
    let mut i = 0;
    while i + 3 <= bytes.len() {
        let (g, v, q) = (bytes[i], bytes[i + 1], bytes[i + 2]);
        i += 3;
        let (a, b, n) = match q {
            0x06 => (0, 0, 0),
            0x00 if i + 2 <= bytes.len() => (bytes[i] as u16, bytes[i + 1] as u16, 2),
            0x01 if i + 4 <= bytes.len() => (u16::from_le_bytes([bytes[i], bytes[i + 1]]), u16::from_le_bytes([bytes[i + 2], bytes[i + 3]]), 4),
            0x07 if i + 1 <= bytes.len() => (bytes[i] as u16, 0, 1),
            0x08 if i + 2 <= bytes.len() => (u16::from_le_bytes([bytes[i], bytes[i + 1]]), 0, 2),
            _ => break,
        };
        i += n;
        if q == 0x07 || q == 0x08 {
            // time objects carry data even in a READ
            let sz = match (g, v) {
                (50, 1) | (50, 3) | (51, 1) | (51, 2) => 6,
                (50, 2) => 10,
                (50, 4) => 11,
                (52, 1) | (52, 2) => 2,
                _ => 0,
            };
            i += a as usize * sz;
        }
        res.push((g, v, q, a, b));
    }
    res
}

impl Reference {
    /// expected objects of one accepted static header, from the reference database NOW
    fn expect_header(&mut self, g: u8, v: u8, q: u8, a: u16, b: u16) {
        let all = q == 0x06;
        let push_type = |this: &mut Reference, analog: bool, gg: u8, vv: u8| {
            let map = if analog { &this.ans } else { &this.bins };
            let (lo, hi) = if all {
                match (map.keys().next(), map.keys().next_back()) {
                    (Some(l), Some(h)) => (*l, *h),
                    _ => return,
                }
            } else {
                (a, b)
            };
            this.selected_ranges.push((analog, lo, hi));
            let items: Vec<(u16, RefPoint)> = map.range(lo..=hi).map(|(k, p)| (*k, *p)).collect();
            for (idx, p) in items {
                let (eg, ev) = if gg == 1 {
                    // requested g1v1 is promoted to g1v2 when the flags are not plain ONLINE
                    let want = if vv == 0 { 2 } else { vv };
                    if want == 1 && (p.flags & 0x7F) != 0x01 {
                        (1, 2)
                    } else {
                        (1, want)
                    }
                } else if gg == 30 {
                    (30, if vv == 0 { 1 } else { vv })
                } else {
                    (34, if vv == 0 { 3 } else { vv })
                };
                this.expected.push(Expected { g: eg, v: ev, idx, raw: ref_static_obj(eg, ev, p.value, p.flags) });
            }
        };
        match (g, v) {
            (60, 1) => {
                push_type(self, false, 1, 0);
                push_type(self, true, 30, 0);
            }
            (1, _) => push_type(self, false, 1, v),
            (30, _) => push_type(self, true, 30, v),
            (34, _) => push_type(self, true, 34, v),
            _ => {}
        }
    }
}

// ------------------------------------------------------------------------------------------
// run
// ------------------------------------------------------------------------------------------
pub fn run(ops: &str, out: &mut dyn Write, mon_w: &mut dyn Write) {
    // panics of the library are caught by the probe; keep stderr quiet
    std::panic::set_hook(Box::new(|_| {}));
    let mut stats = Stats::default();
    for (hdr, lines) in split_cases(ops) {
        writeln!(out, "{hdr}").unwrap();
        let kind = case_attr(&hdr, "kind").unwrap_or("?").to_string();
        stats.hit(&format!("kind_{kind}"));
        stats.note_case(&lines.join("\n"));
        let mut probe = DbProbe::new(0, None);
        let mut rf = Reference::default();
        let mut dead = false;
        for (opn, line) in lines.iter().enumerate() {
            let ws: Vec<&str> = line.split_whitespace().collect();
            if ws.is_empty() || ws[0].starts_with('@') {
                continue;
            }
            stats.hit(&format!("op_{}", ws[0]));
            let mut m = Mon { w: mon_w, hdr: hdr.clone(), stats: &mut stats };
            let d3 = if rf.d3_happened { Some("D3") } else { None };
            macro_rules! panicked {
                () => {{
                    writeln!(out, "panic").unwrap();
                    writeln!(out, "ok").unwrap();
                    if !dead {
                        m.fail("no_panic", d3, &format!("op {opn}: {line}"));
                        m.stats.hit("panic");
                    }
                    dead = true;
                    continue;
                }};
            }
            match ws.as_slice() {
                ["new", rest @ ..] => {
                    let ev: u16 = rest[0].parse().unwrap();
                    let sel: Option<u16> = rest.get(1).map(|s| s.parse().unwrap());
                    probe = DbProbe::new(ev, sel);
                    rf = Reference { ev_max: ev as u64, ..Default::default() };
                    dead = false;
                    m.stats.hit(&format!("evmax_{}", if ev > 5 { "big".to_string() } else { ev.to_string() }));
                    writeln!(out, "ok").unwrap();
                }
                ["add", t, idx, cls] => {
                    let analog = *t == "an";
                    let idx: u16 = idx.parse().unwrap();
                    let cls: u8 = cls.parse().unwrap();
                    match probe.add(analog, idx, cls) {
                        Err(()) => panicked!(),
                        Ok(r) => {
                            writeln!(out, "add {r}").unwrap();
                            let map = if analog { &mut rf.ans } else { &mut rf.bins };
                            let fresh = !map.contains_key(&idx);
                            if fresh != r {
                                m.fail("add_result", None, &format!("op {opn}: add returned {r}, point {}", if fresh { "was new" } else { "existed" }));
                            }
                            if fresh {
                                rf.series_dirty = true;
                                let class = if (1..=3).contains(&cls) { cls } else { 0 };
                                map.insert(idx, RefPoint { class, value: 0, flags: 0x02, added_at: opn });
                                if rf.series_open && rf.selected_ranges.iter().any(|(a, lo, hi)| *a == analog && *lo <= idx && idx <= *hi) {
                                    rf.d12_points.push((analog, idx));
                                }
                            }
                        }
                    }
                    writeln!(out, "ok").unwrap();
                }
                ["upd", t, idx, value, flags, time] => {
                    let analog = *t == "an";
                    let idx: u16 = idx.parse().unwrap();
                    let value: i64 = value.parse().unwrap();
                    let flags: u8 = flags.parse().unwrap();
                    let time: u64 = time.parse().unwrap();
                    let res = match probe.update(analog, idx, value, flags, time) {
                        Err(()) => panicked!(),
                        Ok(s) => s,
                    };
                    writeln!(out, "upd {res}").unwrap();
                    let value = if analog { value } else { (value != 0) as i64 };
                    let p: Vec<&str> = res.split_whitespace().collect();
                    m.stats.hit(&format!("upd_{}", p[0]));
                    rf.series_dirty = true;
                    let map = if analog { &mut rf.ans } else { &mut rf.bins };
                    let point = map.get_mut(&idx).map(|pt| {
                        pt.value = value;
                        pt.flags = flags;
                        *pt
                    });
                    match (p[0], point) {
                        ("nopoint", None) => {}
                        ("nopoint", Some(_)) | (_, None) => m.fail("update_result", None, &format!("op {opn}: {res} but point exists={}", point.is_some())),
                        ("noevent", Some(_)) => {}
                        (k, Some(pt)) => {
                            // created <id> | overflow <created> <discarded>
                            let id: u64 = p[1].parse().unwrap();
                            if pt.class == 0 || rf.ev_max == 0 {
                                m.fail("event_only_for_class_points", None, &format!("op {opn}: {res} for class {} evmax {}", pt.class, rf.ev_max));
                            }
                            if let Some(last) = rf.ledger.last() {
                                if id <= last.id {
                                    m.fail("event_ids_increase", None, &format!("op {opn}: id {id} after {}", last.id));
                                }
                            }
                            let live = rf.live_of_type(analog) as u64;
                            if k == "overflow" {
                                let disc: u64 = p[2].parse().unwrap();
                                // the oldest live event of that type must be the one discarded
                                let oldest = rf.ledger.iter().position(|e| e.state == LState::Live && e.analog == analog);
                                match oldest {
                                    Some(pos) if rf.ledger[pos].id == disc && live == rf.ev_max => {
                                        if rf.ledger[pos].carried {
                                            rf.d3_happened = true;
                                            m.stats.hit("d3_written_record_discarded");
                                        }
                                        rf.ledger[pos].state = LState::Discarded;
                                    }
                                    _ => {
                                        m.fail("overflow_discards_oldest_of_type", None, &format!("op {opn}: {res}; live of type {live}, evmax {}, oldest {:?}", rf.ev_max, oldest.map(|p| rf.ledger[p].id)));
                                        if let Some(e) = rf.ledger.iter_mut().find(|e| e.id == disc) {
                                            e.state = LState::Discarded;
                                        }
                                    }
                                }
                                rf.overflow_flag = true;
                            } else if live >= rf.ev_max {
                                m.fail("type_capacity_respected", None, &format!("op {opn}: created with {live} live events of the type, evmax {}", rf.ev_max));
                            }
                            rf.ledger.push(LedgerEv { id, analog, index: idx, value, flags, time, class: pt.class, state: LState::Live, carried: false });
                        }
                    }
                    writeln!(out, "ok").unwrap();
                }
                ["select", h] => {
                    let bytes = unhex(h);
                    match probe.select(&bytes) {
                        Err(()) => panicked!(),
                        Ok(None) => {
                            m.stats.hit("select_parse_error");
                            writeln!(out, "parse-error").unwrap();
                        }
                        Ok(Some(iin2)) => {
                            writeln!(out, "sel {iin2}").unwrap();
                            m.stats.hit(&format!("select_iin2_{iin2}"));
                            if !rf.series_open {
                                rf.series_open = true;
                                rf.series_start_op = opn;
                            } else if rf.series_dirty {
                                // a second request on top of an open series after the database changed:
                                // it re-snapshots points the first one selected; "the value when the
                                // request was processed" is no longer one instant
                                rf.series_unreliable = true;
                            }
                            if iin2 & 0x04 != 0 {
                                rf.series_unreliable = true; // selection queue overflow: not everything was selected
                            }
                            for (g, v, q, a, b) in static_headers(&bytes) {
                                m.stats.hit(&format!("hdr_g{g}_q{q:02x}"));
                                rf.expect_header(g, v, q, a, b);
                            }
                        }
                    }
                    writeln!(out, "ok").unwrap();
                }
                ["write", cap] | ["unsol", _, cap] => {
                    let cap: usize = cap.parse().unwrap();
                    let is_unsol = ws[0] == "unsol";
                    let (bytes, has_events, complete, count) = if is_unsol {
                        let c: Vec<bool> = ws[1].chars().map(|c| c == '1').collect();
                        // write_unsolicited starts with Database::reset
                        rf.reset();
                        match probe.write_unsolicited(c[0], c[1], c[2], cap) {
                            Err(()) => panicked!(),
                            Ok((b, n)) => {
                                writeln!(out, "unsol {} {n}", hex(&b)).unwrap();
                                (b, n > 0, true, Some(n))
                            }
                        }
                    } else {
                        match probe.write_response(cap) {
                            Err(()) => panicked!(),
                            Ok((b, he, c)) => {
                                writeln!(out, "resp {} {} {}", hex(&b), he as u8, c as u8).unwrap();
                                (b, he, c, None)
                            }
                        }
                    };
                    m.stats.hit(if bytes.is_empty() { "write_empty" } else { "write_nonempty" });
                    if !is_unsol {
                        m.stats.hit(if complete { "write_complete" } else { "write_incomplete" });
                    }
                    if bytes.len() > cap {
                        m.fail("response_within_capacity", None, &format!("op {opn}: {} octets, cap {cap}", bytes.len()));
                    }
                    match parse_response(&bytes) {
                        Err(e) => m.fail("response_well_formed", None, &format!("op {opn}: {e}")),
                        Ok(pr) => {
                            // ---- C03 event ledger: every event object is a recorded, live, not yet carried event
                            // with its recorded index / value / flags / time, in recording order
                            let mut pos = 0usize;
                            let mut matched = 0usize;
                            for eo in &pr.events {
                                let analog = eo.g == 32;
                                let mut found = None;
                                for k in pos..rf.ledger.len() {
                                    let e = &rf.ledger[k];
                                    if e.state == LState::Live && !e.carried && e.analog == analog && e.index == eo.idx {
                                        if ref_event_obj(analog, eo.v, e.value, e.flags, e.time, eo.cto).as_deref() == Some(&eo.raw[..]) {
                                            found = Some(k);
                                            break;
                                        }
                                    }
                                }
                                match found {
                                    Some(k) => {
                                        rf.ledger[k].carried = true;
                                        pos = k + 1;
                                        matched += 1;
                                    }
                                    None => {
                                        m.fail("event_is_recorded_live_in_order", None, &format!("op {opn}: g{}v{} index {} raw {} matches no live uncarried event after position {pos}", eo.g, eo.v, eo.idx, hex(&eo.raw)));
                                    }
                                }
                            }
                            m.stats.add("event_objects_checked", matched as u64);
                            if has_events != !pr.events.is_empty() {
                                m.fail("has_events_flag", None, &format!("op {opn}: has_events={has_events}, {} event objects", pr.events.len()));
                            }
                            if let Some(n) = count {
                                if n != pr.events.len() {
                                    m.fail("unsolicited_count", None, &format!("op {opn}: count {n}, {} event objects", pr.events.len()));
                                }
                                if !pr.statics.is_empty() {
                                    m.fail("unsolicited_events_only", None, &format!("op {opn}: {} static objects", pr.statics.len()));
                                }
                            }
                            if pr.events_after_static {
                                m.fail("events_before_static", None, &format!("op {opn}"));
                            }
                            // ---- C11: ascending inside every range header is structural; accumulate the series
                            if !is_unsol {
                                rf.got.extend(pr.statics.iter().cloned());
                                m.stats.add("static_objects_seen", pr.statics.len() as u64);
                                if !complete && bytes.is_empty() && cap >= 32 {
                                    m.fail("write_makes_progress", None, &format!("op {opn}: empty incomplete response with cap {cap}"));
                                }
                                if complete {
                                    if rf.series_open && !rf.series_unreliable {
                                        let exp: Vec<StObj> = rf.expected.iter().map(|e| StObj { g: e.g, v: e.v, idx: e.idx, raw: e.raw.clone() }).collect();
                                        if exp != rf.got {
                                            // the first difference
                                            let k = exp.iter().zip(rf.got.iter()).position(|(a, b)| a != b).unwrap_or(exp.len().min(rf.got.len()));
                                            let d12 = rf.got.get(k).map(|o| rf.d12_points.contains(&(o.g != 1, o.idx))).unwrap_or(false);
                                            m.fail(
                                                "series_is_exact_snapshot",
                                                if d12 { Some("D12") } else { None },
                                                &format!("ops {}..{opn}: expected {} objects, got {}; first difference at {k}: expected {:?} got {:?}", rf.series_start_op, exp.len(), rf.got.len(), exp.get(k), rf.got.get(k)),
                                            );
                                        } else {
                                            m.stats.hit("series_checked");
                                            m.stats.add("series_objects_checked", exp.len() as u64);
                                        }
                                    }
                                    rf.end_series();
                                }
                            }
                        }
                    }
                    writeln!(out, "ok").unwrap();
                }
                ["clear"] => {
                    match probe.clear_written() {
                        Err(()) => panicked!(),
                        Ok(c) => {
                            let ids = if c.cleared.is_empty() { "-".to_string() } else { c.cleared.iter().map(|x| x.to_string()).collect::<Vec<_>>().join(",") };
                            writeln!(out, "cleared {ids} {} {} {}", c.classes.0, c.classes.1, c.classes.2).unwrap();
                            if c.begin_confirms != 1 || c.end_confirms != 1 || c.cleared_before_end != c.cleared.len() {
                                m.fail("confirm_callbacks_bracketed", None, &format!("op {opn}: begin {} end {} cleared-before-end {}", c.begin_confirms, c.end_confirms, c.cleared_before_end));
                            }
                            // released = exactly the carried live events, oldest first, each once
                            let want: Vec<u64> = rf.ledger.iter().filter(|e| e.state == LState::Live && e.carried).map(|e| e.id).collect();
                            for id in &c.cleared {
                                match rf.ledger.iter().find(|e| e.id == *id) {
                                    None => m.fail("released_was_recorded", None, &format!("op {opn}: id {id} never recorded")),
                                    Some(e) if e.state == LState::Released => m.fail("released_once", None, &format!("op {opn}: id {id} released twice")),
                                    Some(e) if e.state == LState::Discarded => m.fail("released_once", None, &format!("op {opn}: id {id} released after its overflow discard")),
                                    Some(e) if !e.carried => m.fail("released_only_after_carried", None, &format!("op {opn}: id {id} released, never carried since the last reset")),
                                    _ => {}
                                }
                            }
                            if want != c.cleared {
                                m.fail("release_exactly_the_carried_oldest_first", None, &format!("op {opn}: released {:?}, carried live {:?}", c.cleared, want));
                            }
                            for e in rf.ledger.iter_mut() {
                                if c.cleared.contains(&e.id) {
                                    e.state = LState::Released;
                                }
                                e.carried = false;
                            }
                            m.stats.add("released_events", c.cleared.len() as u64);
                            // nothing else left: remaining counts = live ledger
                            let cnt = |cl: u8| rf.ledger.iter().filter(|e| e.state == LState::Live && e.class == cl).count();
                            let live = (cnt(1), cnt(2), cnt(3));
                            if live != c.classes || (rf.live_of_type(false), rf.live_of_type(true)) != c.types || c.other_types != 0 {
                                m.fail("kept_until_released_or_discarded", None, &format!("op {opn}: buffer reports classes {:?} types {:?}, ledger has {:?} / ({}, {})", c.classes, c.types, live, rf.live_of_type(false), rf.live_of_type(true)));
                            }
                            // overflow flag: cleared by a clear that leaves every type below capacity
                            if rf.ev_max == 0 || (rf.live_of_type(false) as u64) < rf.ev_max && (rf.live_of_type(true) as u64) < rf.ev_max {
                                rf.overflow_flag = false;
                            }
                            // the library leaves the static selection alone on clear; the series goes on
                        }
                    }
                    writeln!(out, "ok").unwrap();
                }
                ["reset"] => {
                    match probe.reset() {
                        Err(()) => panicked!(),
                        Ok(()) => rf.reset(),
                    }
                    writeln!(out, "ok").unwrap();
                }
                ["iin"] => {
                    match probe.events_info() {
                        Err(()) => panicked!(),
                        Ok((c1, c2, c3, ovf)) => {
                            writeln!(out, "iin {}{}{} {}", c1 as u8, c2 as u8, c3 as u8, ovf as u8).unwrap();
                            let has = |cl: u8| rf.ledger.iter().any(|e| e.state == LState::Live && !e.carried && e.class == cl);
                            let want = (has(1), has(2), has(3));
                            if want != (c1, c2, c3) {
                                m.fail("class_bits_exact", d3, &format!("op {opn}: bits {}{}{} expected {}{}{}", c1 as u8, c2 as u8, c3 as u8, want.0 as u8, want.1 as u8, want.2 as u8));
                            } else {
                                m.stats.hit("class_bits_checked");
                            }
                            if ovf != rf.overflow_flag {
                                m.fail("overflow_flag_interval", None, &format!("op {opn}: flag {ovf}, expected {}", rf.overflow_flag));
                            }
                        }
                    }
                    writeln!(out, "ok").unwrap();
                }
                _ => writeln!(out, "bad-op").unwrap(),
            }
        }
    }
    let _ = std::panic::take_hook();
    stats.dump(mon_w);
}

// ------------------------------------------------------------------------------------------
// generator
// ------------------------------------------------------------------------------------------
struct Gen<'a> {
    w: &'a mut dyn Write,
    case: u64,
}

impl<'a> Gen<'a> {
    fn hdr(&mut self, kind: &str, extra: &str) {
        writeln!(self.w, "# case {} kind={} {}", self.case, kind, extra).unwrap();
        self.case += 1;
    }
    fn line(&mut self, s: &str) {
        writeln!(self.w, "{s}").unwrap();
    }
}

const BOUNDARY_IDX: [u16; 9] = [0, 1, 7, 8, 255, 256, 257, 65534, 65535];

/// generator-side picture of the case (only to aim the ops; no oracle)
struct GState {
    bins: Vec<u16>,
    ans: Vec<u16>,
    time: u64,
    counter: i64,
    dense: bool,
}

impl GState {
    fn some_index(&self, r: &mut Rng, analog: bool) -> u16 {
        let v = if analog { &self.ans } else { &self.bins };
        if v.is_empty() || r.chance(1, 12) {
            if r.chance(1, 2) { *r.pick(&BOUNDARY_IDX) } else { r.below(65536) as u16 }
        } else {
            *r.pick(v)
        }
    }
    fn new_index(&self, r: &mut Rng) -> u16 {
        if self.dense {
            r.below(40) as u16
        } else {
            match r.below(4) {
                0 => *r.pick(&BOUNDARY_IDX),
                1 => r.below(600) as u16,
                _ => r.below(65536) as u16,
            }
        }
    }
}

fn range_hdr(g: u8, v: u8, a: u16, b: u16, r: &mut Rng) -> Vec<u8> {
    if a <= 255 && b <= 255 && r.chance(1, 2) {
        vec![g, v, 0x00, a as u8, b as u8]
    } else {
        let mut h = vec![g, v, 0x01];
        h.extend_from_slice(&a.to_le_bytes());
        h.extend_from_slice(&b.to_le_bytes());
        h
    }
}

fn count_hdr(g: u8, v: u8, n: u16, r: &mut Rng) -> Vec<u8> {
    if n <= 255 && r.chance(1, 2) {
        vec![g, v, 0x07, n as u8]
    } else {
        let mut h = vec![g, v, 0x08];
        h.extend_from_slice(&n.to_le_bytes());
        h
    }
}

fn pick_range(gs: &GState, r: &mut Rng, analog: bool) -> (u16, u16) {
    let a = gs.some_index(r, analog);
    let b = match r.below(5) {
        0 => a,
        1 => a.saturating_add(r.below(10) as u16),
        2 => gs.some_index(r, analog),
        3 => a.saturating_add(r.below(400) as u16),
        _ => 65535,
    };
    (a.min(b), a.max(b))
}

fn limit(r: &mut Rng) -> u16 {
    match r.below(6) {
        0 => 0,
        1 => 1,
        2 => 2,
        3 => r.below(8) as u16,
        4 => 255,
        _ => *r.pick(&[256u16, 1000, 65535]),
    }
}

/// one READ object header
fn gen_header(gs: &GState, r: &mut Rng, wide: bool) -> Vec<u8> {
    let k = r.below(100);
    if k < 22 {
        // class polls
        let v = r.range(1, 4) as u8;
        if v == 1 || r.chance(2, 3) { vec![60, v, 0x06] } else { count_hdr(60, v, limit(r), r) }
    } else if k < 37 {
        let v = if wide { r.below(3) as u8 } else { *r.pick(&[0u8, 2]) };
        if r.chance(1, 3) { vec![1, v, 0x06] } else { let (a, b) = pick_range(gs, r, false); range_hdr(1, v, a, b, r) }
    } else if k < 52 {
        let v = if wide { r.below(7) as u8 } else { *r.pick(&[0u8, 1]) };
        if r.chance(1, 3) { vec![30, v, 0x06] } else { let (a, b) = pick_range(gs, r, true); range_hdr(30, v, a, b, r) }
    } else if k < 64 {
        let v = if wide { r.below(4) as u8 } else { *r.pick(&[0u8, 1]) };
        if r.chance(1, 2) { vec![2, v, 0x06] } else { count_hdr(2, v, limit(r), r) }
    } else if k < 76 {
        let v = if wide { r.below(9) as u8 } else { *r.pick(&[0u8, 1]) };
        if r.chance(1, 2) { vec![32, v, 0x06] } else { count_hdr(32, v, limit(r), r) }
    } else if k < 80 {
        // analog dead-bands: ranged needs a specific variation
        if r.chance(1, 2) { vec![34, r.below(4) as u8, 0x06] } else { let (a, b) = pick_range(gs, r, true); range_hdr(34, r.range(1, 3) as u8, a, b, r) }
    } else if k < 88 {
        // static types with no points
        let (g, vs): (u8, &[u8]) = *r.pick(&[(3u8, &[0u8, 1, 2][..]), (10, &[0, 1, 2]), (20, &[0, 1, 2, 5, 6]), (21, &[0, 1, 2, 5, 6, 9, 10]), (40, &[0, 1, 2, 3, 4]), (110, &[0]), (31, &[0, 1, 2, 3, 4, 5, 6, 7, 8])]);
        let v = *r.pick(vs);
        if r.chance(1, 2) { vec![g, v, 0x06] } else { let an = r.chance(1, 2); let (a, b) = pick_range(gs, r, an); range_hdr(g, v, a, b, r) }
    } else if k < 93 {
        // event types with no points
        let (g, vs): (u8, &[u8]) = *r.pick(&[(4u8, &[0u8, 1, 2, 3][..]), (11, &[0, 1, 2]), (22, &[0, 1, 2, 5, 6]), (23, &[0, 1, 2, 5, 6]), (42, &[0, 1, 2, 3, 4, 5, 6, 7, 8]), (33, &[0, 1, 2, 3, 4, 5, 6, 7, 8]), (111, &[0])]);
        let v = *r.pick(vs);
        if r.chance(1, 2) { vec![g, v, 0x06] } else { count_hdr(g, v, limit(r), r) }
    } else if k < 97 {
        // parse, but not supported in READ
        match r.below(9) {
            6 => {
                // time objects carry data even in a READ
                let (g, v, sz) = *r.pick(&[(50u8, 1u8, 6usize), (50, 2, 10), (50, 3, 6), (50, 4, 11), (51, 1, 6), (51, 2, 6), (52, 1, 2), (52, 2, 2)]);
                let n = r.below(3) as u16;
                let mut h = count_hdr(g, v, n, r);
                h.extend(r.bytes(n as usize * sz));
                h
            }
            7 => vec![0, *r.pick(&[254u8, 255, 1, 200, 252]), 0x06],
            8 => {
                let (a, b) = if r.chance(2, 3) { let x = r.below(4) as u16; (x, x) } else { pick_range(gs, r, false) };
                range_hdr(0, *r.pick(&[254u8, 255, 255, 1, 200]), a, b, r)
            }
            0 => vec![13, r.range(1, 2) as u8, 0x06],
            1 => count_hdr(13, r.range(1, 2) as u8, limit(r), r),
            2 => vec![43, r.range(1, 8) as u8, 0x06],
            3 => { let (a, b) = pick_range(gs, r, false); range_hdr(80, 1, a, b, r) }
            4 => vec![102, r.below(2) as u8, 0x06],
            _ => count_hdr(111, r.range(1, 255) as u8, limit(r), r),
        }
    } else {
        // rejected by the parser
        match r.below(8) {
            0 => { let (a, b) = pick_range(gs, r, false); range_hdr(2, 1, a, b, r) }
            1 => count_hdr(1, 2, 3, r),
            2 => { let mut h = vec![30, 1, 0x01]; h.extend_from_slice(&9u16.to_le_bytes()); h.extend_from_slice(&3u16.to_le_bytes()); h }
            3 => vec![5, 1, 0x06],
            4 => vec![1, 3, 0x06],
            5 => vec![60, 1, 0x07, 2],
            6 => vec![30, 1, 0x01, 0x00],
            _ => vec![1, 2, 0x02],
        }
    }
}

fn gen_select(gs: &GState, r: &mut Rng, wide: bool) -> String {
    let n = match r.below(20) {
        0 => r.range(60, 70) as usize,
        1..=3 => r.range(3, 6) as usize,
        4..=8 => 2,
        _ => 1,
    };
    let mut bytes = Vec::new();
    for _ in 0..n {
        bytes.extend(gen_header(gs, r, wide));
    }
    format!("select {}", hex(&bytes))
}

fn gen_cap(r: &mut Rng) -> usize {
    match r.below(10) {
        0..=3 => r.range(245, 2044) as usize,
        4..=6 => r.range(0, 40) as usize,
        7 => r.range(40, 245) as usize,
        8 => *r.pick(&[0usize, 7, 8, 12, 13, 15, 16, 17, 22, 245, 2044]),
        _ => r.range(245, 300) as usize,
    }
}

fn gen_upd(gs: &mut GState, r: &mut Rng, analog: bool) -> String {
    let idx = gs.some_index(r, analog);
    gs.counter += 1;
    gs.time = match r.below(12) {
        0 => gs.time + 65535,
        1 => gs.time + 65536,
        2 => gs.time.saturating_sub(r.below(50)),
        3 => gs.time + r.below(200_000),
        _ => gs.time + r.below(40),
    };
    let value: i64 = if analog {
        match r.below(14) {
            0 => *r.pick(&[i32::MAX as i64, i32::MAX as i64 + 1, i32::MIN as i64, i32::MIN as i64 - 1, 32767, 32768, -32768, -32769, 0, -1]),
            1 => (1i64 << 40) + gs.counter,
            2 => -(1i64 << 40) - gs.counter,
            3 => (1i64 << 24) + gs.counter,
            4 => -gs.counter,
            5 => gs.counter * 70000,
            _ => gs.counter,
        }
    } else {
        r.below(2) as i64
    };
    let flags: u8 = match r.below(8) {
        0 => r.next() as u8,
        1 => 0x81,
        2 => 0x02,
        3 => 0x21,
        _ => 0x01,
    };
    format!("upd {} {} {} {} {}", if analog { "an" } else { "bin" }, idx, value, flags, gs.time)
}

fn setup(g: &mut Gen, r: &mut Rng, evmax: u16, n_bin: usize, n_an: usize, dense: bool) -> GState {
    let mut gs = GState { bins: vec![], ans: vec![], time: r.below(1 << 40), counter: 0, dense };
    if r.chance(1, 25) {
        g.line(&format!("new {} {}", evmax, *r.pick(&[1u16, 63, 64, 65, 70])));
    } else {
        g.line(&format!("new {evmax}"));
    }
    let class_mode = r.below(4);
    for k in 0..(n_bin + n_an) {
        let analog = k >= n_bin;
        let idx = if dense && r.chance(7, 8) { (if analog { k - n_bin } else { k }) as u16 } else { gs.new_index(r) };
        let cls = match class_mode {
            0 => 1,
            1 => r.range(1, 3),
            2 => r.below(4),
            _ => *r.pick(&[0u64, 1, 2, 3, 4, 255]),
        };
        g.line(&format!("add {} {} {}", if analog { "an" } else { "bin" }, idx, cls));
        let v = if analog { &mut gs.ans } else { &mut gs.bins };
        if !v.contains(&idx) {
            v.push(idx);
        }
    }
    gs
}

pub fn gen(thorough: bool, seed: u64, w: &mut dyn Write) {
    let mut r = Rng::new(seed);
    let mut g = Gen { w, case: 0 };

    // (0) the D3 shape, always present: a carried (`Written`) record overflow-discarded
    g.hdr("d3", "");
    for l in ["new 1", "add bin 0 1", "add bin 1 2", "upd bin 0 1 1 100", "unsol 100 300", "upd bin 1 1 1 200", "iin", "clear", "iin"] {
        g.line(l);
    }

    // (0b) the D12 shape, always present: a point added inside the selected range between two fragments
    g.hdr("d12", "");
    for l in ["new 0", "add an 0 0", "add an 2 0", "add an 4 0", "upd an 0 10 1 1", "upd an 2 20 1 2", "upd an 4 40 1 3", "select 3c0106", "write 12", "add an 3 0", "upd an 3 99 1 4", "write 300"] {
        g.line(l);
    }

    // (1) random op sequences
    let n_rand = if thorough { 60000 } else { 4000 };
    for _ in 0..n_rand {
        let evmax = match r.below(12) {
            0 => 0u16,
            1..=3 => 1,
            4..=6 => 2,
            7..=9 => 5,
            10 => 20,
            _ => 200,
        };
        let dense = r.chance(1, 2);
        let wide = r.chance(1, 2);
        g.hdr("rand", &format!("evmax={evmax} wide={}", wide as u8));
        let (nb, na) = match r.below(4) {
            0 => (r.range(0, 3) as usize, r.range(0, 3) as usize),
            1 => (r.range(1, 12) as usize, r.range(1, 12) as usize),
            2 => (r.range(0, 40) as usize, r.range(0, 6) as usize),
            _ => (r.range(0, 6) as usize, r.range(0, 40) as usize),
        };
        let mut gs = setup(&mut g, &mut r, evmax, nb, na, dense);
        let len = r.range(5, 60);
        for _ in 0..len {
            match r.below(100) {
                0..=29 => {
                    let analog = r.chance(1, 2);
                    let l = gen_upd(&mut gs, &mut r, analog);
                    g.line(&l);
                }
                30..=49 => {
                    let l = gen_select(&gs, &mut r, wide);
                    g.line(&l);
                }
                50..=69 => g.line(&format!("write {}", gen_cap(&mut r))),
                70..=77 => g.line("clear"),
                78..=82 => g.line("reset"),
                83..=89 => g.line(&format!("unsol {}{}{} {}", r.below(2), r.below(2), r.below(2), gen_cap(&mut r))),
                90..=96 => g.line("iin"),
                _ => {
                    let analog = r.chance(1, 2);
                    let idx = gs.new_index(&mut r);
                    g.line(&format!("add {} {} {}", if analog { "an" } else { "bin" }, idx, r.below(4)));
                    let v = if analog { &mut gs.ans } else { &mut gs.bins };
                    if !v.contains(&idx) {
                        v.push(idx);
                    }
                }
            }
        }
    }

    // (2) READ series: many points, one request, writes until complete with small / medium buffers,
    //     updates and adds between the fragments (snapshot / D12), events ahead of the static data
    let n_series = if thorough { 6000 } else { 500 };
    for _ in 0..n_series {
        let evmax = *r.pick(&[0u16, 2, 5, 50]);
        let wide = r.chance(2, 3);
        g.hdr("series", &format!("evmax={evmax} wide={}", wide as u8));
        let dense = r.chance(2, 3);
        let (nb, na) = (r.range(0, 120) as usize, r.range(0, 80) as usize);
        let mut gs = setup(&mut g, &mut r, evmax, nb, na, dense);
        let n_upd = r.range(0, 30);
        for _ in 0..n_upd {
            let analog = r.chance(1, 2);
            let l = gen_upd(&mut gs, &mut r, analog);
            g.line(&l);
        }
        let rounds = r.range(1, 3);
        for _ in 0..rounds {
            if r.chance(1, 2) {
                g.line("reset");
            }
            let l = match r.below(4) {
                0 => format!("select {}", hex(&[60, 2, 6, 60, 3, 6, 60, 4, 6, 60, 1, 6])),
                1 => format!("select {}", hex(&[60, 1, 6])),
                2 if wide => format!("select {}", hex(&[1, 1, 6, 30, *r.pick(&[2u8, 3, 4, 5, 6]), 6])),
                _ => gen_select(&gs, &mut r, wide),
            };
            g.line(&l);
            let cap_mode = r.below(3);
            let writes = r.range(1, 25);
            for _ in 0..writes {
                let cap = match cap_mode {
                    0 => r.range(9, 60) as usize,
                    1 => r.range(245, 400) as usize,
                    _ => gen_cap(&mut r),
                };
                g.line(&format!("write {cap}"));
                match r.below(10) {
                    0 | 1 => {
                        let analog = r.chance(1, 2);
                        let l = gen_upd(&mut gs, &mut r, analog);
                        g.line(&l);
                    }
                    2 => {
                        // add inside / near the selected range
                        let analog = r.chance(1, 2);
                        let v = if analog { &gs.ans } else { &gs.bins };
                        let idx = if v.is_empty() { gs.new_index(&mut r) } else { r.pick(v).saturating_add(r.range(1, 3) as u16) };
                        g.line(&format!("add {} {} {}", if analog { "an" } else { "bin" }, idx, r.below(4)));
                        let v = if analog { &mut gs.ans } else { &mut gs.bins };
                        if !v.contains(&idx) {
                            v.push(idx);
                        }
                    }
                    3 => g.line("clear"),
                    4 => g.line("iin"),
                    _ => {}
                }
            }
        }
    }

    // (3) overflow-directed: tiny buffers, carried events, discards, clears, class bits
    let n_ovf = if thorough { 20000 } else { 1500 };
    for _ in 0..n_ovf {
        let evmax = *r.pick(&[1u16, 1, 2, 2, 5]);
        g.hdr("overflow", &format!("evmax={evmax}"));
        let (nb, na) = (r.range(1, 4) as usize, r.range(0, 3) as usize);
        let mut gs = setup(&mut g, &mut r, evmax, nb, na, true);
        let len = r.range(5, 40);
        for _ in 0..len {
            match r.below(20) {
                0..=8 => {
                    let analog = !gs.ans.is_empty() && r.chance(1, 3);
                    let l = gen_upd(&mut gs, &mut r, analog);
                    g.line(&l);
                }
                9 | 10 => g.line(&format!("unsol {}{}{} {}", r.below(2), r.below(2), r.below(2), *r.pick(&[8usize, 16, 30, 300]))),
                11 | 12 => g.line(&format!("select {}", hex(&[60, r.range(2, 4) as u8, 6]))),
                13 | 14 => g.line(&format!("write {}", *r.pick(&[8usize, 10, 20, 300]))),
                15 | 16 => g.line("clear"),
                17 => g.line("reset"),
                _ => g.line("iin"),
            }
        }
        g.line("iin");
    }
}
