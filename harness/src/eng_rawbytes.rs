//! engine `rawbytes` (property C01): hostile octets against the REAL endpoint task.
//!
//! SEARCH ONLY — this engine has NO Lean-model counterpart: nothing is written to <impl_out>
//! (so `./check` has nothing to diff); the verdict comes from the three trace monitors
//! below, evaluated on the implementation's trace with reference code of this file only.  The
//! claim of C01 is carried by the theorems of `Dnp3.Props.C01` and by the panic-site inventory;
//! this engine is the failing-input search the verdict rules fall back to.
//!
//! role=outstation: the real `OutstationTask` (link layer, transport, parser, session, database)
//! over the in-memory pipe on a paused clock (`Station` of eng_outstation.rs), driven into every
//! session state (idle / solicited confirm wait / mid multi-fragment series / unsolicited confirm
//! wait / SELECT armed) and then fed hostile input; after EVERY hostile input a liveness probe.
//!
//! role=master: MASTER HOOK — see `master_role_cases` / `run_master_case` at the end of this file.
//!
//! ops:  cfg k=v ...                 as engine `outstation` (+ decode=<0..3>, discard=0|1, rx=, sol=, unsol=)
//!       addbin|addan <idx> <class>  add a point          txn <item> ...   database transaction
//!       state <name>                generator annotation: the session state the next input arrives in
//!       rx <src> <dst> <hex>        one application fragment in reference link frames, one write
//!       rxc <n> <src> <dst> <hex>   the same octets written <n> at a time (the task runs in between)
//!       raw <hex>                   arbitrary octets, one write          rawc <n> <hex>  <n> at a time
//!       seg <tb> <src> <dst> <hex>  one link frame with transport octet <tb> (decimal) and payload
//!       cfm sol|uns <delta>         CONFIRM for the last (un)solicited response seen (+delta on the seq)
//!       tick <ms> | cut
//!       probe                       liveness probe: REQUEST_LINK_STATUS must be answered with LINK_STATUS
//!                                   and READ class 0 from the configured master must be answered to the end
//!                                   of its series (each tried up to 3 times, a response timeout apart);
//!                                   if the session ended (Close mode) the harness reconnects first
//! monitors:
//!   no_panic       the task died (`panic` line).  cause=D1 only if the input being processed is an
//!                  OPERATE made of control headers whose echo exceeds the solicited buffer; cause=D3 only
//!                  if an event-buffer overflow happened while a response carrying events was unconfirmed
//!   no_stall       quiesce hit its pass cap (the task never blocks)
//!   keeps_serving  a probe stayed unanswered / a READ series did not end / the session ended
//!                  although the link error mode is Discard / ended with a non-framing reason
use crate::eng_outstation::{Cfg, Station, MASTER, OUTSTATION};
use crate::rng::Rng;
use crate::util::*;
use std::io::Write;
use std::time::Duration;

// ------------------------------------------------------------------------------------------
// reference helpers
// ------------------------------------------------------------------------------------------

/// reference segmentation of a fragment into link frames (249 octets of application data each)
fn frames(src: u16, dst: u16, frag: &[u8], tseq: &mut u8) -> Vec<u8> {
    let chunks: Vec<&[u8]> = if frag.is_empty() { vec![&[][..]] } else { frag.chunks(249).collect() };
    let mut bytes = Vec::new();
    for (i, c) in chunks.iter().enumerate() {
        let mut tb = *tseq & 0x3F;
        *tseq = tseq.wrapping_add(1) & 0x3F;
        if i == 0 {
            tb |= 0x40
        }
        if i + 1 == chunks.len() {
            tb |= 0x80
        }
        let mut p = vec![tb];
        p.extend_from_slice(c);
        bytes.extend(ref_frame(0xC4, dst, src, &p));
    }
    bytes
}

/// length of the echo of a control request, `None` when the objects are not control headers only
/// (g12v1 / g41v1..4 with qualifier 0x17 / 0x28, exact length)
fn control_echo_len(objs: &[u8]) -> Option<usize> {
    let mut i = 0;
    if objs.is_empty() {
        return None;
    }
    while i < objs.len() {
        if i + 3 > objs.len() {
            return None;
        }
        let (g, v, q) = (objs[i], objs[i + 1], objs[i + 2]);
        i += 3;
        let osz = match (g, v) {
            (12, 1) => 11,
            (41, 1) => 5,
            (41, 2) => 3,
            (41, 3) => 5,
            (41, 4) => 9,
            _ => return None,
        };
        let (isz, count) = match q {
            0x17 => {
                if i + 1 > objs.len() {
                    return None;
                }
                let c = objs[i] as usize;
                i += 1;
                (1, c)
            }
            0x28 => {
                if i + 2 > objs.len() {
                    return None;
                }
                let c = u16::from_le_bytes([objs[i], objs[i + 1]]) as usize;
                i += 2;
                (2, c)
            }
            _ => return None,
        };
        let len = count * (isz + osz);
        if i + len > objs.len() {
            return None;
        }
        i += len;
    }
    Some(objs.len())
}

/// D1 cause predicate: OPERATE (function code 4), control headers only, echo larger than sol - 4
fn is_d1(frag: &[u8], sol: usize) -> bool {
    frag.len() > 2 && frag[1] == 4 && control_echo_len(&frag[2..]).map(|n| n + 4 > sol).unwrap_or(false)
}

/// does a response fragment carry event objects (g2 / g32: the event variations the engine configures)?
fn carries_events(b: &[u8]) -> bool {
    b.len() > 6 && (b[4] == 2 || b[4] == 32 || b[4] == 51)
}

/// D2 cause predicate: the fragment is logged at object-value level (decode=3) and carries, under a
/// function code whose range headers have data (not READ), a g110 header with a 16-bit range
/// ending at index 65535: `RangedBytesIterator::next` overflows `index += 1` inside `Display`
fn is_d2(frag: &[u8], decode: u8) -> bool {
    decode >= 3 && frag.len() > 2 && frag[1] != 1 && frag[2..].windows(7).any(|w| w[0] == 110 && w[2] == 0x01 && w[5] == 0xFF && w[6] == 0xFF)
}

fn fail(mon: &mut dyn Write, hdr: &str, name: &str, cause: &str, detail: &str) {
    let c = if cause.is_empty() { String::new() } else { format!(" cause={cause}") };
    writeln!(mon, "MONITOR-FAIL {hdr} :: {name}{c} :: {detail}").unwrap();
}

// ------------------------------------------------------------------------------------------
// run
// ------------------------------------------------------------------------------------------

struct Sess {
    st: Station,
    sol: usize,
    decode: u8,
    discard: bool,
    ctimeout: u64,
    tseq: u8,
    last_sol: u8,
    last_uns: u8,
    probe_seq: u8,
    /// a `session ...` line was seen since the last connect
    ended: Option<String>,
    dead: bool,
    /// an event-carrying response is unconfirmed (events are in state Written)
    written_outstanding: bool,
    /// an event-buffer overflow happened while `written_outstanding`
    overflow_while_written: bool,
    /// actual wait state, from the information callbacks
    in_sol_wait: bool,
    in_unsol_wait: bool,
    last_sol_fin: bool,
}

impl Sess {
    /// bookkeeping on the output lines of one quiesce
    fn absorb(&mut self, outs: &[String]) {
        for o in outs {
            if let Some(rest) = o.strip_prefix("tx ") {
                let b = unhex(rest.split_whitespace().nth(1).unwrap_or("-"));
                if b.len() >= 2 && b[1] == 0x81 {
                    self.last_sol = b[0] & 0x0F;
                    self.last_sol_fin = b[0] & 0x40 != 0;
                } else if b.len() >= 2 && b[1] == 0x82 {
                    self.last_uns = b[0] & 0x0F;
                }
                if b.len() >= 4 && (b[1] == 0x81 || b[1] == 0x82) && carries_events(&b) {
                    self.written_outstanding = true;
                }
            } else if o.starts_with("session ") {
                self.ended = Some(o.clone());
                self.in_sol_wait = false;
                self.in_unsol_wait = false;
            } else if o == "panic" {
                self.dead = true;
            } else if o.starts_with("cb end_confirm") || o.starts_with("cb sol_timeout") || o == "cb sol_new_request" {
                self.written_outstanding = false;
            } else if o.starts_with("upd overflow") && self.written_outstanding {
                self.overflow_while_written = true;
            }
            if o.starts_with("cb sol_wait") {
                self.in_sol_wait = true;
            } else if o.starts_with("cb sol_timeout") || o == "cb sol_new_request" || (o.starts_with("cb sol_confirmed") && self.last_sol_fin) {
                self.in_sol_wait = false;
            } else if o.starts_with("cb unsol_wait") {
                self.in_unsol_wait = true;
            } else if o.starts_with("cb unsol_confirmed") || (o.starts_with("cb unsol_timeout") && o.ends_with(" 0")) {
                self.in_unsol_wait = false;
            }
        }
    }

    async fn write_chunked(&mut self, bytes: &[u8], chunk: usize) -> Vec<String> {
        let mut outs = Vec::new();
        if chunk == 0 || chunk >= bytes.len() {
            self.st.raw(bytes).await;
            outs.extend(self.st.quiesce().await);
        } else {
            for c in bytes.chunks(chunk) {
                self.st.raw(c).await;
                outs.extend(self.st.quiesce().await);
            }
        }
        self.absorb(&outs);
        outs
    }

    async fn reconnect(&mut self) -> Vec<String> {
        let outs = self.st.cut().await;
        self.tseq = 0;
        self.absorb(&outs);
        // `cut` of a live session reports `session link stdio ...`: that is the harness' own doing;
        // the next session is live now
        self.ended = None;
        outs
    }

    async fn tick(&mut self, ms: u64) -> Vec<String> {
        tokio::time::advance(Duration::from_millis(ms)).await;
        let outs = self.st.quiesce().await;
        self.absorb(&outs);
        outs
    }

    /// the liveness probe; returns (trace lines, attempts used for link status, attempts for READ, failure)
    async fn probe(&mut self) -> (Vec<String>, usize, usize, Option<String>) {
        let mut trace = Vec::new();
        if self.dead {
            return (trace, 0, 0, None);
        }
        if self.ended.is_some() {
            let o = self.reconnect().await;
            trace.push("reconnect".to_string());
            trace.extend(o);
        }
        // 1. link status
        let mut link_attempts = 0;
        let mut ok = false;
        for _ in 0..MAX_ATTEMPTS {
            link_attempts += 1;
            let f = ref_frame(0xC9, OUTSTATION, MASTER, &[]);
            let outs = self.write_chunked(&f, 0).await;
            let hit = outs.iter().any(|o| o == &format!("txlink 11 {MASTER} {OUTSTATION}"));
            trace.extend(outs);
            if self.dead {
                return (trace, link_attempts, 0, None);
            }
            if self.ended.is_some() {
                let o = self.reconnect().await;
                trace.push("reconnect".to_string());
                trace.extend(o);
                continue;
            }
            if hit {
                ok = true;
                break;
            }
        }
        if !ok {
            return (trace, link_attempts, 0, Some(format!("REQUEST_LINK_STATUS unanswered after {MAX_ATTEMPTS} attempts")));
        }
        // 2. READ class 0, to the end of its series
        let mut read_attempts = 0;
        let mut answered: Option<Vec<u8>> = None;
        'attempts: for _ in 0..MAX_ATTEMPTS {
            read_attempts += 1;
            self.probe_seq = (self.probe_seq + 1) & 0x0F;
            let seq = self.probe_seq;
            let frag = [0xC0 | seq, 0x01, 0x3C, 0x01, 0x06];
            let bytes = frames(MASTER, OUTSTATION, &frag, &mut self.tseq);
            let mut outs = self.write_chunked(&bytes, 0).await;
            for round in 0..3 {
                trace.extend(outs.iter().cloned());
                if self.dead {
                    return (trace, link_attempts, read_attempts, None);
                }
                if let Some(b) = first_response(&outs, seq) {
                    answered = Some(b);
                    break 'attempts;
                }
                if self.ended.is_some() {
                    let o = self.reconnect().await;
                    trace.push("reconnect".to_string());
                    trace.extend(o);
                    continue 'attempts;
                }
                if round == 2 || read_attempts > 3 {
                    break;
                }
                // a READ received inside an unsolicited confirm wait is deferred until that wait ends
                outs = self.tick(self.ctimeout + 1).await;
                trace.push(format!("(tick {})", self.ctimeout + 1));
            }
        }
        let mut resp = match answered {
            Some(b) => b,
            None => return (trace, link_attempts, read_attempts, Some(format!("READ class 0 unanswered after {MAX_ATTEMPTS} attempts"))),
        };
        // follow the series: confirm every fragment that asks for it until FIN
        let mut frags = 1;
        loop {
            let fin = resp[0] & 0x40 != 0;
            let con = resp[0] & 0x20 != 0;
            let seq = resp[0] & 0x0F;
            if !con {
                if !fin {
                    return (trace, link_attempts, read_attempts, Some("non-final fragment without CON".to_string()));
                }
                break;
            }
            let c = [0xC0 | seq, 0x00];
            let bytes = frames(MASTER, OUTSTATION, &c, &mut self.tseq);
            let outs = self.write_chunked(&bytes, 0).await;
            trace.extend(outs.iter().cloned());
            if self.dead {
                return (trace, link_attempts, read_attempts, None);
            }
            if fin {
                break;
            }
            frags += 1;
            if frags > 80 {
                return (trace, link_attempts, read_attempts, Some("READ class 0 series did not end within 80 fragments".to_string()));
            }
            match next_fragment(&outs, (seq + 1) & 0x0F) {
                Some(b) => resp = b,
                None => return (trace, link_attempts, read_attempts, Some("series stopped after a confirmed non-final fragment".to_string())),
            }
        }
        (trace, link_attempts, read_attempts, None)
    }
}

/// A frame header that announces a long body legitimately makes the link parser wait for up to 282
/// further octets, whatever they are (any DNP3 receiver must): the following well-formed frames are
/// consumed as that body until its CRC fails.  So "keeps serving" is: service resumes within one
/// maximal frame (292 octets) of further well-formed traffic (+ the resynchronisation loss) — 40
/// repetitions of the 10-octet link-status request / of the 17-octet READ frame cover that.
const MAX_ATTEMPTS: usize = 40;

/// first solicited response with FIR and the given sequence number
fn first_response(outs: &[String], seq: u8) -> Option<Vec<u8>> {
    for o in outs {
        if let Some(rest) = o.strip_prefix("tx ") {
            let mut it = rest.split_whitespace();
            let dst: u16 = it.next().unwrap_or("0").parse().unwrap_or(0);
            let b = unhex(it.next().unwrap_or("-"));
            if dst == MASTER && b.len() >= 4 && b[1] == 0x81 && b[0] & 0x80 != 0 && b[0] & 0x0F == seq {
                return Some(b);
            }
        }
    }
    None
}

fn next_fragment(outs: &[String], seq: u8) -> Option<Vec<u8>> {
    for o in outs {
        if let Some(rest) = o.strip_prefix("tx ") {
            let mut it = rest.split_whitespace();
            let dst: u16 = it.next().unwrap_or("0").parse().unwrap_or(0);
            let b = unhex(it.next().unwrap_or("-"));
            if dst == MASTER && b.len() >= 4 && b[1] == 0x81 && b[0] & 0x80 == 0 && b[0] & 0x0F == seq {
                return Some(b);
            }
        }
    }
    None
}

static LAST_PANIC: std::sync::Mutex<Option<String>> = std::sync::Mutex::new(None);
/// wall-clock watchdog: (case header, started at).  A SYNCHRONOUS spin inside the library (a loop
/// that never awaits) cannot be seen by `quiesce`; a case that runs for more than 60 s of wall time
/// is reported on stderr and the process exits with code 3 (=> `HARNESS-CRASH`, a violation).
static CURRENT_CASE: std::sync::Mutex<Option<(String, std::time::Instant)>> = std::sync::Mutex::new(None);

fn start_watchdog() {
    std::thread::spawn(|| loop {
        std::thread::sleep(Duration::from_secs(2));
        if let Ok(g) = CURRENT_CASE.lock() {
            if let Some((hdr, t0)) = g.as_ref() {
                if t0.elapsed() > Duration::from_secs(60) {
                    eprintln!("MONITOR-FAIL {hdr} :: no_stall :: the endpoint task spins synchronously (case ran > 60 s wall time)");
                    std::process::exit(3);
                }
            }
        }
    });
}

pub fn run(ops: &str, _out: &mut dyn Write, mon: &mut dyn Write, trace_path: Option<&str>) {
    let verbose = std::env::var("VERIF_PANIC_MSG").is_ok();
    std::panic::set_hook(Box::new(move |i| {
        // remember WHERE the task panicked: a cause tag is only given when the input predicate of the
        // known finding holds AND the panic is in that finding's source file
        let loc = i.location().map(|l| format!("{}:{}", l.file(), l.line())).unwrap_or_default();
        if let Ok(mut g) = LAST_PANIC.lock() {
            if g.is_none() {
                *g = Some(loc);
            }
        }
        if verbose {
            eprintln!("PANIC: {i}");
        }
    }));
    dnp3::verif_hooks::trace_sink::install();
    start_watchdog();
    let mut stats = Stats::default();
    let mut tf = trace_path.map(|p| std::io::BufWriter::new(std::fs::File::create(p).expect("trace file")));
    for (hdr, lines) in split_cases(ops) {
        let kind = case_attr(&hdr, "kind").unwrap_or("?").to_string();
        let role = case_attr(&hdr, "role").unwrap_or("outstation").to_string();
        stats.hit(&format!("kind_{kind}"));
        stats.hit(&format!("role_{role}"));
        stats.note_case(&lines.join("\n"));
        if let Some(t) = tf.as_mut() {
            writeln!(t, "{hdr}").unwrap();
        }
        if role == "master" {
            run_master_case(&hdr, &lines, mon, &mut stats);
            continue;
        }
        if let Ok(mut g) = LAST_PANIC.lock() {
            *g = None;
        }
        if let Ok(mut g) = CURRENT_CASE.lock() {
            *g = Some((hdr.clone(), std::time::Instant::now()));
        }
        let rt = runtime();
        let mut trace: Vec<String> = Vec::new();
        let mut failures: Vec<(String, String, String, usize)> = Vec::new(); // (monitor, cause, detail, trace length then)
        rt.block_on(async {
            let mut sess: Option<Sess> = None;
            let mut last_frag: Option<Vec<u8>> = None;
            let mut reported_panic = false;
            for line in &lines {
                let ws: Vec<&str> = line.split_whitespace().collect();
                if ws.is_empty() || ws[0].starts_with('@') {
                    continue;
                }
                trace.push(format!("> {}", if line.len() > 200 { &line[..200] } else { line }));
                let mut outs: Vec<String> = Vec::new();
                match ws[0] {
                    "cfg" => {
                        let cfg = Cfg::parse(&ws[1..]);
                        stats.hit(&format!("cfg_decode_{}", cfg.decode));
                        stats.hit(&format!("cfg_discard_{}", cfg.discard as u8));
                        stats.hit(&format!("cfg_rx_{}", cfg.rx));
                        stats.hit(&format!("cfg_sol_{}", cfg.sol));
                        stats.hit(&format!("cfg_unsolicited_{}", cfg.unsolicited as u8));
                        let mut st = Station::new(&cfg);
                        outs = st.quiesce().await;
                        let mut s = Sess {
                            st, sol: cfg.sol as usize, decode: cfg.decode, discard: cfg.discard, ctimeout: cfg.ctimeout, tseq: 0, last_sol: 0,
                            last_uns: 0, probe_seq: 7, ended: None, dead: false, written_outstanding: false,
                            overflow_while_written: false, in_sol_wait: false, in_unsol_wait: false, last_sol_fin: true,
                        };
                        s.absorb(&outs);
                        sess = Some(s);
                    }
                    _ if sess.is_none() => outs.push("bad-op".to_string()),
                    // the task is dead: nothing more can be fed (and the database mutex is poisoned:
                    // every `DatabaseHandle::transaction` of the application would panic as well)
                    _ if sess.as_ref().map(|s| s.dead).unwrap_or(false) => outs.push("dead".to_string()),
                    "state" => stats.hit(&format!("state_{}", ws.get(1).unwrap_or(&"?"))),
                    "hostile" => {
                        stats.hit(&format!("hostile_{}", ws.get(1).unwrap_or(&"?")));
                        let s = sess.as_ref().unwrap();
                        stats.hit(if s.ended.is_some() {
                            "hostile_arrives_after_session_end"
                        } else if s.in_sol_wait && s.last_sol_fin {
                            "hostile_arrives_in_solicited_confirm_wait"
                        } else if s.in_sol_wait {
                            "hostile_arrives_mid_series_confirm_wait"
                        } else if s.in_unsol_wait {
                            "hostile_arrives_in_unsolicited_confirm_wait"
                        } else {
                            "hostile_arrives_idle"
                        });
                    }
                    "addbin" | "addan" => {
                        let s = sess.as_mut().unwrap();
                        let (kind, idx, cls) = (ws[0], ws[1].parse().unwrap(), ws[2].parse().unwrap());
                        match std::panic::catch_unwind(std::panic::AssertUnwindSafe(|| s.st.add_point(kind, idx, cls))) {
                            Ok(ok) => outs.push(format!("add {}", ok as u8)),
                            Err(_) => outs.push("app-thread-panic".to_string()),
                        }
                        let o = s.st.quiesce().await;
                        s.absorb(&o);
                        outs.extend(o);
                    }
                    "txn" => {
                        let s = sess.as_mut().unwrap();
                        outs = match std::panic::catch_unwind(std::panic::AssertUnwindSafe(|| s.st.txn(&ws[1..]))) {
                            Ok(o) => o,
                            Err(_) => vec!["app-thread-panic".to_string()],
                        };
                        s.absorb(&outs);
                        let o = s.st.quiesce().await;
                        s.absorb(&o);
                        outs.extend(o);
                    }
                    "rx" | "rxc" => {
                        let s = sess.as_mut().unwrap();
                        let (chunk, k) = if ws[0] == "rxc" { (ws[1].parse::<usize>().unwrap(), 2) } else { (0, 1) };
                        let frag = unhex(ws[k + 2]);
                        let bytes = frames(ws[k].parse().unwrap(), ws[k + 1].parse().unwrap(), &frag, &mut s.tseq);
                        stats.add("octets_fed", bytes.len() as u64);
                        if frag.len() >= 2 {
                            stats.hit(&format!("fc_{}", frag[1]));
                        }
                        last_frag = Some(frag);
                        outs = s.write_chunked(&bytes, chunk).await;
                    }
                    "seg" => {
                        let s = sess.as_mut().unwrap();
                        let mut p = vec![ws[1].parse::<u8>().unwrap()];
                        p.extend(unhex(ws[4]));
                        let bytes = ref_frame(0xC4, ws[3].parse().unwrap(), ws[2].parse().unwrap(), &p[..p.len().min(250)]);
                        stats.add("octets_fed", bytes.len() as u64);
                        outs = s.write_chunked(&bytes, 0).await;
                    }
                    "raw" | "rawc" => {
                        let s = sess.as_mut().unwrap();
                        let (chunk, k) = if ws[0] == "rawc" { (ws[1].parse::<usize>().unwrap(), 2) } else { (0, 1) };
                        let bytes = unhex(ws[k]);
                        stats.add("octets_fed", bytes.len() as u64);
                        outs = s.write_chunked(&bytes, chunk).await;
                    }
                    "cfm" => {
                        let s = sess.as_mut().unwrap();
                        let uns = ws[1] == "uns";
                        let delta: u8 = ws[2].parse().unwrap();
                        let seq = ((if uns { s.last_uns } else { s.last_sol }) + delta) & 0x0F;
                        let f = [0xC0 | if uns { 0x10 } else { 0 } | seq, 0x00];
                        let bytes = frames(MASTER, OUTSTATION, &f, &mut s.tseq);
                        outs = s.write_chunked(&bytes, 0).await;
                    }
                    "tick" => {
                        let s = sess.as_mut().unwrap();
                        outs = s.tick(ws[1].parse().unwrap()).await;
                    }
                    "cut" => {
                        let s = sess.as_mut().unwrap();
                        outs = s.reconnect().await;
                    }
                    "probe" => {
                        let s = sess.as_mut().unwrap();
                        if !s.dead {
                            stats.hit("probes");
                            let was_ended = s.ended.clone();
                            if let Some(reason) = &was_ended {
                                stats.hit("probe_after_session_end");
                                let framing = ["start1", "start2", "badlen", "hdrcrc", "bodycrc"].iter().any(|e| reason.contains(e));
                                if s.discard {
                                    failures.push(("keeps_serving".into(), String::new(), format!("session ended in Discard mode: {reason}"), trace.len()));
                                } else if !framing {
                                    failures.push(("keeps_serving".into(), String::new(), format!("session ended in Close mode with a non-framing reason: {reason}"), trace.len()));
                                }
                            }
                            let (t, la, ra, failure) = s.probe().await;
                            outs = t;
                            stats.hit(&format!("probe_link_attempts_{la}"));
                            stats.hit(&format!("probe_read_attempts_{ra}"));
                            if let Some(f) = failure {
                                if !s.dead {
                                    for o in &outs {
                                        trace.push(if o.len() > 160 { format!("{}…", &o[..160]) } else { o.clone() });
                                    }
                                    outs.clear();
                                    failures.push(("keeps_serving".into(), String::new(), f, trace.len()));
                                }
                            } else if !s.dead {
                                stats.hit("probe_answered");
                            }
                        }
                    }
                    _ => outs.push("bad-op".to_string()),
                }
                for o in &outs {
                    stats.hit(&format!("out_{}", o.split_whitespace().next().unwrap_or("?")));
                    trace.push(if o.len() > 160 { format!("{}…", &o[..160]) } else { o.clone() });
                }
                if outs.iter().any(|o| o == "stall") {
                    failures.push(("no_stall".into(), String::new(), format!("quiesce pass cap hit at op `{}`", &line[..line.len().min(80)]), trace.len()));
                }
                if let Some(s) = sess.as_ref() {
                    if s.dead && !reported_panic {
                        reported_panic = true;
                        let d1 = last_frag.as_ref().map(|f| is_d1(f, s.sol)).unwrap_or(false);
                        let d2 = last_frag.as_ref().map(|f| is_d2(f, s.decode)).unwrap_or(false);
                        let loc = LAST_PANIC.lock().ok().and_then(|mut g| g.take()).unwrap_or_default();
                        let at = |f: &str| loc.contains(f);
                        let cause = if d1 && at("outstation/session.rs") {
                            "D1"
                        } else if d2 && at("app/parse/bytes.rs") {
                            "D2"
                        } else if s.overflow_while_written && at("database/details/event/buffer.rs") {
                            "D3"
                        } else {
                            ""
                        };
                        let short = loc.rsplit("/dnp3/src/").next().unwrap_or("?").to_string();
                        stats.hit(&format!("panic_at_{}", short.replace(' ', "_")));
                        failures.push(("no_panic".into(), cause.to_string(), format!("task died (panic at {short}) at op `{}`", &line[..line.len().min(100)]), trace.len()));
                    }
                }
            }
        });
        drop(rt);
        if let Some(t) = tf.as_mut() {
            for l in &trace {
                writeln!(t, "{l}").unwrap();
            }
        }
        let mut seen: Vec<String> = Vec::new();
        for (name, cause, detail, at) in failures {
            if seen.contains(&name) {
                continue; // one report per monitor and case
            }
            seen.push(name.clone());
            let tail: Vec<String> = trace[..at.min(trace.len())].iter().rev().take(10).rev().map(|l| l.chars().take(120).collect::<String>()).collect();
            fail(mon, &hdr, &name, &cause, &format!("{detail} || trace tail: {}", tail.join(" ; ")));
            stats.hit(&format!("fail_{name}"));
        }
    }
    let (ev, bytes) = dnp3::verif_hooks::trace_sink::counters();
    stats.add("log_events_formatted", ev);
    stats.add("log_octets_formatted", bytes);
    stats.dump(mon);
}

// ------------------------------------------------------------------------------------------
// generator
// ------------------------------------------------------------------------------------------

struct CaseCfg {
    line: String,
    sol: u16,
    rx: u16,
    discard: bool,
    unsolicited: bool,
    ctimeout: u64,
}

fn gen_cfg(r: &mut Rng, force_unsol: Option<bool>, evmax: u16) -> CaseCfg {
    let sol = *r.pick(&[249u16, 249, 2048, 2048, 300]);
    let unsol = *r.pick(&[249u16, 2048]);
    let rx = *r.pick(&[249u16, 2048, 2048, 512]);
    let discard = r.chance(1, 2);
    let decode = r.below(4);
    let unsolicited = force_unsol.unwrap_or_else(|| r.chance(1, 3));
    let ctimeout = *r.pick(&[5000u64, 1009]);
    let line = format!(
        "cfg sol={sol} unsol={unsol} rx={rx} discard={} decode={decode} unsolicited={} retries={} ctimeout={ctimeout} keepalive={} anymaster={} broadcast={} selfaddr={} maxctl={} evmax={evmax}",
        discard as u8,
        unsolicited as u8,
        *r.pick(&["none", "0", "2"]),
        *r.pick(&["none", "none", "7001"]),
        r.chance(1, 6) as u8,
        r.chance(5, 6) as u8,
        r.chance(1, 6) as u8,
        *r.pick(&["none", "none", "2"]),
    );
    CaseCfg { line, sol, rx, discard, unsolicited, ctimeout }
}

fn ctrl(seq: u8) -> u8 {
    0xC0 | (seq & 0x0F)
}

const KNOWN_GV: [(u8, u8); 40] = [
    (1, 0), (1, 1), (1, 2), (2, 0), (2, 1), (2, 2), (2, 3), (3, 2), (4, 3), (10, 2), (11, 2), (12, 1), (13, 1), (20, 1), (20, 5),
    (21, 1), (22, 1), (23, 5), (30, 1), (30, 5), (30, 6), (32, 1), (32, 7), (34, 1), (40, 1), (41, 1), (41, 2), (41, 3), (41, 4),
    (42, 8), (43, 1), (50, 1), (50, 3), (51, 1), (52, 2), (60, 1), (60, 2), (80, 1), (102, 1), (121, 1),
];
const QUALS: [u8; 12] = [0x00, 0x01, 0x06, 0x07, 0x08, 0x17, 0x28, 0x5B, 0x19, 0x2A, 0x03, 0xFF];

/// one object header with boundary counts / ranges and a payload of a chosen length class
fn boundary_header(r: &mut Rng) -> Vec<u8> {
    let (g, v) = match r.below(10) {
        0 => (0u8, *r.pick(&[254u8, 255, 252, 250, 240, 196, 1])),
        1 => (70, r.range(1, 8) as u8),
        2 => (*r.pick(&[110u8, 111, 112, 113]), *r.pick(&[0u8, 1, 4, 255])),
        3 => (r.next() as u8, r.next() as u8),
        _ => *r.pick(&KNOWN_GV),
    };
    let q = if r.chance(1, 8) { r.next() as u8 } else { *r.pick(&QUALS) };
    let mut h = vec![g, v, q];
    let mut implied: usize = 0;
    match q & 0x0F {
        0x00 | 0x03 => {
            let (a, b) = *r.pick(&[(0u8, 0u8), (0, 255), (255, 255), (254, 255), (7, 7), (9, 3), (0, 7)]);
            h.extend_from_slice(&[a, b]);
            implied = (b as usize).saturating_sub(a as usize) + 1;
        }
        0x01 | 0x04 => {
            let (a, b) = *r.pick(&[(0u16, 0u16), (0, 65535), (65535, 65535), (65534, 65535), (65535, 0), (0, 255), (256, 256)]);
            h.extend_from_slice(&a.to_le_bytes());
            h.extend_from_slice(&b.to_le_bytes());
            implied = (b as usize).saturating_sub(a as usize) + 1;
        }
        0x07 => {
            let c = *r.pick(&[0u8, 1, 2, 255]);
            h.push(c);
            implied = c as usize;
        }
        0x08 => {
            let c = *r.pick(&[0u16, 1, 255, 256, 65535]);
            h.extend_from_slice(&c.to_le_bytes());
            implied = c as usize;
        }
        0x09 | 0x0A => {
            let c = *r.pick(&[0u16, 1, 65535]);
            h.extend_from_slice(&c.to_le_bytes());
            h.extend_from_slice(&c.to_le_bytes());
            implied = c as usize;
        }
        0x0B => {
            // free format: count octet, then 16-bit length per object
            let c = *r.pick(&[0u8, 1, 1, 2, 255]);
            h.push(c);
            let len = *r.pick(&[0u16, 1, 26, 65535, 65534, 300]);
            h.extend_from_slice(&len.to_le_bytes());
            implied = len as usize;
        }
        _ => {}
    }
    // payload: nothing / a few octets / what the header implies at 1..11 octets per item (capped) / lots
    let n = match r.below(6) {
        0 => 0,
        1 => r.range(1, 12) as usize,
        2 => implied.min(1800),
        3 => (implied * r.range(1, 11) as usize).min(1900),
        4 => (implied * r.range(1, 11) as usize).min(1900).saturating_sub(1),
        _ => r.range(0, 600) as usize,
    };
    let fill = r.below(3);
    for i in 0..n {
        h.push(match fill {
            0 => 0,
            1 => 0xFF,
            _ => (r.next() as u8) ^ (i as u8),
        });
    }
    h
}

fn valid_requests(r: &mut Rng, seq: u8) -> Vec<u8> {
    let t: [&[u8]; 14] = [
        &[0x01, 0x3C, 0x02, 0x06, 0x3C, 0x03, 0x06, 0x3C, 0x04, 0x06, 0x3C, 0x01, 0x06],
        &[0x01, 0x3C, 0x01, 0x06],
        &[0x01, 0x1E, 0x00, 0x00, 0x00, 0x05],
        &[0x01, 0x01, 0x02, 0x01, 0x00, 0x00, 0x10, 0x00],
        &[0x02, 0x50, 0x01, 0x00, 0x07, 0x07, 0x00],
        &[0x02, 0x32, 0x01, 0x07, 0x01, 0x01, 0x02, 0x03, 0x04, 0x05, 0x06],
        &[0x03, 0x0C, 0x01, 0x17, 0x01, 0x03, 0x03, 0x01, 0x64, 0x00, 0x00, 0x00, 0x64, 0x00, 0x00, 0x00, 0x00],
        &[0x05, 0x29, 0x02, 0x28, 0x01, 0x00, 0x07, 0x00, 0x10, 0x00, 0x00],
        &[0x06, 0x29, 0x01, 0x17, 0x01, 0x02, 0x10, 0x00, 0x00, 0x00, 0x00],
        &[0x14, 0x3C, 0x02, 0x06, 0x3C, 0x03, 0x06, 0x3C, 0x04, 0x06],
        &[0x15, 0x3C, 0x02, 0x06],
        &[0x17],
        &[0x18],
        &[0x07, 0x14, 0x00, 0x06],
    ];
    let mut f = vec![ctrl(seq)];
    let p: &[u8] = *r.pick(&t[..]);
    f.extend_from_slice(p);
    f
}

fn mutate(r: &mut Rng, mut f: Vec<u8>) -> Vec<u8> {
    match r.below(7) {
        0 => {
            let n = r.below(f.len() as u64 + 1) as usize;
            f.truncate(n);
        }
        1 => {
            let n = r.range(1, 40) as usize;
            f.extend(r.bytes(n));
        }
        2 | 3 => {
            if !f.is_empty() {
                let i = r.below(f.len() as u64) as usize;
                f[i] = match r.below(4) {
                    0 => 0xFF,
                    1 => 0,
                    2 => f[i] ^ (1 << r.below(8)),
                    _ => r.next() as u8,
                };
            }
        }
        4 => {
            // duplicate the object part many times (up to the rx size and beyond)
            if f.len() > 2 {
                let objs = f[2..].to_vec();
                let reps = r.range(2, 700) as usize;
                for _ in 0..reps {
                    if f.len() + objs.len() > 2100 {
                        break;
                    }
                    f.extend_from_slice(&objs);
                }
            }
        }
        5 => {
            f[0] = r.next() as u8; // any control octet: FIR/FIN/CON/UNS combinations
        }
        _ => {
            if f.len() > 3 {
                let i = r.range(2, f.len() as u64 - 1) as usize;
                f.insert(i, r.next() as u8);
            }
        }
    }
    f
}

struct Gen<'a> {
    r: Rng,
    w: &'a mut dyn Write,
    seq: u8,
    c: CaseCfg,
    nbin: u16,
    nan: u16,
    time: u64,
    last_select: Option<Vec<u8>>,
}

impl<'a> Gen<'a> {
    fn line(&mut self, s: &str) {
        writeln!(self.w, "{s}").unwrap();
    }
    fn next_seq(&mut self) -> u8 {
        self.seq = (self.seq + 1) & 0x0F;
        self.seq
    }
    fn rx(&mut self, frag: &[u8]) {
        let chunk = if self.r.chance(1, 6) { *self.r.pick(&[1usize, 2, 3, 7, 10, 17, 100, 291, 292, 293]) } else { 0 };
        let src = if self.r.chance(1, 25) { *self.r.pick(&[2u16, 1024, 0xFFFF, 0xFFF0]) } else { MASTER };
        let dst = if self.r.chance(1, 25) { *self.r.pick(&[0xFFFFu16, 0xFFFE, 0xFFFD, 0xFFFC, 77, 1]) } else { OUTSTATION };
        if chunk == 0 {
            self.line(&format!("rx {src} {dst} {}", hex(frag)));
        } else {
            self.line(&format!("rxc {chunk} {src} {dst} {}", hex(frag)));
        }
    }
    fn event(&mut self) {
        if self.nbin + self.nan == 0 {
            return;
        }
        self.time += 1000;
        let t = self.time;
        if self.nbin > 0 && (self.nan == 0 || self.r.chance(1, 2)) {
            let i = self.r.below(self.nbin as u64);
            let v = self.r.below(2);
            self.line(&format!("txn bin:{i}:{v}:1:{t}"));
        } else {
            let i = self.r.below(self.nan as u64);
            let v = self.r.below(1000);
            self.line(&format!("txn an:{i}:{v}:1:{t}"));
        }
    }

    /// drive the session into a state; returns its name
    fn setup_state(&mut self) {
        let want = self.r.below(6);
        match want {
            0 | 1 => self.line("state idle"),
            2 => {
                // solicited confirm wait of an event-bearing response
                self.event();
                self.event();
                self.line("state solwait");
                let s = self.next_seq();
                self.line(&format!("rx {MASTER} {OUTSTATION} {}", hex(&[ctrl(s), 0x01, 0x3C, 0x02, 0x06, 0x3C, 0x03, 0x06, 0x3C, 0x04, 0x06, 0x3C, 0x01, 0x06])));
            }
            3 => {
                // mid multi-fragment series (needs the small solicited buffer and enough points)
                self.line("state midseries");
                let s = self.next_seq();
                self.line(&format!("rx {MASTER} {OUTSTATION} {}", hex(&[ctrl(s), 0x01, 0x3C, 0x01, 0x06])));
                if self.r.chance(1, 2) {
                    self.line("cfm sol 0");
                }
            }
            4 => {
                // unsolicited confirm wait (only when enabled; otherwise this is idle with pending events)
                self.line("state unsolwait");
                let s = self.next_seq();
                self.line(&format!("rx {MASTER} {OUTSTATION} {}", hex(&[ctrl(s), 0x14, 0x3C, 0x02, 0x06, 0x3C, 0x03, 0x06, 0x3C, 0x04, 0x06])));
                self.event();
            }
            _ => {
                // SELECT armed
                self.line("state selected");
                let s = self.next_seq();
                let o: Vec<u8> = vec![0x0C, 0x01, 0x17, 0x01, 0x03, 0x03, 0x01, 0x64, 0x00, 0x00, 0x00, 0x64, 0x00, 0x00, 0x00, 0x00];
                let mut f = vec![ctrl(s), 0x03];
                f.extend(&o);
                self.last_select = Some(o);
                self.line(&format!("rx {MASTER} {OUTSTATION} {}", hex(&f)));
            }
        }
    }

    fn hostile_fragment(&mut self) {
        let s = self.next_seq();
        let k = self.r.below(12);
        let mut f: Vec<u8>;
        match k {
            0 | 1 => {
                self.line("hostile boundary_header");
                let fc = if self.r.chance(2, 3) { *self.r.pick(&[1u8, 2, 3, 4, 5, 6, 7, 9, 20, 21, 129, 130]) } else { self.r.next() as u8 };
                f = vec![ctrl(s), fc];
                let n = if self.r.chance(3, 4) { 1 } else { self.r.range(2, 5) };
                for _ in 0..n {
                    f.extend(boundary_header(&mut self.r));
                }
            }
            2 => {
                self.line("hostile random_objects");
                let n = *self.r.pick(&[0usize, 1, 2, 3, 5, 16, 100, 245, 246, 2040, 2046, 2047]);
                f = vec![ctrl(s), self.r.next() as u8];
                f.extend(self.r.bytes(n));
            }
            3 | 4 => {
                self.line("hostile mutated_request");
                let base = valid_requests(&mut self.r, s);
                f = mutate(&mut self.r, base);
            }
            5 => {
                self.line("hostile confirm_variants");
                f = vec![self.r.next() as u8, 0x00];
                if self.r.chance(1, 3) {
                    let n = self.r.range(1, 20) as usize;
                    f.extend(self.r.bytes(n));
                }
            }
            6 => {
                self.line("hostile short");
                f = match self.r.below(3) {
                    0 => vec![],
                    1 => vec![self.r.next() as u8],
                    _ => vec![ctrl(s), self.r.next() as u8],
                };
            }
            7 => {
                // maximal-size fragments: exactly rx, rx+1, 2*rx octets of valid READ headers / zeros / 0xFF
                self.line("hostile maximal_size");
                let n = *self.r.pick(&[self.c.rx as usize - 1, self.c.rx as usize, self.c.rx as usize + 1, 2 * self.c.rx as usize, 249, 250]);
                f = vec![ctrl(s), *self.r.pick(&[1u8, 2, 3, 4, 129])];
                match self.r.below(3) {
                    0 => {
                        while f.len() + 3 <= n {
                            f.extend_from_slice(&[0x3C, self.r.range(1, 4) as u8, 0x06]);
                        }
                    }
                    1 => f.resize(n.max(2), 0xFF),
                    _ => {
                        let m = n.saturating_sub(2);
                        f.extend(self.r.bytes(m));
                    }
                }
            }
            8 => {
                // OPERATE / DIRECT OPERATE variants after a SELECT (matching, altered, wrong sequence)
                self.line("hostile operate_variants");
                let fc = *self.r.pick(&[4u8, 4, 5, 6, 3]);
                f = vec![ctrl(s), fc];
                let mut o = self.last_select.clone().unwrap_or_else(|| vec![0x29, 0x02, 0x17, 0x01, 0x05, 0x10, 0x00, 0x00]);
                if self.r.chance(1, 2) {
                    o = mutate(&mut self.r, o);
                }
                f.extend(o);
            }
            9 => {
                self.line("hostile many_controls");
                // many control objects: near and beyond what the echo buffer holds
                let n = *self.r.pick(&[1usize, 20, 48, 49, 60, 61, 62, 81, 82, 255]);
                let fc = *self.r.pick(&[3u8, 5, 6, 4]);
                f = vec![ctrl(s), fc, 0x29, 0x02, 0x28];
                f.extend_from_slice(&(n as u16).to_le_bytes());
                for i in 0..n {
                    f.extend_from_slice(&(i as u16).to_le_bytes());
                    f.extend_from_slice(&[0x10, 0x00, 0x00]);
                }
            }
            10 => {
                self.line("hostile response_as_request");
                f = vec![self.r.next() as u8, *self.r.pick(&[129u8, 130, 131]), self.r.next() as u8, self.r.next() as u8];
                if self.r.chance(1, 2) {
                    f.extend(boundary_header(&mut self.r));
                }
            }
            _ => {
                self.line("hostile octet_strings_attrs_files");
                f = vec![ctrl(s), *self.r.pick(&[1u8, 2, 25, 26, 27, 28, 30, 22, 31, 32, 33])];
                match self.r.below(5) {
                    0 => f.extend_from_slice(&[110, 1, 0x01, 0xFF, 0xFF, 0xFF, 0xFF, 0x41]),
                    1 => f.extend_from_slice(&[110, 0, 0x00, 0x00, 0x05]),
                    2 => {
                        f.extend_from_slice(&[70, self.r.range(2, 7) as u8, 0x5B, 0x01]);
                        let len = *self.r.pick(&[0u16, 1, 12, 26, 65535]);
                        f.extend_from_slice(&len.to_le_bytes());
                        let n = self.r.range(0, 40) as usize;
                        f.extend(self.r.bytes(n));
                    }
                    3 => {
                        f.extend_from_slice(&[0, *self.r.pick(&[254u8, 255, 252, 242]), *self.r.pick(&[0x00u8, 0x06, 0x17]), 0, 0]);
                        let n = self.r.range(0, 12) as usize;
                        f.extend(self.r.bytes(n));
                    }
                    _ => {
                        f.extend_from_slice(&[111, *self.r.pick(&[0u8, 1, 255]), 0x28]);
                        f.extend_from_slice(&self.r.pick(&[1u16, 2, 65535]).to_le_bytes());
                        let n = self.r.range(0, 300) as usize;
                        f.extend(self.r.bytes(n));
                    }
                }
            }
        }
        self.rx(&f);
    }

    fn hostile_link(&mut self) {
        let k = self.r.below(13);
        let s = self.next_seq();
        let good = {
            let f = valid_requests(&mut self.r, s);
            let mut t = (self.r.next() as u8) & 0x3F;
            frames(MASTER, OUTSTATION, &f, &mut t)
        };
        let chunk = if self.r.chance(1, 4) { *self.r.pick(&[1usize, 2, 5, 9, 10, 11, 18, 27, 28, 100]) } else { 0 };
        let emit = |g: &mut Self, b: &[u8]| {
            if chunk == 0 {
                g.line(&format!("raw {}", hex(b)));
            } else {
                g.line(&format!("rawc {chunk} {}", hex(b)));
            }
        };
        match k {
            0 => {
                self.line("hostile link_bad_crc");
                let mut b = good.clone();
                let i = self.r.below(b.len() as u64) as usize;
                b[i] ^= 1 << self.r.below(8);
                emit(self, &b);
            }
            1 => {
                self.line("hostile link_partial_frame");
                let mut b = good.clone();
                let n = self.r.range(1, b.len() as u64 - 1) as usize;
                b.truncate(n);
                emit(self, &b);
            }
            2 => {
                self.line("hostile link_other_address");
                let dst = *self.r.pick(&[77u16, 1, 0, 0xFFF0, 0xFFFB, 0xFFFC, 0xFFFD, 0xFFFE, 0xFFFF, 1023, 1025]);
                let src = *self.r.pick(&[1u16, 2, 1024, 0xFFFF, 0xFFFC, 0xFFF0, 0]);
                let f = valid_requests(&mut self.r, s);
                let mut p = vec![0xC0 | (self.r.next() as u8 & 0x3F)];
                p.extend(f);
                emit(self, &ref_frame(0xC4, dst, src, &p));
            }
            3 => {
                self.line("hostile link_function_codes");
                // every control octet: DIR, PRM, FCB, FCV/DFC x 16 function codes; with and without payload
                let mut b = Vec::new();
                let n = self.r.range(1, 12);
                for _ in 0..n {
                    let c = self.r.next() as u8;
                    let payload: Vec<u8> = match self.r.below(4) {
                        0 => vec![],
                        1 => vec![0xC0],
                        2 => {
                            let mut p = vec![0xC0 | (self.r.next() as u8 & 0x3F)];
                            p.extend(valid_requests(&mut self.r, s));
                            p
                        }
                        _ => {
                            let n = self.r.range(1, 250) as usize;
                            self.r.bytes(n)
                        }
                    };
                    b.extend(ref_frame(c, OUTSTATION, MASTER, &payload));
                }
                emit(self, &b);
            }
            4 => {
                self.line("hostile link_292_octet_frames");
                let mut b = Vec::new();
                let n = self.r.range(1, 10);
                let mut t = self.r.next() as u8 & 0x3F;
                for i in 0..n {
                    let mut p = vec![(t & 0x3F) | if i == 0 { 0x40 } else { 0 } | if i + 1 == n && self.r.chance(1, 2) { 0x80 } else { 0 }];
                    t = t.wrapping_add(1);
                    let fill = self.r.next() as u8;
                    p.resize(250, fill);
                    p[1] = ctrl(s);
                    b.extend(ref_frame(*self.r.pick(&[0xC4u8, 0xC4, 0xC3, 0x44, 0xD3]), OUTSTATION, MASTER, &p));
                }
                emit(self, &b);
            }
            5 => {
                self.line("hostile link_back_to_back");
                let mut b = Vec::new();
                let n = self.r.range(3, 20);
                for _ in 0..n {
                    match self.r.below(5) {
                        0 => b.extend(ref_frame(0xC9, OUTSTATION, MASTER, &[])),
                        1 => b.extend(ref_frame(0xC0, OUTSTATION, MASTER, &[])),
                        2 => {
                            let q = self.next_seq();
                            let mut t = self.r.next() as u8;
                            b.extend(frames(MASTER, OUTSTATION, &[ctrl(q), 0x00], &mut t));
                        }
                        _ => {
                            let q = self.next_seq();
                            let f = valid_requests(&mut self.r, q);
                            let mut t = self.r.next() as u8;
                            b.extend(frames(MASTER, OUTSTATION, &f, &mut t));
                        }
                    }
                }
                emit(self, &b);
            }
            6 => {
                self.line("hostile link_byte_at_a_time");
                let mut b = good.clone();
                if self.r.chance(1, 2) {
                    let g2 = good.clone();
                    b.extend(g2);
                }
                self.line(&format!("rawc 1 {}", hex(&b)));
            }
            7 => {
                self.line("hostile link_random");
                let n = *self.r.pick(&[1usize, 9, 10, 11, 100, 291, 292, 293, 1000, 2629, 2630, 5000]);
                let mut b = self.r.bytes(n);
                // sprinkle start octets so that the parser leaves its sync states
                let m = self.r.range(0, 8);
                for _ in 0..m {
                    if b.len() >= 3 {
                        let i = self.r.below(b.len() as u64 - 2) as usize;
                        b[i] = 0x05;
                        b[i + 1] = 0x64;
                        if self.r.chance(1, 2) {
                            b[i + 2] = *self.r.pick(&[0u8, 4, 5, 6, 255]);
                        }
                    }
                }
                emit(self, &b);
            }
            8 => {
                self.line("hostile link_bad_length");
                let len = *self.r.pick(&[0u8, 1, 4, 5, 6, 255]);
                let mut h = vec![0x05, 0x64, len, *self.r.pick(&[0xC4u8, 0xC9, 0xC0, 0x44])];
                h.extend_from_slice(&OUTSTATION.to_le_bytes());
                h.extend_from_slice(&MASTER.to_le_bytes());
                let c = ref_crc(0, &h);
                h.extend_from_slice(&c.to_le_bytes());
                let n = self.r.range(0, 30) as usize;
                h.extend(self.r.bytes(n));
                emit(self, &h);
            }
            9 => {
                self.line("hostile link_bad_start");
                let b: Vec<u8> = match self.r.below(4) {
                    0 => vec![0x05],
                    1 => vec![0x05, 0x05, 0x64],
                    2 => vec![0x05, 0x63],
                    _ => vec![0x64, 0x05, 0x64, 0x05],
                };
                emit(self, &b);
            }
            10 => {
                self.line("hostile transport_sequence");
                // segments with missing FIR, missing FIN, wrong sequence numbers, empty payloads, overflow of rx
                let n = self.r.range(1, 12);
                let mut t = self.r.next() as u8 & 0x3F;
                for i in 0..n {
                    let fir = if i == 0 { self.r.chance(2, 3) } else { self.r.chance(1, 8) };
                    let fin = self.r.chance(1, 6);
                    let tb = (t & 0x3F) | if fir { 0x40 } else { 0 } | if fin { 0x80 } else { 0 };
                    t = if self.r.chance(5, 6) { t.wrapping_add(1) } else { self.r.next() as u8 };
                    let len = *self.r.pick(&[0usize, 1, 2, 100, 249, 249, 249]);
                    let mut p = self.r.bytes(len);
                    if len >= 2 && i == 0 {
                        p[0] = ctrl(s);
                        p[1] = 1;
                    }
                    let src = if self.r.chance(1, 10) { 2 } else { MASTER };
                    self.line(&format!("seg {tb} {src} {OUTSTATION} {}", hex(&p)));
                }
            }
            11 => {
                self.line("hostile link_frame_without_transport");
                emit(self, &ref_frame(0xC4, OUTSTATION, MASTER, &[]));
            }
            _ => {
                self.line("hostile link_splice");
                // valid frame, garbage, valid frame — in one write
                let mut b = good.clone();
                let n = self.r.range(1, 40) as usize;
                b.extend(self.r.bytes(n));
                let q = self.next_seq();
                let f = valid_requests(&mut self.r, q);
                let mut t = 0u8;
                b.extend(frames(MASTER, OUTSTATION, &f, &mut t));
                emit(self, &b);
            }
        }
    }
}

fn start_case<'a>(w: &'a mut dyn Write, r: Rng, case: usize, kind: &str, c: CaseCfg, evmax_points: (u16, u16)) -> Gen<'a> {
    writeln!(w, "# case {case} kind={kind} role=outstation").unwrap();
    writeln!(w, "{}", c.line).unwrap();
    let mut g = Gen { r, w, seq: 0, c, nbin: evmax_points.0, nan: evmax_points.1, time: 1000, last_select: None };
    for i in 0..g.nbin {
        let cls = (i % 4) as u8;
        g.line(&format!("addbin {i} {cls}"));
    }
    for i in 0..g.nan {
        let cls = ((i + 1) % 4) as u8;
        g.line(&format!("addan {i} {cls}"));
    }
    if g.c.unsolicited && g.r.chance(5, 6) {
        // confirm the null unsolicited response so that the session is idle
        g.line("cfm uns 0");
    }
    g.seq = g.r.below(16) as u8;
    g
}

pub fn gen(thorough: bool, seed: u64, w: &mut dyn Write) {
    let mut root = Rng::new(seed ^ 0x7261_7762);
    let mut case = 0usize;
    // 1. every function code 0..=255 in every session state, with no / valid / boundary objects
    let sweeps = if thorough { 48 } else { 12 };
    for sweep in 0..sweeps {
        for block in 0..16 {
            let mut r = root.fork();
            let c = gen_cfg(&mut r, Some(sweep % 3 == 2), 40);
            let pts = (r.range(0, 12) as u16, r.range(0, 70) as u16);
            let mut g = start_case(w, r, case, "fcsweep", c, pts);
            case += 1;
            for i in 0..16u16 {
                let fc = (block * 16 + i) as u8;
                g.setup_state();
                g.line("hostile function_code_sweep");
                let s = g.next_seq();
                let mut f = vec![ctrl(s), fc];
                match (sweep + i as usize) % 3 {
                    0 => {}
                    1 => f.extend_from_slice(&[0x3C, 0x02, 0x06]),
                    _ => f.extend(boundary_header(&mut g.r)),
                }
                g.rx(&f);
                g.line("probe");
            }
        }
    }
    // 2. hostile application fragments
    let n = if thorough { 30000 } else { 3500 };
    for _ in 0..n {
        let mut r = root.fork();
        let c = gen_cfg(&mut r, None, 40);
        let pts = (r.range(0, 12) as u16, r.range(0, 70) as u16);
        let mut g = start_case(w, r, case, "fragments", c, pts);
        case += 1;
        let len = g.r.range(2, 9);
        for _ in 0..len {
            g.setup_state();
            g.hostile_fragment();
            g.line("probe");
        }
    }
    // 3. link-level garbage
    let n = if thorough { 30000 } else { 3500 };
    for _ in 0..n {
        let mut r = root.fork();
        let c = gen_cfg(&mut r, None, 40);
        let pts = (r.range(0, 6) as u16, r.range(0, 70) as u16);
        let mut g = start_case(w, r, case, "link", c, pts);
        case += 1;
        let len = g.r.range(2, 9);
        for _ in 0..len {
            g.setup_state();
            g.hostile_link();
            g.line("probe");
            if g.r.chance(1, 10) {
                let t = g.r.range(1, g.c.ctimeout + 10);
                g.line(&format!("tick {t}"));
            }
        }
    }
    // 4. mixed long sessions: hostile inputs back to back, probes only now and then
    let n = if thorough { 6000 } else { 700 };
    for _ in 0..n {
        let mut r = root.fork();
        let c = gen_cfg(&mut r, None, 40);
        let pts = (r.range(0, 12) as u16, r.range(0, 70) as u16);
        let mut g = start_case(w, r, case, "mixed", c, pts);
        case += 1;
        let len = g.r.range(10, 30);
        for _ in 0..len {
            match g.r.below(10) {
                0..=3 => g.hostile_fragment(),
                4..=6 => g.hostile_link(),
                7 => g.setup_state(),
                8 => {
                    let t = g.r.range(1, g.c.ctimeout + 10);
                    g.line(&format!("tick {t}"));
                }
                _ => g.line("probe"),
            }
        }
        g.line("probe");
    }
    // 5. small event buffers (overflow while responses are outstanding: the D3 neighbourhood)
    let n = if thorough { 3000 } else { 300 };
    for _ in 0..n {
        let mut r = root.fork();
        let evmax = *r.pick(&[1u16, 2, 3]);
        let c = gen_cfg(&mut r, Some(true), evmax);
        let mut g = start_case(w, r, case, "smallbuffer", c, (4, 4));
        case += 1;
        let len = g.r.range(6, 20);
        for _ in 0..len {
            match g.r.below(8) {
                0..=2 => g.event(),
                3 => g.setup_state(),
                4 => g.hostile_fragment(),
                5 => {
                    let which = if g.r.chance(1, 2) { "uns" } else { "sol" };
                    g.line(&format!("cfm {which} 0"));
                }
                6 => {
                    let t = g.r.range(1, g.c.ctimeout + 10);
                    g.line(&format!("tick {t}"));
                }
                _ => g.line("probe"),
            }
        }
        g.line("probe");
    }
    let _ = (&root, case);
    // 6. role = master: MASTER HOOK
    for (hdr, lines) in master_role_cases(thorough, seed, case) {
        writeln!(w, "{hdr}").unwrap();
        for l in lines {
            writeln!(w, "{l}").unwrap();
        }
    }
}

// ------------------------------------------------------------------------------------------
// MASTER HOOK (role=master).  The master engine is built separately.  When
// `hooks/master_probe.rs` exists (exposing the real `MasterTask` over `PhysLayer::Pipe`, like
// `outstation_probe.rs`), plugging it in here takes:
//   1. hooks/dnp3_hooks.rs:   #[path = "master_probe.rs"] pub mod master_probe;
//   2. `master_role_cases`:   return cases `# case <n> kind=<k> role=master` whose ops are the
//                             ops of this engine (`raw`, `rawc`, `rx`, `seg`, `tick`, `cut`, `probe`)
//   3. `run_master_case`:     build the master station (the analogue of `Station`), feed the ops,
//                             probe = "the next scheduled poll / a queued request still gets its
//                             well-formed response accepted", and report through `fail(..)` with the
//                             same three monitor names.
// Until then no master cases are generated and nothing is claimed for the master role.
// ------------------------------------------------------------------------------------------
fn master_role_cases(_thorough: bool, _seed: u64, _first_case: usize) -> Vec<(String, Vec<String>)> {
    Vec::new()
}

fn run_master_case(hdr: &str, _lines: &[String], mon: &mut dyn Write, stats: &mut Stats) {
    stats.hit("master_cases_skipped");
    let _ = (hdr, mon);
}
