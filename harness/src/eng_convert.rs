//! engine `convert` (C10): measurement values from the real outstation `Database` through the
//! real response writer, `ParsedFragment::parse` and `extract_measurements` into a recording
//! `ReadHandler`, against the Lean model (`Dnp3.Model.Measurement`, driver `Dnp3.Driver.Convert`),
//! plus trace monitors computed by an independent reference (`Ref` below) written straight from
//! the property: delivered == carry(variation, recorded).
//!
//! ops:  new <max_events_per_type> <tx_size> <class0_octet_strings 0|1>
//!       add <ty> <index> <class 0..3> <svar> <evar>
//!       upd <ty> <index> <value> <flags> <time -|s<ms>|u<ms>> <n|f> [r=<f32 bits>]
//!            ty: bi db bo ct fc ai ao os; value: decimal (bi bo db ct fc), f64 bits hex16 (ai ao),
//!            hex octets (os); n = static only (EventMode::Suppress), f = EventMode::Force;
//!            r = round-to-nearest-even f32 of the value (integer reference implementation below)
//!       read <spec>...   spec: c0 | c<1..3>[:n<k>] | s:<ty>:<var>:all | s:<ty>:<var>:r8|r16:<a>-<b>
//!                              | e:<ty>:<var>:all | e:<ty>:<var>:n8|n16:<k>      (var 0 = default)
//! out:  add 0|1 | nopoint|noevent|created|overflow | cto s|u <ms> |
//!       m <ty> <index> g<G>v<V> hf=<0|1> <value> <flags> <time> | iin2 <n> | ok
//!       panic  (the library's object iterator panicked inside extract_measurements; the real master
//!               task would be gone: every later op of the case answers `dead`)
//!
//! Monitors (each names the clause of the property it states; `Ref::read` computes the expected
//! handler input from the recorded measurements alone):
//!   every_point_delivered_once_in_order[_same_index], nothing_invented,
//!   variation_requested_or_configured_packed_only_if_online, has_flags_truthful,
//!   analog_value_exact_or_saturated_never_wrapped, analog_over_range_flag_iff_out_of_range,
//!   counter_value_exact_or_low16, value_carried, flags_carried_not_swapped, time_carried_exact,
//!   common_time_header_exactly_when_needed, update_creates_event_as_configured, point_added_once,
//!   read_accepted, reference_f32_rounding_self_check
//! Cause tags: `cause=D11` (NaN -> integer variation with a flag octet: 0, flags unchanged, OVER_RANGE
//! missing).  D11 is repaired in the library (to_i16 / to_i32 test is_nan() first) and no longer a
//! listed finding: the tag only names the pattern, a failure carrying it is a plain violation;
//! regression case corpus/C10/convert_D11.ops.
//! (Former finding D2 -- octet string at index 65535 in a start-stop header: master-side panic -- is
//! repaired; a master-side panic is a plain violation, regression case corpus/C10/convert_D2.ops.)
use crate::rng::Rng;
use crate::util::*;
use dnp3::verif_hooks::convert_probe::ConvertProbe;
use std::collections::BTreeMap;
use std::io::Write;

const TYS: [&str; 8] = ["bi", "db", "bo", "ct", "fc", "ai", "ao", "os"];
const SGROUP: [u8; 8] = [1, 3, 10, 20, 21, 30, 40, 110];
const EGROUP: [u8; 8] = [2, 4, 11, 22, 23, 32, 42, 111];
const OVER_RANGE: u8 = 0x20;
const ONLINE: u8 = 0x01;
const TMAX: u64 = (1 << 48) - 1;

fn ty_of(s: &str) -> Option<usize> {
    TYS.iter().position(|t| *t == s)
}
fn svars(t: usize) -> &'static [u8] {
    match t {
        0 | 1 | 2 => &[1, 2],
        3 => &[1, 2, 5, 6],
        4 => &[1, 2, 5, 6, 9, 10],
        5 => &[1, 2, 3, 4, 5, 6],
        6 => &[1, 2, 3, 4],
        _ => &[0],
    }
}
fn evars(t: usize) -> &'static [u8] {
    match t {
        0 | 1 => &[1, 2, 3],
        2 => &[1, 2],
        3 | 4 => &[1, 2, 5, 6],
        5 | 6 => &[1, 2, 3, 4, 5, 6, 7, 8],
        _ => &[0],
    }
}

// ------------------------------------------------------------------------------------------
// what each variation can carry (IEEE 1815 object library; written down independently of
// app/gen/conversion.rs)
// ------------------------------------------------------------------------------------------
#[derive(Clone, Copy, PartialEq, Debug)]
enum VK { Packed, FlagsOnly, U32, U16, I32, I16, F32, F64, Oct }
#[derive(Clone, Copy, PartialEq, Debug)]
enum TK { None, Abs, Cto }
#[derive(Clone, Copy)]
struct VarDesc { vk: VK, hf: bool, tk: TK }

fn desc(t: usize, event: bool, var: u8) -> Option<VarDesc> {
    let d = |vk, hf, tk| Some(VarDesc { vk, hf, tk });
    match (t, event, var) {
        (0 | 1 | 2, false, 1) => d(VK::Packed, false, TK::None),
        (0 | 1 | 2, false, 2) => d(VK::FlagsOnly, true, TK::None),
        (0 | 1 | 2, true, 1) => d(VK::FlagsOnly, true, TK::None),
        (0 | 1 | 2, true, 2) => d(VK::FlagsOnly, true, TK::Abs),
        (0 | 1, true, 3) => d(VK::FlagsOnly, true, TK::Cto),
        (3, false, 1) | (4, false, 1) => d(VK::U32, true, TK::None),
        (3, false, 2) | (4, false, 2) => d(VK::U16, true, TK::None),
        (3, false, 5) => d(VK::U32, false, TK::None),
        (3, false, 6) => d(VK::U16, false, TK::None),
        (4, false, 5) => d(VK::U32, true, TK::Abs),
        (4, false, 6) => d(VK::U16, true, TK::Abs),
        (4, false, 9) => d(VK::U32, false, TK::None),
        (4, false, 10) => d(VK::U16, false, TK::None),
        (3 | 4, true, 1) => d(VK::U32, true, TK::None),
        (3 | 4, true, 2) => d(VK::U16, true, TK::None),
        (3 | 4, true, 5) => d(VK::U32, true, TK::Abs),
        (3 | 4, true, 6) => d(VK::U16, true, TK::Abs),
        (5, false, 1) | (6, false, 1) => d(VK::I32, true, TK::None),
        (5, false, 2) | (6, false, 2) => d(VK::I16, true, TK::None),
        (5, false, 3) => d(VK::I32, false, TK::None),
        (5, false, 4) => d(VK::I16, false, TK::None),
        (5, false, 5) | (6, false, 3) => d(VK::F32, true, TK::None),
        (5, false, 6) | (6, false, 4) => d(VK::F64, true, TK::None),
        (5 | 6, true, 1) => d(VK::I32, true, TK::None),
        (5 | 6, true, 2) => d(VK::I16, true, TK::None),
        (5 | 6, true, 3) => d(VK::I32, true, TK::Abs),
        (5 | 6, true, 4) => d(VK::I16, true, TK::Abs),
        (5 | 6, true, 5) => d(VK::F32, true, TK::None),
        (5 | 6, true, 6) => d(VK::F64, true, TK::None),
        (5 | 6, true, 7) => d(VK::F32, true, TK::Abs),
        (5 | 6, true, 8) => d(VK::F64, true, TK::Abs),
        (7, _, _) => d(VK::Oct, false, TK::None),
        _ => None,
    }
}

// ------------------------------------------------------------------------------------------
// independent integer reference for IEEE-754 binary64 -> binary32, round to nearest even
// ------------------------------------------------------------------------------------------
pub fn ref_f64_to_f32(b: u64) -> u32 {
    let sign = ((b >> 63) as u32) << 31;
    let e = ((b >> 52) & 0x7ff) as i32;
    let m = b & ((1u64 << 52) - 1);
    if e == 0x7ff {
        return if m == 0 { sign | 0x7f80_0000 } else { sign | 0x7fc0_0000 | ((m >> 29) as u32) };
    }
    if e == 0 {
        return sign; // zero or |v| < 2^-1022, far below half of the smallest f32 subnormal
    }
    let sig = m | (1u64 << 52);
    let ex = e - 1023;
    if ex >= -126 {
        let mut q = sig >> 29;
        let rem = sig & ((1u64 << 29) - 1);
        let half = 1u64 << 28;
        if rem > half || (rem == half && q & 1 == 1) {
            q += 1;
        }
        let mut ef = ex + 127;
        if q == 1u64 << 24 {
            q = 1u64 << 23;
            ef += 1;
        }
        if ef >= 255 {
            return sign | 0x7f80_0000;
        }
        sign | ((ef as u32) << 23) | ((q as u32) & 0x7f_ffff)
    } else {
        let sh = (-97 - ex) as u32;
        if sh > 54 {
            return sign;
        }
        let mut q = sig >> sh;
        let rem = sig & ((1u64 << sh) - 1);
        let half = 1u64 << (sh - 1);
        if rem > half || (rem == half && q & 1 == 1) {
            q += 1;
        }
        sign | (q as u32)
    }
}

// ------------------------------------------------------------------------------------------
// recorded measurements and the reference database
// ------------------------------------------------------------------------------------------
#[derive(Clone, Debug, PartialEq)]
enum Val { Num(u64), Oct(Vec<u8>) }

#[derive(Clone, Debug)]
struct Meas { val: Val, flags: u8, time: Option<(bool, u64)> }

struct Point { cur: Meas, svar: u8, evar: u8, class: u8 }

struct Ev { ty: usize, idx: u16, class: u8, m: Meas, evar: u8, sel: Option<u8> }

struct Ref {
    pts: Vec<BTreeMap<u16, Point>>,
    evs: Vec<Ev>,
    maxev: usize,
    c0os: bool,
    tx: usize,
}

/// encoded size of one object of a variation (flag octet, value, time)
fn obj_size(d: VarDesc, olen: usize) -> usize {
    let v = match d.vk {
        VK::Packed | VK::FlagsOnly => 0,
        VK::U32 | VK::I32 | VK::F32 => 4,
        VK::U16 | VK::I16 => 2,
        VK::F64 => 8,
        VK::Oct => olen,
    };
    let t = match d.tk { TK::None => 0, TK::Abs => 6, TK::Cto => 2 };
    usize::from(d.hf) + v + t
}

/// an expected output line; `None` value = any value acceptable (NaN into an integer variation)
#[derive(Clone, Debug)]
enum Exp {
    Cto(bool, u64),
    M { ty: usize, idx: u16, g: u8, v: u8, hf: bool, val: Option<String>, flags: u8, time: Option<(bool, u64)>, nan_int: bool, rec_flags: u8 },
}

fn time_str(t: Option<(bool, u64)>) -> String {
    match t {
        None => "-".into(),
        Some((true, x)) => format!("s{x}"),
        Some((false, x)) => format!("u{x}"),
    }
}

impl Exp {
    fn line(&self) -> String {
        match self {
            Exp::Cto(s, t) => format!("cto {} {}", if *s { "s" } else { "u" }, t),
            Exp::M { ty, idx, g, v, hf, val, flags, time, .. } => format!(
                "m {} {} g{}v{} hf={} {} {} {}",
                TYS[*ty], idx, g, v, u8::from(*hf), val.clone().unwrap_or("*".into()), flags, time_str(*time)
            ),
        }
    }
}

fn default_meas(t: usize) -> Meas {
    let val = match t {
        1 => Val::Num(3),
        7 => Val::Oct(vec![0]),
        _ => Val::Num(0),
    };
    Meas { val, flags: 0x02, time: Some((false, 0)) }
}

/// the state bit(s) of binary / double-bit types live in the top of the flag octet
fn wire_flags(t: usize, m: &Meas) -> u8 {
    let v = match &m.val { Val::Num(n) => *n, _ => 0 };
    match t {
        0 | 2 => (m.flags & 0x7f) | if v != 0 { 0x80 } else { 0 },
        1 => (m.flags & 0x3f) | (((v & 3) as u8) << 6),
        _ => m.flags,
    }
}

fn plainly_online(t: usize, m: &Meas) -> bool {
    match t {
        0 | 2 => m.flags & 0x7f == ONLINE,
        1 => m.flags & 0x3f == ONLINE,
        _ => true,
    }
}

/// integer part toward zero of a finite double as i128 (|v| < 2^100 assumed by the caller)
fn is_nan(b: u64) -> bool {
    (b >> 52) & 0x7ff == 0x7ff && b & ((1 << 52) - 1) != 0
}

/// what `variation` carries of the recorded measurement: (value text, flags, time, nan_int)
fn carry(t: usize, d: VarDesc, m: &Meas, cto_time: Option<(bool, u64)>) -> (Option<String>, u8, Option<(bool, u64)>, bool) {
    let mut nan_int = false;
    let num = match &m.val { Val::Num(n) => *n, _ => 0 };
    let mut flags = if d.hf { wire_flags(t, m) } else { ONLINE };
    let val: Option<String> = match d.vk {
        VK::Packed | VK::FlagsOnly => Some(format!("{}", num)),
        VK::U32 => Some(format!("{}", num as u32)),
        VK::U16 => Some(format!("{}", (num as u32) % 65536)),
        VK::I16 | VK::I32 => {
            let (lo, hi) = if d.vk == VK::I16 { (-32768.0f64, 32767.0f64) } else { (-2147483648.0f64, 2147483647.0f64) };
            let x = f64::from_bits(num);
            if is_nan(num) {
                // not representable: must be flagged, no value is "right"
                nan_int = true;
                if d.hf { flags |= OVER_RANGE; }
                None
            } else if x < lo {
                if d.hf { flags |= OVER_RANGE; }
                Some(format!("{:016x}", lo.to_bits()))
            } else if x > hi {
                if d.hf { flags |= OVER_RANGE; }
                Some(format!("{:016x}", hi.to_bits()))
            } else {
                // in range: the integer part, sign kept (toward zero); +0.0 for |x| < 1
                let tr = x.trunc();
                let tr = if tr == 0.0 { 0.0 } else { tr };
                Some(format!("{:016x}", tr.to_bits()))
            }
        }
        VK::F32 => {
            let x = f64::from_bits(num);
            let fmax = f64::from_bits(0x47EF_FFFF_E000_0000);
            if is_nan(num) {
                let r = ref_f64_to_f32(num);
                Some(format!("{:016x}", (f32::from_bits(r) as f64).to_bits()))
            } else if x > fmax {
                flags |= OVER_RANGE;
                Some(format!("{:016x}", fmax.to_bits()))
            } else if x < -fmax {
                flags |= OVER_RANGE;
                Some(format!("{:016x}", (-fmax).to_bits()))
            } else {
                let r = ref_f64_to_f32(num);
                Some(format!("{:016x}", (f32::from_bits(r) as f64).to_bits()))
            }
        }
        VK::F64 => Some(format!("{:016x}", num)),
        VK::Oct => match &m.val { Val::Oct(b) => Some(hex(b)), _ => Some("-".into()) },
    };
    let time = match d.tk {
        TK::None => None,
        // absolute-time objects have no quality bit: the master reports them as synchronized
        TK::Abs => Some((true, m.time.map(|x| x.1).unwrap_or(0))),
        TK::Cto => cto_time,
    };
    if d.vk == VK::Oct { flags = 0; }
    (val, flags, time, nan_int)
}

#[derive(Clone, Debug)]
enum Spec {
    Class(u8, Option<u16>),
    Static(usize, u8, Option<(u16, u16, bool)>),
    Event(usize, u8, Option<(u16, bool)>),
}

fn parse_spec(s: &str) -> Option<Spec> {
    let p: Vec<&str> = s.split(':').collect();
    match p.as_slice() {
        [c] if c.len() == 2 && c.starts_with('c') => Some(Spec::Class(c[1..].parse().ok()?, None)),
        [c, n] if c.starts_with('c') && n.starts_with('n') => Some(Spec::Class(c[1..].parse().ok()?, Some(n[1..].parse().ok()?))),
        ["s", ty, var, "all"] => Some(Spec::Static(ty_of(ty)?, var.parse().ok()?, None)),
        ["s", ty, var, w, r] => {
            let (a, b) = r.split_once('-')?;
            Some(Spec::Static(ty_of(ty)?, var.parse().ok()?, Some((a.parse().ok()?, b.parse().ok()?, *w == "r16"))))
        }
        ["e", ty, var, "all"] => Some(Spec::Event(ty_of(ty)?, var.parse().ok()?, None)),
        ["e", ty, var, w, k] => Some(Spec::Event(ty_of(ty)?, var.parse().ok()?, Some((k.parse().ok()?, *w == "n16")))),
        _ => None,
    }
}

/// object headers of a READ request (reference encoder, IEEE 1815 clause 4.2.2)
fn encode_specs(specs: &[Spec]) -> Vec<u8> {
    let mut v = Vec::new();
    for s in specs {
        match s {
            Spec::Class(c, None) => v.extend([60, c + 1, 0x06]),
            Spec::Class(c, Some(n)) => v.extend([60, c + 1, 0x07, *n as u8]),
            Spec::Static(t, var, None) => v.extend([SGROUP[*t], *var, 0x06]),
            Spec::Static(t, var, Some((a, b, wide))) => {
                if *wide {
                    v.extend([SGROUP[*t], *var, 0x01]);
                    v.extend(a.to_le_bytes());
                    v.extend(b.to_le_bytes());
                } else {
                    v.extend([SGROUP[*t], *var, 0x00, *a as u8, *b as u8]);
                }
            }
            Spec::Event(t, var, None) => v.extend([EGROUP[*t], *var, 0x06]),
            Spec::Event(t, var, Some((k, wide))) => {
                if *wide {
                    v.extend([EGROUP[*t], *var, 0x08]);
                    v.extend(k.to_le_bytes());
                } else {
                    v.extend([EGROUP[*t], *var, 0x07, *k as u8]);
                }
            }
        }
    }
    v
}

impl Ref {
    fn new(maxev: usize, c0os: bool, tx: usize) -> Self {
        Ref { pts: (0..8).map(|_| BTreeMap::new()).collect(), evs: Vec::new(), maxev, c0os, tx: tx.max(16) }
    }

    fn add(&mut self, t: usize, idx: u16, class: u8, svar: u8, evar: u8) -> bool {
        if self.pts[t].contains_key(&idx) {
            return false;
        }
        self.pts[t].insert(idx, Point { cur: default_meas(t), svar, evar, class });
        true
    }

    fn update(&mut self, t: usize, idx: u16, m: Meas, force: bool) -> &'static str {
        let (class, evar) = match self.pts[t].get_mut(&idx) {
            None => return "nopoint",
            Some(p) => {
                p.cur = m.clone();
                (p.class, p.evar)
            }
        };
        if !force || class == 0 || self.maxev == 0 {
            return "noevent";
        }
        let mut res = "created";
        if self.evs.iter().filter(|e| e.ty == t).count() == self.maxev {
            let pos = self.evs.iter().position(|e| e.ty == t).unwrap();
            self.evs.remove(pos);
            res = "overflow";
        }
        self.evs.push(Ev { ty: t, idx, class, m, evar, sel: None });
        res
    }

    /// everything the master's handler must receive for this READ, in order
    fn read(&mut self, specs: &[Spec], stats: &mut Stats) -> Vec<Exp> {
        let mut out = Vec::new();
        // (1) event selection, header by header
        let mut statics: Vec<(usize, Option<u8>, u16, u16)> = Vec::new();
        for s in specs {
            match s {
                Spec::Class(0, _) => {
                    for t in 0..8 {
                        if t == 7 && !self.c0os {
                            continue;
                        }
                        if let (Some(a), Some(b)) = (self.pts[t].keys().next(), self.pts[t].keys().last()) {
                            statics.push((t, None, *a, *b));
                        }
                    }
                }
                Spec::Class(c, lim) => {
                    let mut left = lim.map(|x| x as usize).unwrap_or(usize::MAX);
                    for e in self.evs.iter_mut() {
                        if left == 0 { break; }
                        if e.sel.is_none() && e.class == *c {
                            e.sel = Some(e.evar);
                            left -= 1;
                        }
                    }
                }
                Spec::Event(t, var, lim) => {
                    let mut left = lim.map(|x| x.0 as usize).unwrap_or(usize::MAX);
                    for e in self.evs.iter_mut() {
                        if left == 0 { break; }
                        if e.sel.is_none() && e.ty == *t {
                            e.sel = Some(if *var == 0 { e.evar } else { *var });
                            left -= 1;
                        }
                    }
                }
                Spec::Static(t, var, range) => {
                    let v = if *var == 0 { None } else { Some(*var) };
                    match range {
                        Some((a, b, _)) => statics.push((*t, v, *a, *b)),
                        None => {
                            if let (Some(a), Some(b)) = (self.pts[*t].keys().next(), self.pts[*t].keys().last()) {
                                statics.push((*t, v, *a, *b));
                            }
                        }
                    }
                }
            }
        }
        // (2) events in the order they were recorded; a common-time header exactly when needed;
        //     a fragment holds what fits into the tx buffer (header 5, common-time header 10,
        //     record = 2-octet index + object), the next fragment starts afresh
        let mut cur: Option<(usize, u8, usize)> = None; // header (type, variation, octet length) in progress
        let mut cto: Option<(bool, u64)> = None;
        let mut count = 0u32;
        let cap = self.tx - 4;
        let mut remaining = cap;
        let evs = std::mem::take(&mut self.evs);
        let mut keep = Vec::new();
        for e in evs {
            let var = match e.sel {
                None => { keep.push(e); continue; }
                Some(v) => v,
            };
            let d = desc(e.ty, true, var).expect("event variation");
            let olen = match &e.m.val { Val::Oct(b) => b.len(), _ => 0 };
            let rec = 2 + obj_size(d, olen);
            let t = e.m.time.unwrap_or((false, 0));
            loop {
                let same_header = cur == Some((e.ty, var, olen)) && count < 65535;
                let mut new_header = !same_header;
                let mut need_cto = false;
                if d.tk == TK::Cto {
                    let fits = match cto {
                        Some((q, base)) if same_header => {
                            if q != t.0 { stats.hit("cto_quality_switch"); }
                            else if t.1 < base { stats.hit("cto_time_decreases"); }
                            else if t.1 - base > 65535 { stats.hit("cto_gap_gt_65535"); }
                            else if t.1 - base == 65535 { stats.hit("cto_gap_eq_65535"); }
                            else { stats.hit("cto_gap_lt_65535"); }
                            q == t.0 && t.1 >= base && t.1 - base <= 65535
                        }
                        _ => false,
                    };
                    if !fits {
                        new_header = true;
                        need_cto = true;
                    }
                }
                let need = rec + if new_header { 5 } else { 0 } + if need_cto { 10 } else { 0 };
                if need > remaining && remaining < cap {
                    remaining = cap;
                    cur = None;
                    cto = None;
                    count = 0;
                    stats.hit("event_fragment_boundary");
                    continue;
                }
                remaining = remaining.saturating_sub(need);
                if need_cto {
                    out.push(Exp::Cto(t.0, t.1));
                }
                if new_header {
                    count = 0;
                    cto = if d.tk == TK::Cto { Some(t) } else { None };
                }
                count += 1;
                cur = Some((e.ty, var, olen));
                break;
            }
            let cto_time = if d.tk == TK::Cto { Some(t) } else { None };
            let (val, flags, time, nan_int) = carry(e.ty, d, &e.m, cto_time);
            let v = if e.ty == 7 { olen as u8 } else { var };
            stats.hit(&format!("var_g{}v{}", EGROUP[e.ty], if e.ty == 7 { 0 } else { var }));
            out.push(Exp::M { ty: e.ty, idx: e.idx, g: EGROUP[e.ty], v, hf: d.hf, val, flags, time, nan_int, rec_flags: e.m.flags });
        }
        self.evs = keep;
        // (3) static data in request order, ascending index inside a header
        for (t, var, a, b) in statics {
            if a > b { continue; }
            for (idx, p) in self.pts[t].range(a..=b) {
                let mut v = var.unwrap_or(p.svar);
                if t <= 2 && v == 1 && !plainly_online(t, &p.cur) {
                    v = 2; // packed formats only for plainly ONLINE points
                    stats.hit("packed_promoted");
                }
                let d = desc(t, false, v).expect("static variation");
                let (val, flags, time, nan_int) = carry(t, d, &p.cur, None);
                let olen = match &p.cur.val { Val::Oct(b) => b.len() as u8, _ => v };
                if !d.hf && t != 7 && !(t <= 2) && p.cur.flags != ONLINE {
                    stats.hit("obs_flagless_variation_dropped_non_online_flags");
                }
                stats.hit(&format!("var_g{}v{}", SGROUP[t], if t == 7 { 0 } else { v }));
                out.push(Exp::M { ty: t, idx: *idx, g: SGROUP[t], v: if t == 7 { olen } else { v }, hf: d.hf, val, flags, time, nan_int, rec_flags: p.cur.flags });
            }
        }
        out
    }
}

// ------------------------------------------------------------------------------------------
// value pools
// ------------------------------------------------------------------------------------------
fn next_up(b: u64) -> u64 {
    // for finite non-zero doubles: next toward +inf
    if b >> 63 == 0 { b + 1 } else { b - 1 }
}
fn next_down(b: u64) -> u64 {
    if b >> 63 == 0 { b - 1 } else { b + 1 }
}

fn analog_pool() -> Vec<u64> {
    let mut v: Vec<u64> = Vec::new();
    let f = |x: f64| x.to_bits();
    for x in [0.0, -0.0, 1.0, -1.0, 0.5, -0.5, 1.5, -1.5, 0.999999, -0.999999, 2.5, -2.5, 100.25, -100.75, 1e10, -1e10, 1e300, -1e300, 1e-300] {
        v.push(f(x));
    }
    // subnormals, extremes, infinities, NaNs (quiet, negative, payload, signalling)
    v.extend([1, 0x8000_0000_0000_0001, 0x000F_FFFF_FFFF_FFFF, 0x0010_0000_0000_0000, 0x7FEF_FFFF_FFFF_FFFF, 0xFFEF_FFFF_FFFF_FFFF]);
    v.extend([0x7FF0_0000_0000_0000, 0xFFF0_0000_0000_0000]);
    v.extend([0x7FF8_0000_0000_0000, 0xFFF8_0000_0000_0000, 0x7FF8_0000_0000_0001, 0x7FF0_0000_0000_0001, 0x7FFF_FFFF_FFFF_FFFF, 0xFFF4_0000_2000_0000]);
    // integer boundaries +-1, +-ulp, halves
    for x in [32767.0, 32768.0, 32769.0, 32766.0, 32767.5, 32767.999, -32767.0, -32768.0, -32769.0, -32768.5, -32768.999, -32767.5,
              2147483647.0, 2147483648.0, 2147483649.0, 2147483646.0, 2147483647.5, -2147483647.0, -2147483648.0, -2147483649.0, -2147483648.5,
              65535.0, 65536.0, -65536.0, 4294967295.0, 4294967296.0, -4294967296.0, 9.3e18, -9.3e18] {
        let b = f(x);
        v.extend([b, next_up(b), next_down(b)]);
    }
    // f32 boundaries: MAX, MAX +- ulp64, the round-to-inf threshold, min normal, subnormals, ties
    let fmax = 0x47EF_FFFF_E000_0000u64;
    for b in [fmax, fmax + 1, fmax - 1, 0x47EF_FFFF_F000_0000, 0x47EF_FFFF_F000_0001, 0x47EF_FFFF_EFFF_FFFF, 0x47F0_0000_0000_0000,
              0x3810_0000_0000_0000, 0x380F_FFFF_FFFF_FFFF, 0x36A0_0000_0000_0000, 0x3690_0000_0000_0000, 0x3690_0000_0000_0001, 0x368F_FFFF_FFFF_FFFF,
              0x3FF0_0000_1000_0000, 0x3FF0_0000_1000_0001, 0x3FF0_0000_3000_0000, 0x3FF0_0000_0FFF_FFFF, 0x3FF0_0000_2000_0000,
              0x380F_FFFF_F000_0000, 0x36B8_0000_0000_0000] {
        v.push(b);
        v.push(b | (1 << 63));
    }
    v
}

fn pow2_pool(thorough: bool) -> Vec<u64> {
    let mut v = Vec::new();
    let step = if thorough { 1 } else { 7 };
    let mut k: i32 = -1074;
    while k <= 1023 {
        let b = if k >= -1022 { ((k + 1023) as u64) << 52 } else { 1u64 << (k + 1074) };
        v.push(b);
        v.push(b | (1 << 63));
        k += if (-160..=140).contains(&k) || k < -1060 || k > 1010 { 1 } else { step };
    }
    v
}

const COUNTERS: [u64; 18] = [0, 1, 2, 255, 256, 65534, 65535, 65536, 65537, 131071, 131072, 0x7FFF_FFFF, 0x8000_0000, 0x8000_0001, 0xFFFF_0000, 0xFFFF_FFFE, 0xFFFF_FFFF, 0x1_0000 * 3 + 5];
const TIMES: [u64; 14] = [0, 1, 65534, 65535, 65536, 65537, TMAX, TMAX - 1, TMAX - 65535, TMAX - 65536, TMAX - 65534, 1_700_000_000_000, 0x8000_0000_0000, 0x7FFF_FFFF_FFFF];

fn rand_time(r: &mut Rng) -> Option<(bool, u64)> {
    match r.below(8) {
        0 => None,
        1..=3 => Some((r.chance(1, 2), *r.pick(&TIMES))),
        _ => Some((r.chance(2, 3), r.next() & TMAX)),
    }
}

fn rand_val(r: &mut Rng, t: usize, pool: &[u64]) -> String {
    match t {
        0 | 2 => format!("{}", r.below(2)),
        1 => format!("{}", r.below(4)),
        3 | 4 => format!("{}", if r.chance(2, 3) { *r.pick(&COUNTERS) } else { r.next() & 0xFFFF_FFFF }),
        5 | 6 => format!("{:016x}", if r.chance(3, 4) { *r.pick(pool) } else { r.next() }),
        _ => {
            // zero-length strings are excluded: the library documents that it does not parse them by default
            let n = match r.below(6) { 0 => 1, 1 => 2, 2 => 255, _ => r.range(1, 20) as usize };
            hex(&r.bytes(n))
        }
    }
}

fn upd_line(t: usize, idx: u16, val: &str, flags: u8, time: Option<(bool, u64)>, force: bool) -> String {
    let mut s = format!("upd {} {} {} {} {} {}", TYS[t], idx, val, flags, time_str(time), if force { "f" } else { "n" });
    if t == 5 || t == 6 {
        let b = u64::from_str_radix(val, 16).unwrap();
        s.push_str(&format!(" r={:08x}", ref_f64_to_f32(b)));
    }
    s
}

pub fn gen(thorough: bool, seed: u64, w: &mut dyn Write) {
    let mut r = Rng::new(seed);
    let mut case = 0u64;
    let mut hdr = |w: &mut dyn Write, kind: &str, extra: &str| {
        writeln!(w, "# case {case} kind={kind} {extra}").unwrap();
        case += 1;
    };
    let pool = analog_pool();
    let pows = pow2_pool(thorough);

    // (A) static: type x configured variation x requested variation (0 = none) EXHAUSTIVELY;
    //     256 points per case: flags = every octet, values from the pools
    for t in 0..8 {
        for &sv in svars(t) {
            let mut reqs: Vec<u8> = vec![0];
            if t != 7 { reqs.extend(svars(t)); }
            for &rq in &reqs {
                hdr(w, "static", &format!("ty={} svar={} req={}", TYS[t], sv, rq));
                writeln!(w, "new 100 2048 1").unwrap();
                let perm = r.below(256);
                for i in 0..256u16 {
                    let ev = *r.pick(evars(t));
                    writeln!(w, "add {} {} 0 {} {}", TYS[t], i, sv, ev).unwrap();
                    let flags = ((i as u64 + perm) % 256) as u8;
                    let val = rand_val(&mut r, t, &pool);
                    writeln!(w, "{}", upd_line(t, i, &val, flags, rand_time(&mut r), false)).unwrap();
                }
                match r.below(3) {
                    0 => writeln!(w, "read s:{}:{}:all", TYS[t], rq).unwrap(),
                    1 => writeln!(w, "read s:{}:{}:r8:0-255", TYS[t], rq).unwrap(),
                    _ => writeln!(w, "read s:{}:{}:r16:0-127 s:{}:{}:r16:128-300", TYS[t], rq, TYS[t], rq).unwrap(),
                }
                if rq == 0 {
                    writeln!(w, "read c0").unwrap();
                }
            }
        }
    }

    // (B) events: type x configured event variation x requested variation EXHAUSTIVELY,
    //     every flag octet over the family, pool values and times
    for t in 0..8 {
        for &ev in evars(t) {
            let mut reqs: Vec<u8> = vec![0];
            if t != 7 { reqs.extend(evars(t)); }
            for &rq in &reqs {
                hdr(w, "event", &format!("ty={} evar={} req={}", TYS[t], ev, rq));
                writeln!(w, "new 300 2048 0").unwrap();
                let npts = 4u16;
                for i in 0..npts {
                    writeln!(w, "add {} {} {} {} {}", TYS[t], i * 7, 1 + (i % 3), *r.pick(svars(t)), ev).unwrap();
                }
                let n = if thorough { 256 } else { 64 };
                let perm = r.below(256);
                for k in 0..n {
                    let idx = (r.below(npts as u64) as u16) * 7;
                    let flags = (((k * 256 / n) as u64 + perm) % 256) as u8;
                    let val = rand_val(&mut r, t, &pool);
                    writeln!(w, "{}", upd_line(t, idx, &val, flags, rand_time(&mut r), true)).unwrap();
                }
                match r.below(3) {
                    0 => writeln!(w, "read e:{}:{}:all", TYS[t], rq).unwrap(),
                    1 if rq == 0 => writeln!(w, "read c1 c2 c3").unwrap(),
                    1 => writeln!(w, "read e:{}:{}:n8:7 e:{}:{}:all", TYS[t], rq, TYS[t], rq).unwrap(),
                    _ => writeln!(w, "read e:{}:{}:n16:300", TYS[t], rq).unwrap(),
                }
                writeln!(w, "read c1 c2 c3 c0").unwrap();
            }
        }
    }

    // (C) analog values: the whole boundary pool and the powers of two through every analog
    //     variation (static requested + event requested); counters through every counter variation
    let mut all_vals = pool.clone();
    all_vals.extend(&pows);
    let rnd = if thorough { 40000 } else { 3000 };
    for _ in 0..rnd {
        all_vals.push(r.next());
    }
    for t in [5usize, 6] {
        for chunk in all_vals.chunks(200) {
            hdr(w, "values", &format!("ty={}", TYS[t]));
            writeln!(w, "new 300 2048 0").unwrap();
            for (i, b) in chunk.iter().enumerate() {
                let i = i as u16;
                writeln!(w, "add {} {} 1 {} {}", TYS[t], i, *r.pick(svars(t)), *r.pick(evars(t))).unwrap();
                let flags = if r.chance(1, 2) { ONLINE } else { r.next() as u8 };
                writeln!(w, "{}", upd_line(t, i, &format!("{:016x}", b), flags, rand_time(&mut r), true)).unwrap();
            }
            for &ev in evars(t) {
                // every requested event variation over the same recorded events: re-record them
                writeln!(w, "read e:{}:{}:all", TYS[t], ev).unwrap();
                if ev != *evars(t).last().unwrap() {
                    for (i, b) in chunk.iter().enumerate() {
                        let flags = if r.chance(1, 2) { ONLINE } else { r.next() as u8 };
                        writeln!(w, "{}", upd_line(t, i as u16, &format!("{:016x}", b), flags, rand_time(&mut r), true)).unwrap();
                    }
                }
            }
            for &sv in svars(t) {
                writeln!(w, "read s:{}:{}:all", TYS[t], sv).unwrap();
            }
        }
    }
    for t in [3usize, 4] {
        hdr(w, "values", &format!("ty={}", TYS[t]));
        writeln!(w, "new 300 2048 0").unwrap();
        let mut vals: Vec<u64> = COUNTERS.to_vec();
        for _ in 0..100 { vals.push(r.next() & 0xFFFF_FFFF); }
        for (i, v) in vals.iter().enumerate() {
            writeln!(w, "add {} {} 2 {} {}", TYS[t], i, *r.pick(svars(t)), *r.pick(evars(t))).unwrap();
            writeln!(w, "{}", upd_line(t, i as u16, &format!("{}", v), r.next() as u8, rand_time(&mut r), true)).unwrap();
        }
        for &ev in evars(t) {
            writeln!(w, "read e:{}:{}:all", TYS[t], ev).unwrap();
            if ev != *evars(t).last().unwrap() {
                for (i, v) in vals.iter().enumerate() {
                    writeln!(w, "{}", upd_line(t, i as u16, &format!("{}", v), r.next() as u8, rand_time(&mut r), true)).unwrap();
                }
            }
        }
        for &sv in svars(t) {
            writeln!(w, "read s:{}:{}:all", TYS[t], sv).unwrap();
        }
    }

    // (D) events sharing a common-time header: gaps <, =, > 65535, decreasing, mixed quality,
    //     missing times, interleaved with other types / variations
    let n_cto = if thorough { 40000 } else { 3000 };
    for c in 0..n_cto {
        let t = (c % 2) as usize;
        hdr(w, "cto", &format!("ty={}", TYS[t]));
        writeln!(w, "new 100 2048 0").unwrap();
        let other = 5usize;
        for i in 0..4u16 {
            writeln!(w, "add {} {} 1 2 3", TYS[t], i).unwrap();
        }
        writeln!(w, "add {} 9 1 2 2", TYS[t]).unwrap(); // same type, absolute-time variation
        writeln!(w, "add {} 0 1 1 3", TYS[other]).unwrap();
        let n = r.range(1, 40);
        let mut base = match r.below(5) {
            0 => 0,
            1 => TMAX - r.below(200_000),
            2 => *r.pick(&TIMES),
            _ => r.next() & TMAX,
        };
        let mut q = r.chance(2, 3);
        for _ in 0..n {
            // next time relative to the running base
            let style = r.below(16);
            let delta: i128 = match style {
                0 => 65535,
                1 => 65536,
                2 => 65534,
                3 => -(r.range(1, 70000) as i128),
                4 => 0,
                5 => r.range(65537, 200_000) as i128,
                6 => -1,
                7 => 1,
                _ => r.below(30000) as i128,
            };
            let tnew = (base as i128 + delta).clamp(0, TMAX as i128) as u64;
            if r.chance(1, 10) { q = !q; }
            let time = if r.chance(1, 25) { None } else { Some((q, tnew)) };
            if r.chance(1, 2) { base = tnew; }
            let which = r.below(12);
            if which == 0 {
                writeln!(w, "{}", upd_line(other, 0, &format!("{:016x}", *r.pick(&pool)), r.next() as u8, time, true)).unwrap();
            } else if which == 1 {
                writeln!(w, "{}", upd_line(t, 9, &rand_val(&mut r, t, &pool), r.next() as u8, time, true)).unwrap();
            } else {
                let idx = r.below(4) as u16;
                writeln!(w, "{}", upd_line(t, idx, &rand_val(&mut r, t, &pool), r.next() as u8, time, true)).unwrap();
            }
        }
        match r.below(4) {
            0 => writeln!(w, "read c1").unwrap(),
            1 => writeln!(w, "read e:{}:3:all c1", TYS[t]).unwrap(),
            2 => writeln!(w, "read e:{}:0:all", TYS[t]).unwrap(),
            _ => writeln!(w, "read e:{}:0:n8:5 c1", TYS[t]).unwrap(),
        }
        writeln!(w, "read c1 c2 c3").unwrap();
    }

    // (E) index sets: dense and sparse up to 65535; packed formats with islands of non-ONLINE points
    let dense_hi: u32 = if thorough { 65535 } else { 3000 };
    for (t, sv) in [(0usize, 1u8), (1, 1), (2, 1), (5, 4), (3, 6), (0, 2), (5, 1)] {
        hdr(w, "index", &format!("ty={} svar={} dense=1", TYS[t], sv));
        writeln!(w, "new 10 2048 0").unwrap();
        // the packed binary format is run over the full index space in both tiers
        let dense_hi = if t == 0 && sv == 1 { 65535 } else { dense_hi };
        let lo: u32 = if r.chance(1, 2) { 0 } else { 65535 - dense_hi };
        for i in lo..=lo + dense_hi {
            writeln!(w, "add {} {} 0 {} {}", TYS[t], i, sv, evars(t)[0]).unwrap();
            let flags = if r.chance(1, 40) { r.next() as u8 } else if r.chance(1, 2) { ONLINE } else { ONLINE | 0x80 };
            let val = rand_val(&mut r, t, &pool);
            writeln!(w, "{}", upd_line(t, i as u16, &val, flags, None, false)).unwrap();
        }
        writeln!(w, "read s:{}:0:all", TYS[t]).unwrap();
        writeln!(w, "read s:{}:{}:r16:{}-{}", TYS[t], sv, lo + 5, lo + dense_hi - 3).unwrap();
    }
    let n_sparse = if thorough { 2000 } else { 300 };
    for _ in 0..n_sparse {
        let t = r.below(8) as usize;
        let sv = *r.pick(svars(t));
        hdr(w, "index", &format!("ty={} svar={} dense=0", TYS[t], sv));
        writeln!(w, "new 100 2048 1").unwrap();
        let mut idxs: Vec<u16> = vec![0, 255, 256, 65534, 65535];
        for _ in 0..r.range(0, 30) {
            let base = r.next() as u16;
            for k in 0..r.range(1, 6) as u16 { idxs.push(base.wrapping_add(k)); }
        }
        idxs.retain(|_| r.chance(4, 5));
        for &i in &idxs {
            let cls = r.below(4) as u8;
            writeln!(w, "add {} {} {} {} {}", TYS[t], i, cls, sv, *r.pick(evars(t))).unwrap();
            let flags = if r.chance(2, 3) { ONLINE } else { r.next() as u8 };
            let val = rand_val(&mut r, t, &pool);
            writeln!(w, "{}", upd_line(t, i, &val, flags, rand_time(&mut r), r.chance(1, 2))).unwrap();
        }
        let a = r.next() as u16;
        let b = a.saturating_add(r.below(40000) as u16);
        writeln!(w, "read s:{}:0:r16:{}-{} c1 c2", TYS[t], a, b).unwrap();
        writeln!(w, "read c3 c0").unwrap();
        writeln!(w, "read s:{}:{}:r16:65530-65535 s:{}:0:r8:0-255", TYS[t], *r.pick(svars(t)), TYS[t]).unwrap();
    }

    // (F) mixed scenarios: all types, several reads, small event buffers (overflow), count limits
    let n_mixed = if thorough { 30000 } else { 3000 };
    for _ in 0..n_mixed {
        hdr(w, "mixed", "");
        let maxev = *r.pick(&[0u64, 1, 2, 5, 50]);
        writeln!(w, "new {} 2048 {}", maxev, r.below(2)).unwrap();
        let mut have: Vec<(usize, u16)> = Vec::new();
        for _ in 0..r.range(1, 14) {
            let t = r.below(8) as usize;
            let i = if r.chance(1, 2) { r.below(6) as u16 } else { *r.pick(&[255u16, 256, 65535, 1000]) };
            writeln!(w, "add {} {} {} {} {}", TYS[t], i, r.below(4), *r.pick(svars(t)), *r.pick(evars(t))).unwrap();
            have.push((t, i));
        }
        for _ in 0..r.range(1, 5) {
            for _ in 0..r.range(0, 15) {
                let (t, i) = if r.chance(9, 10) { *r.pick(&have) } else { (r.below(8) as usize, r.below(8) as u16) };
                let force = r.chance(2, 3);
                let val = rand_val(&mut r, t, &pool);
                let flags = if r.chance(1, 2) { ONLINE } else { r.next() as u8 };
                writeln!(w, "{}", upd_line(t, i, &val, flags, rand_time(&mut r), force)).unwrap();
            }
            let mut specs = Vec::new();
            for _ in 0..r.range(1, 4) {
                let t = r.below(8) as usize;
                specs.push(match r.below(8) {
                    0 => "c0".to_string(),
                    1 => format!("c{}", r.range(1, 3)),
                    2 => format!("c{}:n{}", r.range(1, 3), r.range(1, 4)),
                    3 => format!("s:{}:{}:all", TYS[t], if t == 7 || r.chance(1, 2) { 0 } else { *r.pick(svars(t)) }),
                    4 => { let a = r.below(6); format!("s:{}:{}:r8:{}-{}", TYS[t], if t == 7 { 0 } else { *r.pick(svars(t)) }, a, a + r.below(250)) }
                    5 => format!("e:{}:{}:all", TYS[t], if t == 7 || r.chance(1, 2) { 0 } else { *r.pick(evars(t)) }),
                    6 => format!("e:{}:{}:n8:{}", TYS[t], if t == 7 { 0 } else { *r.pick(evars(t)) }, r.range(1, 5)),
                    _ => "c1 c2 c3".to_string(),
                });
            }
            writeln!(w, "read {}", specs.join(" ")).unwrap();
        }
        writeln!(w, "read c1 c2 c3 c0").unwrap();
    }
}

// ------------------------------------------------------------------------------------------
fn parse_time(s: &str) -> Option<Option<(bool, u64)>> {
    if s == "-" {
        return Some(None);
    }
    let (q, rest) = s.split_at(1);
    let t: u64 = rest.parse().ok()?;
    match q {
        "s" => Some(Some((true, t))),
        "u" => Some(Some((false, t))),
        _ => None,
    }
}

fn classify(impl_l: &str, exp: &Exp) -> Option<(&'static str, String)> {
    let line = exp.line();
    let iw: Vec<&str> = impl_l.split_whitespace().collect();
    let ew: Vec<&str> = line.split_whitespace().collect();
    match exp {
        Exp::Cto(..) => {
            if impl_l != line {
                return Some(("common_time_header_exactly_when_needed", format!("want `{line}` got `{impl_l}`")));
            }
            None
        }
        Exp::M { ty, val, nan_int, rec_flags, hf, .. } => {
            if iw.len() != 8 || iw[0] != "m" {
                let m = if iw.first() == Some(&"cto") { "common_time_header_exactly_when_needed" } else { "every_point_delivered_once_in_order" };
                return Some((m, format!("want `{line}` got `{impl_l}`")));
            }
            if iw[1] != ew[1] || iw[2] != ew[2] {
                return Some(("every_point_delivered_once_in_order_same_index", format!("want `{line}` got `{impl_l}`")));
            }
            if iw[3] != ew[3] {
                return Some(("variation_requested_or_configured_packed_only_if_online", format!("want `{line}` got `{impl_l}`")));
            }
            if iw[4] != ew[4] {
                return Some(("has_flags_truthful", format!("want `{line}` got `{impl_l}`")));
            }
            let analog = *ty == 5 || *ty == 6;
            let val_ok = val.is_none() || iw[5] == ew[5]
                || (analog && is_nan(u64::from_str_radix(iw[5], 16).unwrap_or(0)) && is_nan(u64::from_str_radix(ew[5], 16).unwrap_or(0)));
            if !val_ok {
                let m = match ty {
                    5 | 6 => "analog_value_exact_or_saturated_never_wrapped",
                    3 | 4 => "counter_value_exact_or_low16",
                    _ => "value_carried",
                };
                return Some((m, format!("want `{line}` got `{impl_l}`")));
            }
            if iw[6] != ew[6] {
                // cause tag of FORMER finding D11 (repaired; a hit is a violation): a NaN put into an integer
                // variation that has a flag octet arrives as 0 with exactly the recorded flags (OVER_RANGE not added)
                let d11 = *nan_int && *hf && rec_flags & OVER_RANGE == 0
                    && iw[6].parse::<u8>().ok() == Some(*rec_flags)
                    && iw[5] == "0000000000000000" && iw[7] == ew[7];
                let m = if analog {
                    if d11 { "analog_over_range_flag_iff_out_of_range cause=D11" } else { "analog_over_range_flag_iff_out_of_range" }
                } else {
                    "flags_carried_not_swapped"
                };
                return Some((m, format!("want `{line}` got `{impl_l}`")));
            }
            if iw[7] != ew[7] {
                return Some(("time_carried_exact", format!("want `{line}` got `{impl_l}`")));
            }
            None
        }
    }
}

pub fn run(ops: &str, out: &mut dyn Write, mon: &mut dyn Write) {
    let rt = runtime();
    let mut stats = Stats::default();
    // panics inside the library are caught by the probe and become `panic` output lines
    std::panic::set_hook(Box::new(|_| {}));
    rt.block_on(tokio::task::unconstrained(async {
        for (hdr, lines) in split_cases(ops) {
            writeln!(out, "{hdr}").unwrap();
            let kind = case_attr(&hdr, "kind").unwrap_or("?").to_string();
            stats.hit(&format!("kind_{kind}"));
            stats.note_case(&lines.join("\n"));
            let mut probe = ConvertProbe::new(100, 2048, false);
            let mut rf = Ref::new(100, false, 2048);
            let mut dead = false;
            for line in &lines {
                let ws: Vec<&str> = line.split_whitespace().collect();
                if dead && !ws.is_empty() && ws[0] != "new" {
                    // the master side panicked earlier in this case: the real master task would be gone
                    writeln!(out, "dead").unwrap();
                    writeln!(out, "ok").unwrap();
                    continue;
                }
                match ws.as_slice() {
                    ["new", maxev, tx, c0] => {
                        dead = false;
                        let (m, t): (u16, usize) = (maxev.parse().unwrap(), tx.parse().unwrap());
                        probe = ConvertProbe::new(m, t, *c0 == "1");
                        rf = Ref::new(m as usize, *c0 == "1", t);
                        writeln!(out, "ok").unwrap();
                    }
                    ["add", ty, idx, class, sv, ev] => {
                        let (idx, class, sv, ev): (u16, u8, u8, u8) = (idx.parse().unwrap(), class.parse().unwrap(), sv.parse().unwrap(), ev.parse().unwrap());
                        match (ty_of(ty), probe.add(ty, idx, class, sv, ev)) {
                            (Some(t), Some(res)) => {
                                writeln!(out, "add {}", u8::from(res)).unwrap();
                                let want = rf.add(t, idx, class, sv, ev);
                                if want != res {
                                    writeln!(mon, "MONITOR-FAIL {hdr} :: point_added_once :: {line}").unwrap();
                                }
                            }
                            _ => writeln!(out, "bad-op").unwrap(),
                        }
                        writeln!(out, "ok").unwrap();
                    }
                    ["upd", ty, idx, val, flags, time, mode, rest @ ..] => {
                        let t = match ty_of(ty) { Some(t) => t, None => { writeln!(out, "bad-op").unwrap(); continue; } };
                        let idx: u16 = idx.parse().unwrap();
                        let flags: u8 = flags.parse().unwrap();
                        let time = parse_time(time).unwrap();
                        let force = *mode == "f";
                        let (res, m) = if t == 7 {
                            let b = unhex(val);
                            (probe.update_octets(idx, &b, force), Meas { val: Val::Oct(b), flags: 0, time: None })
                        } else {
                            let n = if t == 5 || t == 6 { u64::from_str_radix(val, 16).unwrap() } else { val.parse::<u64>().unwrap() };
                            if t == 5 || t == 6 {
                                // self-check of the reference rounding against the host FPU (NaN payloads aside)
                                if let Some(rs) = rest.first().and_then(|x| x.strip_prefix("r=")) {
                                    let rr = u32::from_str_radix(rs, 16).unwrap();
                                    let host = (f64::from_bits(n) as f32).to_bits();
                                    if rr != ref_f64_to_f32(n) || (host != rr && !is_nan(n)) {
                                        writeln!(mon, "MONITOR-FAIL {hdr} :: reference_f32_rounding_self_check :: {line} host {host:08x}").unwrap();
                                    }
                                    stats.hit(if is_nan(n) { "val_nan" } else if f64::from_bits(n).is_infinite() { "val_inf" }
                                        else if f64::from_bits(n).abs() > 2147483647.0 { "val_beyond_i32" }
                                        else if f64::from_bits(n).abs() > 32767.0 { "val_beyond_i16" } else { "val_small" });
                                }
                            }
                            (probe.update(ty, idx, n, flags, time, force), Meas { val: Val::Num(n), flags, time })
                        };
                        writeln!(out, "{res}").unwrap();
                        writeln!(out, "ok").unwrap();
                                        let want = rf.update(t, idx, m, force);
                        stats.hit(&format!("upd_{want}"));
                        if want != res {
                            writeln!(mon, "MONITOR-FAIL {hdr} :: update_creates_event_as_configured :: {line} want {want} got {res}").unwrap();
                        }
                    }
                    ["read", specs @ ..] => {
                        let specs: Option<Vec<Spec>> = specs.iter().map(|s| parse_spec(s)).collect();
                        let specs = match specs { Some(s) => s, None => { writeln!(out, "bad-op").unwrap(); continue; } };
                        let req = encode_specs(&specs);
                        let got = probe.read(&req).await;
                        for l in &got {
                            writeln!(out, "{l}").unwrap();
                        }
                        writeln!(out, "ok").unwrap();
                        let exp = rf.read(&specs, &mut stats);
                        if let Some(pos) = got.iter().position(|l| l == "panic") {
                            // the master side panicked while iterating a received header: nothing after it is
                            // delivered (no known-finding exemption: any such panic violates the property)
                            dead = true;
                            stats.hit("master_panic");
                            for i in 0..pos {
                                if let Some(f) = exp.get(i).and_then(|e| classify(&got[i], e)) {
                                    writeln!(mon, "MONITOR-FAIL {hdr} :: {} :: {line} => {}", f.0, f.1).unwrap();
                                    break;
                                }
                            }
                            writeln!(mon, "MONITOR-FAIL {hdr} :: every_point_delivered_once_in_order :: {line} => master-side panic at delivered line {pos}, due `{}`",
                                exp.get(pos).map(|e| e.line()).unwrap_or_default()).unwrap();
                            continue;
                        }
                        stats.add("measurements_delivered", got.iter().filter(|l| l.starts_with("m ")).count() as u64);
                        // monitors: line by line against the reference, first divergence reported
                        let body: Vec<&String> = got.iter().filter(|l| !l.starts_with("iin2")).collect();
                        let mut fails: Vec<(&'static str, String)> = Vec::new();
                        for (i, e) in exp.iter().enumerate() {
                            match body.get(i) {
                                None => { fails.push(("every_point_delivered_once_in_order", format!("missing `{}` ({} of {} delivered)", e.line(), body.len(), exp.len()))); break; }
                                Some(l) => if let Some(f) = classify(l, e) {
                                    let d11 = f.0.contains("cause=D11");
                                    fails.push(f);
                                    if !d11 { break; }
                                }
                            }
                        }
                        if body.len() > exp.len() && fails.iter().all(|f| f.0.contains("cause=D11")) {
                            fails.push(("nothing_invented", format!("extra `{}`", body[exp.len()])));
                        }
                        if got.last().map(|s| s.as_str()) != Some("iin2 0") {
                            fails.push(("read_accepted", format!("{:?}", got.last())));
                        }
                        // one line per distinct monitor per read
                        let mut seen = std::collections::BTreeSet::new();
                        for (m, d) in fails {
                            if seen.insert(m) {
                                writeln!(mon, "MONITOR-FAIL {hdr} :: {m} :: {line} => {d}").unwrap();
                            }
                        }
                    }
                    [] => {}
                    _ => writeln!(out, "bad-op").unwrap(),
                }
            }
        }
    }));
    stats.dump(mon);
}
