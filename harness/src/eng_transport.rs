//! engines `transport` (C08) and `linkaddr` (C07 link part): the real
//! `transport::real::reader::Reader` (link `Layer` + `Assembler`) and `Writer` over the pipe
//! against the Lean model `Dnp3.Model.Transport` / `Dnp3.Model.LinkLayer`.
//!
//! ops:  new <m|o> <self 0|1> <local> <rx> <d|c> <s|g> | feed <hex> | feed2 <hex>
//!       write <dest> <hex> | reset
//!       seg <src> <dst> <ctrl> <tb> <hex>      monitor input: a data segment that was sent (no output)
//!       want <src> <hex> | wantnone            monitor input: expected delivery of the case
//! out:  frag <id> <src> <bc|-> <hex> | linkmsg <src> req|resp | reply <hex> | err <k> | bytes <hex> | ok
use crate::rng::Rng;
use crate::util::*;
use dnp3::verif_hooks as hooks;
use std::io::Write;

const OUTST: u16 = 1024;
const MASTER: u16 = 1;

/// reference segmenter: link frames for one fragment
fn ref_segment(from_master: bool, src: u16, dst: u16, seq0: u8, frag: &[u8]) -> Vec<(u8, Vec<u8>)> {
    let chunks: Vec<&[u8]> = frag.chunks(249).collect();
    let mut res = Vec::new();
    let mut seq = seq0 & 0x3F;
    for (i, c) in chunks.iter().enumerate() {
        let mut tb = seq;
        if i == 0 {
            tb |= 0x40;
        }
        if i + 1 == chunks.len() {
            tb |= 0x80;
        }
        let _ = (from_master, src, dst);
        res.push((tb, c.to_vec()));
        seq = (seq + 1) & 0x3F;
    }
    res
}

fn data_frame(from_master: bool, src: u16, dst: u16, tb: u8, data: &[u8]) -> Vec<u8> {
    let ctrl = if from_master { 0xC4 } else { 0x44 };
    let mut p = vec![tb];
    p.extend_from_slice(data);
    ref_frame(ctrl, dst, src, &p)
}

fn chunk_stream(r: &mut Rng, s: &[u8]) -> Vec<Vec<u8>> {
    let n = s.len();
    if n == 0 {
        return vec![];
    }
    let mut cuts: Vec<usize> = Vec::new();
    match r.below(4) {
        0 => {}
        1 => {
            let k = r.range(1, 6);
            for _ in 0..k {
                cuts.push(r.range(1, n.max(2) as u64 - 1) as usize);
            }
        }
        2 => {
            let mut p = 0;
            while p < n {
                p += r.range(1, 300) as usize;
                cuts.push(p);
            }
        }
        _ => {
            let mut p = 0;
            while p < n {
                p += r.range(1, 9) as usize;
                cuts.push(p);
            }
        }
    }
    cuts.retain(|c| *c > 0 && *c < n);
    cuts.sort();
    cuts.dedup();
    let mut res = Vec::new();
    let mut prev = 0;
    for c in cuts {
        res.push(s[prev..c].to_vec());
        prev = c;
    }
    res.push(s[prev..].to_vec());
    res
}

struct Gen<'a> {
    w: &'a mut dyn Write,
    case: u64,
}

impl<'a> Gen<'a> {
    fn hdr(&mut self, kind: &str, extra: &str) {
        writeln!(self.w, "# case {} kind={} {}", self.case, kind, extra).unwrap();
        self.case += 1;
    }
    fn line(&mut self, s: &str) {
        writeln!(self.w, "{s}").unwrap();
    }
}

pub fn gen_transport(thorough: bool, seed: u64, w: &mut dyn Write) {
    let mut r = Rng::new(seed);
    let mut g = Gen { w, case: 0 };
    let rxs = [249usize, 250, 497, 498, 2048];
    let seqs = [0u8, 1, 62, 63];

    // (1) every fragment length 1..=2048 (quick: boundary set + stride) x seq0 x rx
    let lens: Vec<usize> = if thorough {
        (1..=2048).collect()
    } else {
        let mut v: Vec<usize> = vec![1, 2, 248, 249, 250, 251, 497, 498, 499, 746, 747, 748, 996, 1245, 1494, 1743, 1992, 1993, 2047, 2048];
        v.extend((1..=2048).step_by(37));
        v
    };
    for &len in &lens {
        let combos: Vec<(u8, usize)> = if thorough {
            seqs.iter().flat_map(|s| rxs.iter().map(move |x| (*s, *x))).collect()
        } else {
            vec![(*r.pick(&seqs), *r.pick(&rxs)), (r.below(64) as u8, 2048)]
        };
        for (seq0, rx) in combos {
            let frag = r.bytes(len);
            let to_master = r.chance(1, 4);
            let (src, dst) = if to_master { (OUTST, MASTER) } else { (MASTER, OUTST) };
            g.hdr("seg", "");
            g.line(&format!("new {} 0 {} {} {} s", if to_master { "m" } else { "o" }, dst, rx, if r.chance(1, 2) { "c" } else { "d" }));
            let mut stream = Vec::new();
            for (tb, data) in ref_segment(!to_master, src, dst, seq0, &frag) {
                g.line(&format!("@seg {} {} {} {} {}", src, dst, if to_master { 0x44 } else { 0xC4 }, tb, hex(&data)));
                stream.extend(data_frame(!to_master, src, dst, tb, &data));
            }
            if len <= rx {
                g.line(&format!("@want {} {}", src, hex(&frag)));
            } else {
                g.line("@wantnone");
            }
            let dbl = r.chance(1, 3);
            for c in chunk_stream(&mut r, &stream) {
                g.line(&format!("{} {}", if dbl { "feed2" } else { "feed" }, hex(&c)));
            }
        }
    }

    // (2) writer correspondence: sequences of writes (sequence number runs on, wraps at 64)
    let n_w = if thorough { 2000 } else { 150 };
    for _ in 0..n_w {
        g.hdr("writer", "");
        let master = r.chance(1, 2);
        g.line(&format!("new {} 0 {} 2048 c s", if master { "m" } else { "o" }, if master { MASTER } else { OUTST }));
        let n = r.range(1, 12);
        for _ in 0..n {
            let len = match r.below(4) {
                0 => *r.pick(&[0usize, 1, 248, 249, 250, 498, 499, 2048]),
                1 => r.range(1, 2048) as usize,
                _ => r.range(1, 600) as usize,
            };
            g.line(&format!("write {} {}", if master { OUTST } else { MASTER }, hex(&r.bytes(len))));
        }
    }

    // (3) damaged segment streams, then a fresh fragment that must arrive intact
    let n_m = if thorough { 60000 } else { 3000 };
    for _ in 0..n_m {
        let rx = *r.pick(&rxs);
        g.hdr("mutate", "");
        g.line(&format!("new o {} {} {} {} s", if r.chance(1, 4) { 1 } else { 0 }, OUTST, rx, if r.chance(1, 2) { "c" } else { "d" }));
        // segments: (src, dst, tb, data)
        let mut segs: Vec<(u16, u16, u8, Vec<u8>)> = Vec::new();
        let nfr = r.range(1, 3);
        for _ in 0..nfr {
            let len = match r.below(3) {
                0 => r.range(1, 249) as usize,
                1 => r.range(250, 800) as usize,
                _ => r.range(1, rx as u64 + 300) as usize,
            };
            let src = if r.chance(1, 5) { 2 } else { MASTER };
            let seq0 = if r.chance(1, 3) { *r.pick(&seqs) } else { r.below(64) as u8 };
            for (tb, d) in ref_segment(true, src, OUTST, seq0, &r.bytes(len)) {
                segs.push((src, OUTST, tb, d));
            }
        }
        // mutations
        let nm = r.range(0, 3);
        for _ in 0..nm {
            if segs.is_empty() {
                break;
            }
            let i = r.below(segs.len() as u64) as usize;
            match r.below(8) {
                0 => {
                    segs.remove(i);
                }
                1 => {
                    let s = segs[i].clone();
                    segs.insert(i, s);
                }
                2 => {
                    let j = r.below(segs.len() as u64) as usize;
                    segs.swap(i, j);
                }
                3 => segs[i].0 = 2 + r.below(3) as u16,
                4 => segs[i].1 = *r.pick(&[0xFFFFu16, 0xFFFE, 0xFFFD, 0xFFFC, 7]),
                5 => segs[i].2 ^= *r.pick(&[0x80u8, 0x40, 0x01, 0x3F]),
                6 => {
                    // broadcast single-segment fragment inserted
                    let n = r.range(1, 20) as usize;
                    let d = r.bytes(n);
                    segs.insert(i, (MASTER, *r.pick(&[0xFFFFu16, 0xFFFE, 0xFFFD]), 0xC0 | (r.below(64) as u8), d));
                }
                _ => {
                    // interleave a second sender's segment
                    let n = r.range(1, 100) as usize;
                    let d = r.bytes(n);
                    segs.insert(i, (3, OUTST, *r.pick(&[0x40u8, 0x00, 0x80, 0xC0]) | (r.below(64) as u8), d));
                }
            }
        }
        // the final fresh fragment
        let flen = r.range(1, rx as u64) as usize;
        let fresh = r.bytes(flen);
        let fseq = r.below(64) as u8;
        for (tb, d) in ref_segment(true, MASTER, OUTST, fseq, &fresh) {
            segs.push((MASTER, OUTST, tb, d));
        }
        let mut stream = Vec::new();
        for (src, dst, tb, d) in &segs {
            g.line(&format!("@seg {} {} {} {} {}", src, dst, 0xC4, tb, hex(d)));
            stream.extend(data_frame(true, *src, *dst, *tb, d));
        }
        g.line(&format!("@want {} {}", MASTER, hex(&fresh)));
        let dbl = r.chance(1, 3);
        for c in chunk_stream(&mut r, &stream) {
            g.line(&format!("{} {}", if dbl { "feed2" } else { "feed" }, hex(&c)));
        }
    }
    gen_sessions(&mut r, &mut g, thorough);
}

/// (4) several sessions on one reader, separated by `reset` (what the tasks do when a session ends): a
/// session may end in the middle of an assembly, the next one may begin with a stray continuation segment
/// carrying exactly the next sequence number (S86) — nothing of the old session may be completed by it
fn gen_sessions(r: &mut Rng, g: &mut Gen, thorough: bool) {
    let rxs = [249usize, 250, 497, 498, 2048];
    let n = if thorough { 20000 } else { 1000 };
    for _ in 0..n {
        let rx = *r.pick(&rxs);
        g.hdr("sessions", "");
        g.line(&format!("new o 0 {} {} {} s", OUTST, rx, if r.chance(1, 2) { "c" } else { "d" }));
        let ns = r.range(2, 4);
        let mut next_seq: Option<u8> = None;
        let mut last: Option<Vec<u8>> = None;
        for si in 0..ns {
            let mut stream = Vec::new();
            let mut segs: Vec<(u16, u8, Vec<u8>)> = Vec::new();
            // a stray continuation of what the previous session left open
            if let Some(sq) = next_seq.take() {
                if r.chance(2, 3) {
                    let fin = if r.chance(1, 2) { 0x80 } else { 0 };
                    let sq = if r.chance(4, 5) { sq } else { (sq + 1) & 0x3F };
                    let n = r.range(1, 100) as usize;
                    segs.push((MASTER, fin | sq, r.bytes(n)));
                }
            }
            // 0..2 complete fragments
            for _ in 0..r.below(3) {
                let len = r.range(1, (rx as u64).min(700)) as usize;
                let f = r.bytes(len);
                let sq0 = r.below(64) as u8;
                for (tb, d) in ref_segment(true, MASTER, OUTST, sq0, &f) {
                    segs.push((MASTER, tb, d));
                }
                last = Some(f);
            }
            // all but the last session end inside a multi-segment fragment
            if si + 1 < ns && r.chance(3, 4) {
                let len = r.range(250, (rx as u64).max(260).min(900)) as usize;
                let (sq0, body) = (r.below(64) as u8, r.bytes(len));
                let all = ref_segment(true, MASTER, OUTST, sq0, &body);
                let keep = r.range(1, (all.len() - 1) as u64) as usize;
                for (tb, d) in all.into_iter().take(keep) {
                    next_seq = Some(((tb & 0x3F) + 1) & 0x3F);
                    segs.push((MASTER, tb, d));
                }
                last = None;
            }
            for (src, tb, d) in &segs {
                g.line(&format!("@seg {} {} {} {} {}", src, OUTST, 0xC4, tb, hex(d)));
                stream.extend(data_frame(true, *src, OUTST, *tb, d));
            }
            for c in chunk_stream(r, &stream) {
                g.line(&format!("feed {}", hex(&c)));
            }
            if si + 1 < ns {
                g.line("@session-end");
                g.line("reset");
            }
        }
        let _ = last;
    }
}

/// C07: exhaustive link-layer addressing table
pub fn gen_linkaddr(thorough: bool, seed: u64, w: &mut dyn Write) {
    let mut r = Rng::new(seed);
    let mut g = Gen { w, case: 0 };
    // both ends of the reserved block 0xFFF0..=0xFFFB and the last ordinary address (S96)
    let dests: [u16; 10] = [OUTST, 77, 0xFFFC, 0xFFFF, 0xFFFE, 0xFFFD, 0xFFF3, 0xFFF0, 0xFFFB, 0xFFEF];
    let srcs: [u16; 7] = [MASTER, 0xFFF1, 0xFFFE, 0xFFFC, 0xFFF0, 0xFFFB, 0xFFEF];
    for role_master in [false, true] {
        for self_addr in [false, true] {
            for sec in 0..3 {
                for (di, &dst0) in dests.iter().enumerate() {
                    for (si, &src0) in srcs.iter().enumerate() {
                        // quick tier: the full 256 control octets for the informative
                        // combinations, a stride elsewhere; thorough: everything
                        let informative = si == 0 || di == 0;
                        let step = if thorough || informative { 1 } else { 5 };
                        let mut ctrl = 0usize;
                        while ctrl < 256 {
                            let local = if role_master { MASTER } else { OUTST };
                            let dst = if dst0 == OUTST { local } else { dst0 };
                            let src = if src0 == MASTER { if role_master { OUTST } else { MASTER } } else { src0 };
                            let peer_dir: u8 = if role_master { 0x00 } else { 0x80 };
                            if role_master && self_addr {
                                // the master has no self-address feature (`Reader::master` passes Disabled)
                                break;
                            }
                            g.hdr("addr", &format!("role={} self={} sec={} dst={} src={} ctrl={}", if role_master { "m" } else { "o" }, self_addr as u8, sec, dst, src, ctrl));
                            g.line(&format!("new {} {} {} 2048 c s", if role_master { "m" } else { "o" }, self_addr as u8, local));
                            let good_src = if role_master { OUTST } else { MASTER };
                            if sec >= 1 {
                                g.line(&format!("feed {}", hex(&ref_frame(peer_dir | 0x40, local, good_src, &[]))));
                            }
                            if sec == 2 {
                                g.line(&format!("feed {}", hex(&ref_frame(peer_dir | 0x73, local, good_src, &[0xC0, 0xAA]))));
                            }
                            // the frame under test: user-data functions carry a payload
                            let f = (ctrl as u8) & 0x4F;
                            let payload: Vec<u8> = if f == 0x43 || f == 0x44 { vec![0xC0 | (r.below(64) as u8), r.next() as u8] } else { vec![] };
                            g.line(&format!("@test {} {} {} {}", ctrl, dst, src, hex(&payload)));
                            g.line(&format!("feed {}", hex(&ref_frame(ctrl as u8, dst, src, &payload))));
                            ctrl += step;
                        }
                    }
                }
            }
        }
    }
    // confirmed-data FCB histories
    let n = if thorough { 20000 } else { 1500 };
    for _ in 0..n {
        g.hdr("fcb", "");
        g.line(&format!("new o 0 {} 2048 c s", OUTST));
        let k = r.range(1, 12);
        for _ in 0..k {
            match r.below(9) {
                0 => g.line(&format!("feed {}", hex(&ref_frame(0xC0, OUTST, MASTER, &[])))),
                1 => g.line("reset"),
                8 => {
                    // a frame with a body that this station ignores (other destination / wrong direction / reserved
                    // source), then user data without a single octet addressed to it (S149)
                    let body = vec![0xC0 | (r.below(64) as u8), 0x55, 0x66];
                    let (c, dst, src) = *r.pick(&[(0xC4u8, 77u16, MASTER), (0x44, OUTST, MASTER), (0xC4, OUTST, 0xFFF5), (0xC4, 0xFFFC, MASTER)]);
                    // both in one read: the link layer skips the first and goes on to the second with the same
                    // payload object
                    let mut both = ref_frame(c, dst, src, &body);
                    both.extend(ref_frame(0xC4, OUTST, MASTER, &[]));
                    g.line(&format!("feed {}", hex(&both)));
                }
                2 | 3 => {
                    // any other link frame in between: only a VALID reset (PRM, right DIR, FCV = 0, to us) may
                    // change the secondary station's state — not one the layer says it ignores (S76)
                    let mut c = if r.chance(1, 2) { *r.pick(&[0xD0u8, 0xF0, 0xE0, 0x40, 0x50, 0x80, 0x00, 0xC2, 0xD2, 0xF2, 0xC9, 0xD9, 0xC4, 0xC4, 0xC4, 0xC4, 0xD4, 0xC1, 0xCB]) } else { r.next() as u8 };
                    if c & 0x4F == 0x43 {
                        c ^= 0x01; // confirmed user data is generated (and annotated) below
                    }
                    let dst = if r.chance(5, 6) { OUTST } else { *r.pick(&[0xFFFFu16, 77, 0xFFFC]) };
                    // user data sometimes without any octet at all (a header-only frame): what is delivered then is
                    // nothing — in particular not the body of an earlier frame that was for someone else (S149)
                    let payload: Vec<u8> = if c & 0x4F == 0x44 && !r.chance(1, 3) { vec![0xC0 | (r.below(64) as u8), 0x55] } else { vec![] };
                    g.line(&format!("feed {}", hex(&ref_frame(c, dst, MASTER, &payload))));
                }
                _ => {
                    let fcb = if r.chance(1, 2) { 0x20 } else { 0 };
                    let dst = if r.chance(1, 6) { 0xFFFF } else { OUTST };
                    let tb = 0xC0 | (r.below(64) as u8);
                    g.line(&format!("@cdata {} {}", fcb != 0, dst));
                    g.line(&format!("feed {}", hex(&ref_frame(0xC3 | 0x10 | fcb, dst, MASTER, &[tb, 0x55]))));
                }
            }
        }
    }
}

pub fn run(ops: &str, out: &mut dyn Write, mon: &mut dyn Write) {
    let rt = runtime();
    let mut stats = Stats::default();
    rt.block_on(tokio::task::unconstrained(async {
        for (hdr, lines) in split_cases(ops) {
            writeln!(out, "{hdr}").unwrap();
            let kind = case_attr(&hdr, "kind").unwrap_or("?").to_string();
            stats.hit(&format!("kind_{kind}"));
            stats.note_case(&lines.join("\n"));
            let mut probe = hooks::TransportProbe::new(false, false, OUTST, 2048, false, false);
            let mut role_master = false;
            let mut self_addr = false;
            let mut local = OUTST;
            let mut rx = 2048usize;
            let mut segs: Vec<(u16, u16, u8, u8, Vec<u8>)> = Vec::new();
            let mut want: Option<Option<(u16, Vec<u8>)>> = None;
            let mut frags: Vec<(u16, String, Vec<u8>)> = Vec::new();
            let mut test: Option<(u8, u16, u16)> = None;
            let mut wseq: u8 = 0;
            // C07 fcb ledger
            let mut sec_reset: Option<bool> = None; // expected fcb when reset
            let mut pending_cdata: Option<(bool, u16)> = None;
            for line in &lines {
                let ws: Vec<&str> = line.split_whitespace().collect();
                match ws.as_slice() {
                    ["new", role, slf, loc, rxs, em, rm] => {
                        role_master = *role == "m";
                        self_addr = *slf == "1";
                        local = loc.parse().unwrap();
                        rx = rxs.parse().unwrap();
                        probe = hooks::TransportProbe::new(role_master, self_addr, local, rx, *em == "d", *rm == "g");
                        writeln!(out, "ok").unwrap();
                    }
                    ["feed", h] | ["feed2", h] => {
                        let evs = probe.feed(&unhex(h), ws[0] == "feed2").await;
                        let is_test = test.is_some();
                        let mut acted = false;
                        let mut replies = Vec::new();
                        let mut delivered_here = 0;
                        for e in &evs {
                            writeln!(out, "{e}").unwrap();
                            let p: Vec<&str> = e.split_whitespace().collect();
                            stats.hit(&format!("out_{}", p[0]));
                            match p[0] {
                                "frag" => {
                                    frags.push((p[2].parse().unwrap(), p[3].to_string(), unhex(p[4])));
                                    acted = true;
                                    delivered_here += 1;
                                }
                                "linkmsg" => acted = true,
                                "reply" => {
                                    acted = true;
                                    replies.push(unhex(p[1]));
                                }
                                _ => {}
                            }
                        }
                        writeln!(out, "ok").unwrap();
                        if let Some((ctrl, dst, src)) = test.take() {
                            addr_monitors(mon, &hdr, role_master, self_addr, local, ctrl, dst, src, acted, &replies, &evs);
                        }
                        let _ = is_test;
                        if let Some((fcb, dst)) = pending_cdata.take() {
                            // confirmed user data delivered iff reset and fcb == expected (then flips)
                            let should = match sec_reset {
                                Some(exp) if exp == fcb => {
                                    sec_reset = Some(!exp);
                                    true
                                }
                                _ => false,
                            };
                            if should != (delivered_here == 1) {
                                writeln!(mon, "MONITOR-FAIL {hdr} :: confirmed_once_per_toggle :: fcb={fcb} dst={dst} delivered={delivered_here}").unwrap();
                            }
                            if dst >= 0xFFFD && !replies.is_empty() {
                                writeln!(mon, "MONITOR-FAIL {hdr} :: broadcast_never_acked :: confirmed data to {dst} acked").unwrap();
                            }
                        } else if kind == "fcb" {
                            // whatever this feed delivered upwards is the body of a frame of THIS feed that the
                            // station accepts as unconfirmed user data (to it or broadcast, from a master, FCV clear)
                            if delivered_here > 0 {
                                let b = unhex(h);
                                let mut bodies: Vec<Vec<u8>> = Vec::new();
                                let mut i = 0;
                                while i + 10 <= b.len() && b[i] == 0x05 && b[i + 1] == 0x64 && b[i + 2] >= 5 {
                                    let dl = b[i + 2] as usize - 5;
                                    let trailer = (dl / 16) * 18 + if dl % 16 == 0 { 0 } else { dl % 16 + 2 };
                                    if i + 10 + trailer > b.len() {
                                        break;
                                    }
                                    let (c, dst, src) = (b[i + 3], u16::from_le_bytes([b[i + 4], b[i + 5]]), u16::from_le_bytes([b[i + 6], b[i + 7]]));
                                    let mut body = Vec::new();
                                    let mut j = i + 10;
                                    let mut left = dl;
                                    while left > 0 {
                                        let n = left.min(16);
                                        body.extend_from_slice(&b[j..j + n]);
                                        j += n + 2;
                                        left -= n;
                                    }
                                    if c & 0xCF == 0xC4 && c & 0x10 == 0 && (dst == local || dst >= 0xFFFD) && src < 0xFFF0 && !body.is_empty() {
                                        bodies.push(body[1..].to_vec());
                                    }
                                    i += 10 + trailer;
                                }
                                for (_, _, data) in frags.iter().rev().take(delivered_here) {
                                    if !bodies.iter().any(|x| x == data) {
                                        writeln!(mon, "MONITOR-FAIL {hdr} :: delivered_data_is_from_accepted_frame :: {} octets delivered that no accepted user-data frame of this read carries", data.len()).unwrap();
                                    }
                                }
                            }
                            // reference: the secondary station is reset by exactly the frames that are a valid
                            // RESET_LINK_STATES from a master to this outstation
                            let b = unhex(h);
                            if b.len() >= 10 {
                                let (c, dst, src) = (b[3], u16::from_le_bytes([b[4], b[5]]), u16::from_le_bytes([b[6], b[7]]));
                                if c & 0xC0 == 0xC0 && c & 0x10 == 0 && c & 0x0F == 0 && dst == local && src < 0xFFF0 {
                                    sec_reset = Some(true);
                                }
                            }
                        }
                    }
                    ["write", dest, h] => {
                        let frag = unhex(h);
                        let dest: u16 = dest.parse().unwrap();
                        match probe.write(dest, &frag).await {
                            Ok(frames) => {
                                let want: Vec<Vec<u8>> = ref_segment(role_master, local, dest, wseq, &frag)
                                    .iter()
                                    .map(|(tb, d)| data_frame(role_master, local, dest, *tb, d))
                                    .collect();
                                wseq = (wseq + want.len() as u8) & 0x3F;
                                if want != frames {
                                    writeln!(mon, "MONITOR-FAIL {hdr} :: writer_segments_as_specified :: len={}", frag.len()).unwrap();
                                }
                                for f in frames {
                                    writeln!(out, "bytes {}", hex(&f)).unwrap();
                                }
                            }
                            Err(e) => writeln!(out, "err {e}").unwrap(),
                        }
                        writeln!(out, "ok").unwrap();
                    }
                    ["reset"] => {
                        probe.reset();
                        wseq = 0;
                        sec_reset = None;
                        writeln!(out, "ok").unwrap();
                    }
                    ["@seg", s, d, c, tb, h] => segs.push((s.parse().unwrap(), d.parse().unwrap(), c.parse().unwrap(), tb.parse().unwrap(), unhex(h))),
                    ["@want", s, h] => want = Some(Some((s.parse().unwrap(), unhex(h)))),
                    ["@wantnone"] => want = Some(None),
                    // the end of a session: no run of segments continues across it (a sentinel no run can join)
                    ["@session-end"] => segs.push((0xFFEF, local, 0xC4, 0xC0, Vec::new())),
                    ["@test", c, d, s, _p] => test = Some((c.parse().unwrap(), d.parse().unwrap(), s.parse().unwrap())),
                    ["@cdata", fcb, dst] => pending_cdata = Some((*fcb == "true", dst.parse().unwrap())),
                    [] => {}
                    _ => writeln!(out, "bad-op").unwrap(),
                }
            }
            // C08 monitors
            if kind == "seg" || kind == "mutate" || kind == "sessions" {
                // (a) every delivered fragment is a contiguous FIR..FIN run of accepted segments
                let acc: Vec<&(u16, u16, u8, u8, Vec<u8>)> = segs
                    .iter()
                    .filter(|s| {
                        let d = s.1;
                        // a non-FIR broadcast segment is always ignored by the assembler (it neither
                        // joins nor resets a run), so it is not part of the accepted history
                        let ignored_bc = d >= 0xFFFD && s.3 & 0x40 == 0;
                        !ignored_bc && s.0 < 0xFFF0 && (d == local || (d == 0xFFFC && self_addr) || (d >= 0xFFFD && !role_master))
                    })
                    .collect();
                for (src, bc, data) in &frags {
                    let mut ok = false;
                    'outer: for i in 0..acc.len() {
                        if acc[i].3 & 0x40 == 0 {
                            continue;
                        }
                        let mut buf: Vec<u8> = Vec::new();
                        let mut seq = acc[i].3 & 0x3F;
                        for j in i..acc.len() {
                            let s = acc[j];
                            if j > i && (s.3 & 0x40 != 0 || s.3 & 0x3F != seq) {
                                break;
                            }
                            if s.0 != acc[i].0 || (s.1 >= 0xFFFD) != (acc[i].1 >= 0xFFFD) {
                                break;
                            }
                            buf.extend(&s.4);
                            if buf.len() > rx {
                                break;
                            }
                            if s.3 & 0x80 != 0 {
                                let is_bc = s.1 >= 0xFFFD;
                                if &buf == data && s.0 == *src && (is_bc == (bc != "-")) && (!is_bc || j == i) {
                                    ok = true;
                                    break 'outer;
                                }
                                break;
                            }
                            seq = (seq + 1) & 0x3F;
                        }
                    }
                    if !ok {
                        writeln!(mon, "MONITOR-FAIL {hdr} :: delivered_fragment_is_contiguous_run :: src={src} len={}", data.len()).unwrap();
                    }
                }
                // (b) the fresh / only fragment arrives intact (or nothing when it exceeds the buffer)
                match &want {
                    Some(Some((src, data))) => {
                        let ok = frags.last().map(|f| f.0 == *src && &f.2 == data && f.1 == "-").unwrap_or(false);
                        if !ok {
                            writeln!(mon, "MONITOR-FAIL {hdr} :: well_formed_fragment_delivered_intact :: len={}", data.len()).unwrap();
                        }
                    }
                    Some(None) => {
                        if !frags.is_empty() {
                            writeln!(mon, "MONITOR-FAIL {hdr} :: oversize_fragment_not_delivered :: delivered={}", frags.len()).unwrap();
                        }
                    }
                    None => {}
                }
            }
        }
    }));
    stats.dump(mon);
}

#[allow(clippy::too_many_arguments)]
fn addr_monitors(
    mon: &mut dyn Write,
    hdr: &str,
    role_master: bool,
    self_addr: bool,
    local: u16,
    ctrl: u8,
    dst: u16,
    src: u16,
    acted: bool,
    replies: &[Vec<u8>],
    evs: &[String],
) {
    let from_master = ctrl & 0x80 != 0;
    let func = ctrl & 0x4F;
    let fcv = ctrl & 0x10 != 0;
    let is_bc = dst >= 0xFFFD;
    let addressed = dst == local || (dst == 0xFFFC && self_addr) || (is_bc && !role_master && (func == 0x43 || func == 0x44));
    let allowed = from_master != role_master && src < 0xFFF0 && addressed;
    if acted && !allowed {
        writeln!(mon, "MONITOR-FAIL {hdr} :: acts_only_if_addressed :: {}", evs.join(" | ")).unwrap();
    }
    if is_bc && !replies.is_empty() {
        writeln!(mon, "MONITOR-FAIL {hdr} :: broadcast_never_acked :: {}", evs.join(" | ")).unwrap();
    }
    if allowed && !is_bc && func == 0x49 && !fcv {
        // request link status: answered with LINK_STATUS (0x0B) to the source, dir bit = ours
        let want = ref_frame(if role_master { 0x80 } else { 0x00 } | 0x0B, src, local, &[]);
        if replies.len() != 1 || replies[0] != want {
            writeln!(mon, "MONITOR-FAIL {hdr} :: link_status_answered :: {}", evs.join(" | ")).unwrap();
        }
    }
}
