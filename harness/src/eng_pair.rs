//! engine `pair`: the REAL `MasterTask` and the REAL `OutstationTask`, each behind the library's
//! real link layer and transport over its own in-memory pipe, on one paused clock.  The harness
//! is the wire between the two pipes: it forwards the octets one side wrote to the other side
//! when they are due (per-direction delay, hold, explicit octet-granular delivery, re-chunking),
//! and can cut the connection.  It is also the only scheduler: after every stimulus both tasks
//! run to quiescence.  Lean model: `Dnp3.Pair` (composition of the two session models).
//!
//! ops:  cfg k=v ...        outstation: sol unsol rx unsolicited retries ctimeout stimeout rdelay evmax discard maxctl
//!                          master/association: mtx rto dis int en ts(none|lan|nonlan|direct) ovf evscan rmin rmax maxq
//!                          wire: mclock=<ms|none> dm2o=<ms> do2m=<ms> chunk=<n> merge=<0|1> (1: engine `pairmerge`, search only)
//!       addbin <i> <cls> | addan <i> <cls> | addmany bin|an <start> <count> <cls> | txn <item>...
//!       tick <ms>                        advance the virtual clock (stops at every instant something is due)
//!       delay m2o|o2m <ms>               one-way delay given to octets written from now on
//!       chunk <n>                        the relay forwards in pieces of n octets (0 = whole batches)
//!       hold m2o|o2m on|off              hold back everything written from now on / release it
//!       deliver m2o|o2m <n>|all          forward the next n octets now, whatever their due time
//!       cut                              both sides see EOF, octets in flight are lost, reconnect
//!       mclock <ms|none>                 master clock = value + virtual time
//!       procdelay <ms> | appiin <bits> | timeres <n> | restart <n> | ctl <s,s,..>    outstation application script
//!       timesync <id> lan|nonlan|direct | read <id> <classes> | cmd <id> do|sbo <hex> | addpoll <period> <classes> | demand <k>
//!       inject m2o|o2m <src> <dst> <hex> the relay inserts a fragment of its own
//! out:  `m <line of engine master>` | `o <line of engine outstation>` | `t <ms>` | `d m2o|o2m <items>` | ok
use crate::eng_master as em;
use crate::eng_outstation as eo;
use crate::util::*;
use dnp3::app::*;
use dnp3::link::EndpointAddress;
use dnp3::master::*;
use dnp3::outstation::database::*;
use dnp3::outstation::OutstationHandle;
use std::collections::VecDeque;
use std::io::Write;
use std::sync::{Arc, Mutex};
use std::time::Duration;
use tokio::io::DuplexStream;

pub const OUTSTATION: u16 = 1024;
pub const MASTER: u16 = 1;
const PUMP_FUEL: usize = 400;
const TICK_FUEL: usize = 200;

struct Clock {
    base: Arc<Mutex<Option<u64>>>,
    start: tokio::time::Instant,
}
impl AssociationHandler for Clock {
    fn get_current_time(&self) -> Option<Timestamp> {
        let el = (tokio::time::Instant::now() - self.start).as_millis() as u64;
        self.base.lock().unwrap().map(|b| Timestamp::new(b.saturating_add(el).min(Timestamp::MAX_VALUE)))
    }
}

struct Item {
    due: Option<u64>,
    bytes: Vec<u8>,
}

#[derive(Default)]
struct Dir {
    delay: u64,
    hold: bool,
    consumed: usize,
    q: VecDeque<Item>,
}

impl Dir {
    fn octets(&self) -> usize {
        self.q.iter().map(|i| i.bytes.len()).sum()
    }
    fn due_count(&self, now: u64) -> usize {
        let mut k = 0;
        for it in &self.q {
            match it.due {
                Some(t) if t <= now => k += 1,
                _ => break,
            }
        }
        k
    }
    /// octets [consumed, upto) of the concatenated queue, one segment per item touched (the relay
    /// never merges the end of one item and the start of the next into one write: the receiving
    /// task then runs between two fragments, as in the fragment-level model); pops the items completed
    fn take(&mut self, upto: usize) -> (Vec<Vec<u8>>, usize) {
        let mut segs = Vec::new();
        let mut pos = 0usize;
        for it in &self.q {
            let (a, b) = (pos, pos + it.bytes.len());
            let lo = self.consumed.max(a);
            let hi = upto.min(b);
            if lo < hi {
                segs.push(it.bytes[lo - a..hi - a].to_vec());
            }
            pos = b;
        }
        let mut c = upto;
        let mut n = 0;
        while let Some(it) = self.q.front() {
            if it.bytes.len() <= c {
                c -= it.bytes.len();
                self.q.pop_front();
                n += 1;
            } else {
                break;
            }
        }
        self.consumed = if self.q.is_empty() { 0 } else { c };
        (segs, n)
    }
}

/// splits the octet stream one endpoint writes into wire items: one per application fragment
/// (all the link frames of its transport segments) or per header-only link frame
#[derive(Default)]
struct Decoder {
    buf: Vec<u8>,
    asm: Vec<u8>,
    asm_bytes: Vec<u8>,
}

impl Decoder {
    fn feed(&mut self, bytes: &[u8], lines: &mut Vec<String>, items: &mut Vec<Vec<u8>>) {
        self.buf.extend_from_slice(bytes);
        let mut i = 0;
        while i + 10 <= self.buf.len() {
            let b = &self.buf;
            let dl = (b[i + 2] as usize).saturating_sub(5);
            let trailer = (dl / 16) * 18 + if dl % 16 == 0 { 0 } else { dl % 16 + 2 };
            if i + 10 + trailer > b.len() {
                break;
            }
            let frame = b[i..i + 10 + trailer].to_vec();
            let ctrl = b[i + 3];
            let dst = u16::from_le_bytes([b[i + 4], b[i + 5]]);
            let src = u16::from_le_bytes([b[i + 6], b[i + 7]]);
            let mut payload = Vec::new();
            for blk in b[i + 10..i + 10 + trailer].chunks(18) {
                payload.extend_from_slice(&blk[..blk.len() - 2]);
            }
            if ref_frame(ctrl, dst, src, &payload) != frame {
                lines.push(format!("txbad {}", hex(&frame)));
                items.push(frame);
            } else if ctrl & 0x4F == 0x44 && !payload.is_empty() {
                let tb = payload[0];
                if tb & 0x40 != 0 {
                    self.asm.clear();
                    self.asm_bytes.clear();
                }
                self.asm.extend_from_slice(&payload[1..]);
                self.asm_bytes.extend_from_slice(&frame);
                if tb & 0x80 != 0 {
                    lines.push(format!("tx {} {}", dst, hex(&self.asm)));
                    items.push(std::mem::take(&mut self.asm_bytes));
                    self.asm.clear();
                }
            } else {
                lines.push(format!("txlink {ctrl} {dst} {src}"));
                items.push(frame);
            }
            i += 10 + trailer;
        }
        self.buf.drain(..i);
    }
    fn reset(&mut self) {
        self.buf.clear();
        self.asm.clear();
        self.asm_bytes.clear();
    }
}

pub struct Pair {
    // outstation
    osh: eo::Shared,
    ohandle: OutstationHandle,
    opeer: Option<DuplexStream>,
    opipe_tx: tokio::sync::mpsc::UnboundedSender<DuplexStream>,
    otask: tokio::task::JoinHandle<()>,
    opanicked: bool,
    odec: Decoder,
    // master
    msh: em::Shared,
    _mchan: MasterChannel,
    assoc: Option<AssociationHandle>,
    polls: Vec<PollHandle>,
    mpeer: Option<DuplexStream>,
    mpipe_tx: tokio::sync::mpsc::UnboundedSender<DuplexStream>,
    mtask: tokio::task::JoinHandle<()>,
    mpanicked: bool,
    mexited: bool,
    mdec: Decoder,
    base: Arc<Mutex<Option<u64>>>,
    // wire
    m2o: Dir,
    o2m: Dir,
    chunk: usize,
    /// search-only variant: the relay may put the end of one fragment and the start of the next into
    /// one write (the fragment-level model has no counterpart for the resulting order of handling)
    merge: bool,
    now: u64,
}

fn group_of(o: &str) -> u8 {
    if o.starts_with("tx") {
        2
    } else if o.starts_with("complete ") || o.starts_with("assoc ") || o.starts_with("poll ") {
        1
    } else {
        0
    }
}

fn canon_m(outs: Vec<String>) -> Vec<String> {
    let mut all = Vec::new();
    for g in 0..3u8 {
        for o in &outs {
            if group_of(o) == g {
                all.push(format!("m {o}"));
            }
        }
    }
    all
}

fn canon_o(outs: Vec<String>) -> Vec<String> {
    if outs.iter().any(|l| l == "panic") {
        return vec!["o panic".to_string()];
    }
    let (cbs, txs): (Vec<String>, Vec<String>) = outs.into_iter().partition(|l| !l.starts_with("tx"));
    cbs.into_iter().chain(txs).map(|l| format!("o {l}")).collect()
}

const OKEYS: [&str; 11] = ["sol", "unsol", "rx", "unsolicited", "retries", "ctimeout", "stimeout", "rdelay", "evmax", "discard", "maxctl"];

impl Pair {
    /// returns the station and the output lines of `cfg`
    pub async fn new(ws: &[&str]) -> (Pair, Vec<String>) {
        let okv: Vec<&str> = ws.iter().copied().filter(|w| OKEYS.iter().any(|k| w.split_once('=').map(|x| x.0) == Some(*k))).collect();
        let ocfg = eo::Cfg::parse(&okv);
        // --- outstation
        let osh = eo::Shared::default();
        let (mut op, ohandle) = dnp3::verif_hooks::outstation_probe::create_outstation(
            ocfg.to_config(),
            ocfg.discard,
            Box::new(eo::App(osh.clone())),
            Box::new(eo::Info(osh.clone())),
            Box::new(eo::Ctl(osh.clone())),
        );
        let (opipe_tx, mut opipe_rx) = tokio::sync::mpsc::unbounded_channel::<DuplexStream>();
        let sh = osh.clone();
        let otask = tokio::spawn(async move {
            while let Some(pipe) = opipe_rx.recv().await {
                let reason = op.run_session(pipe).await;
                sh.log.lock().unwrap().push(format!("session {reason}"));
            }
        });
        // --- master
        let msh = em::Shared::default();
        let mut mcfg = MasterChannelConfig::new(EndpointAddress::try_new(MASTER).unwrap());
        mcfg.tx_buffer_size = BufferSize::new(em::kv_u64(ws, "mtx", 2048) as usize).unwrap();
        mcfg.decode_level = dnp3::decode::DecodeLevel::nothing();
        let (mut mp, mchan) = dnp3::verif_hooks::master_probe::create_master(mcfg, true);
        let (mpipe_tx, mut mpipe_rx) = tokio::sync::mpsc::unbounded_channel::<DuplexStream>();
        let sh = msh.clone();
        let mtask = tokio::spawn(async move {
            let mut log = move |s: String| sh.push(s);
            mp.run(&mut mpipe_rx, &mut log).await;
        });
        let base = Arc::new(Mutex::new(em::kv(ws, "mclock").and_then(|v| v.parse::<u64>().ok())));
        let mut p = Pair {
            osh, ohandle, opeer: None, opipe_tx, otask, opanicked: false, odec: Decoder::default(),
            msh, _mchan: mchan.clone(), assoc: None, polls: Vec::new(), mpeer: None, mpipe_tx, mtask, mpanicked: false, mexited: false,
            mdec: Decoder::default(), base,
            m2o: Dir { delay: em::kv_u64(ws, "dm2o", 0), ..Default::default() },
            o2m: Dir { delay: em::kv_u64(ws, "do2m", 0), ..Default::default() },
            chunk: em::kv_u64(ws, "chunk", 0) as usize,
            merge: em::kv_u64(ws, "merge", 0) == 1,
            now: 0,
        };
        let mut out = Vec::new();
        // 1. the outstation's first session
        p.connect_o();
        let (_, o) = p.quiesce().await;
        out.extend(canon_o(o));
        // 2. the master gets its connection
        p.connect_m();
        let (m, _) = p.quiesce().await;
        out.extend(canon_m(m));
        // 3. the association
        let acfg = em::assoc_config(ws);
        let mut mc = mchan;
        let sh = p.msh.clone();
        let clock = Clock { base: p.base.clone(), start: tokio::time::Instant::now() };
        tokio::spawn(async move {
            let r = mc
                .add_association(
                    EndpointAddress::try_new(OUTSTATION).unwrap(),
                    acfg,
                    Box::new(em::RH { who: format!("{OUTSTATION}"), sh: sh.clone() }),
                    Box::new(clock),
                    Box::new(em::AI { addr: OUTSTATION, sh: sh.clone() }),
                )
                .await;
            match r {
                Ok(h) => {
                    sh.new_assoc.lock().unwrap().push((OUTSTATION, h));
                    sh.push("assoc ok".to_string());
                }
                Err(e) => sh.push(format!("assoc err {e:?}")),
            }
        });
        let (m, _) = p.quiesce().await;
        out.extend(canon_m(m));
        p.pump(&mut out).await;
        (p, out)
    }

    fn connect_o(&mut self) {
        let (a, b) = tokio::io::duplex(1 << 20);
        self.opeer = Some(b);
        self.odec.reset();
        let _ = self.opipe_tx.send(a);
    }

    fn connect_m(&mut self) {
        let (a, b) = tokio::io::duplex(1 << 20);
        self.mpeer = Some(b);
        self.mdec.reset();
        let _ = self.mpipe_tx.send(a);
    }

    fn enqueue(dir: &mut Dir, now: u64, items: Vec<Vec<u8>>) {
        for bytes in items {
            let due = if dir.hold { None } else { Some(now + dir.delay) };
            dir.q.push_back(Item { due, bytes });
        }
    }

    /// let both tasks run until nothing changes any more; what they wrote enters the wire.
    /// returns the raw (not yet canonically ordered) lines of the master and of the outstation
    async fn quiesce(&mut self) -> (Vec<String>, Vec<String>) {
        use tokio::io::AsyncReadExt;
        let mut idle = 0;
        let mut total = 0;
        let mut buf = [0u8; 8192];
        let mut mbytes: Vec<u8> = Vec::new();
        let mut obytes: Vec<u8> = Vec::new();
        let mut last = (self.msh.log.lock().unwrap().len(), self.osh.log.lock().unwrap().len());
        while idle < 8 && total < 20000 {
            tokio::task::yield_now().await;
            total += 1;
            let mut changed = false;
            if let Some(peer) = self.mpeer.as_mut() {
                loop {
                    match dnp3::verif_hooks::poll_once(peer.read(&mut buf)).await {
                        Some(Ok(n)) if n > 0 => {
                            mbytes.extend_from_slice(&buf[..n]);
                            changed = true;
                        }
                        _ => break,
                    }
                }
            }
            if let Some(peer) = self.opeer.as_mut() {
                loop {
                    match dnp3::verif_hooks::poll_once(peer.read(&mut buf)).await {
                        Some(Ok(n)) if n > 0 => {
                            obytes.extend_from_slice(&buf[..n]);
                            changed = true;
                        }
                        _ => break,
                    }
                }
            }
            let l = (self.msh.log.lock().unwrap().len(), self.osh.log.lock().unwrap().len());
            if l != last {
                last = l;
                changed = true;
            }
            if changed { idle = 0 } else { idle += 1 }
        }
        let mut m: Vec<String> = std::mem::take(&mut *self.msh.log.lock().unwrap());
        let mut o: Vec<String> = std::mem::take(&mut *self.osh.log.lock().unwrap());
        if m.iter().any(|x| x == "task-exit") {
            self.mexited = true;
        }
        if !self.mpanicked && !self.mexited && self.mtask.is_finished() {
            self.mpanicked = true;
            m.push("panic".to_string());
        }
        if !self.opanicked && self.otask.is_finished() {
            self.opanicked = true;
            o.push("panic".to_string());
        }
        if total >= 20000 {
            m.push("stall".to_string());
        }
        if m.iter().any(|x| x.starts_with("session ")) {
            self.mpeer = None;
        }
        for (_, h) in self.msh.new_assoc.lock().unwrap().drain(..) {
            self.assoc = Some(h);
        }
        for (_, h) in self.msh.new_poll.lock().unwrap().drain(..) {
            let k = self.polls.len();
            self.polls.push(h);
            for x in m.iter_mut() {
                if x == "poll ok" {
                    *x = format!("poll {k}");
                }
            }
        }
        let mut items = Vec::new();
        self.mdec.feed(&mbytes, &mut m, &mut items);
        Self::enqueue(&mut self.m2o, self.now, items);
        let mut items = Vec::new();
        self.odec.feed(&obytes, &mut o, &mut items);
        Self::enqueue(&mut self.o2m, self.now, items);
        (m, o)
    }

    /// write octets to one endpoint in pieces of `chunk` (never across an item boundary), both
    /// tasks running after every piece
    async fn forward(&mut self, to_o: bool, segs: &[Vec<u8>]) -> (Vec<String>, Vec<String>) {
        use tokio::io::AsyncWriteExt;
        let mut m = Vec::new();
        let mut o = Vec::new();
        let mut pieces: Vec<&[u8]> = Vec::new();
        let joined: Vec<Vec<u8>> = if self.merge { vec![segs.concat()] } else { Vec::new() };
        let segs: &[Vec<u8>] = if self.merge { &joined } else { segs };
        for seg in segs {
            if self.chunk == 0 {
                pieces.push(seg);
            } else {
                pieces.extend(seg.chunks(self.chunk));
            }
        }
        if pieces.is_empty() {
            pieces.push(&[]);
        }
        for piece in pieces {
            if !piece.is_empty() {
                let peer = if to_o { self.opeer.as_mut() } else { self.mpeer.as_mut() };
                if let Some(peer) = peer {
                    let _ = peer.write_all(piece).await;
                }
            }
            let (a, b) = self.quiesce().await;
            m.extend(a);
            o.extend(b);
        }
        (m, o)
    }

    /// one delivery action: `d <dir> <items>`, then the receiving endpoint's lines
    async fn deliver_action(&mut self, to_o: bool, segs: Vec<Vec<u8>>, n: usize, out: &mut Vec<String>) {
        let (m, o) = self.forward(to_o, &segs).await;
        out.push(format!("d {} {n}", if to_o { "m2o" } else { "o2m" }));
        if to_o {
            out.extend(canon_o(o));
            // the master had no stimulus: anything it did belongs to this activation all the same
            out.extend(canon_m(m));
        } else {
            out.extend(canon_m(m));
            out.extend(canon_o(o));
        }
    }

    async fn pump(&mut self, out: &mut Vec<String>) {
        let mut fuel = PUMP_FUEL;
        loop {
            if fuel == 0 {
                out.push("pair-fuel-exhausted".to_string());
                return;
            }
            fuel -= 1;
            let k = self.m2o.due_count(self.now);
            if k > 0 {
                let upto: usize = self.m2o.q.iter().take(k).map(|i| i.bytes.len()).sum();
                let (bytes, n) = self.m2o.take(upto);
                self.deliver_action(true, bytes, n, out).await;
                continue;
            }
            let k = self.o2m.due_count(self.now);
            if k > 0 {
                let upto: usize = self.o2m.q.iter().take(k).map(|i| i.bytes.len()).sum();
                let (bytes, n) = self.o2m.take(upto);
                self.deliver_action(false, bytes, n, out).await;
                continue;
            }
            return;
        }
    }

    fn next_due(&self) -> Option<u64> {
        let a = self.m2o.q.front().and_then(|i| i.due);
        let b = self.o2m.q.front().and_then(|i| i.due);
        match (a, b) {
            (Some(a), Some(b)) => Some(a.min(b)),
            (Some(a), None) => Some(a),
            (None, b) => b,
        }
    }

    async fn advance(&mut self, d: u64, out: &mut Vec<String>) {
        tokio::time::advance(Duration::from_millis(d)).await;
        self.now += d;
        let (m, o) = self.quiesce().await;
        out.push(format!("t {}", self.now));
        out.extend(canon_m(m));
        out.extend(canon_o(o));
    }

    async fn tick(&mut self, ms: u64, out: &mut Vec<String>) {
        let target = self.now + ms;
        let mut fuel = TICK_FUEL;
        loop {
            if fuel == 0 {
                out.push("pair-fuel-exhausted".to_string());
                return;
            }
            fuel -= 1;
            match self.next_due().filter(|t| *t <= target) {
                Some(t) => {
                    let d = t.saturating_sub(self.now);
                    self.advance(d, out).await;
                    self.pump(out).await;
                }
                None => {
                    if target > self.now {
                        let d = target - self.now;
                        self.advance(d, out).await;
                        self.pump(out).await;
                    }
                    return;
                }
            }
        }
    }

    async fn cut(&mut self, out: &mut Vec<String>) {
        self.m2o.q.clear();
        self.m2o.consumed = 0;
        self.o2m.q.clear();
        self.o2m.consumed = 0;
        self.mpeer = None;
        self.opeer = None;
        let (m1, mut o) = self.quiesce().await;
        // whatever was written while the connection went down is lost
        self.m2o.q.clear();
        self.o2m.q.clear();
        self.connect_o();
        let (m1b, o2) = self.quiesce().await;
        o.extend(o2);
        let mut m1 = m1;
        m1.extend(m1b);
        out.extend(canon_m(m1));
        out.extend(canon_o(o));
        if !self.mexited && !self.mpanicked {
            self.connect_m();
        }
        let (m2, o3) = self.quiesce().await;
        out.extend(canon_m(m2));
        out.extend(canon_o(o3));
        self.pump(out).await;
    }

    fn add_point(&mut self, bin: bool, idx: u16, class: u8) -> bool {
        let cls = match class {
            1 => Some(EventClass::Class1),
            2 => Some(EventClass::Class2),
            3 => Some(EventClass::Class3),
            _ => None,
        };
        self.ohandle.transaction(|db| {
            if bin {
                db.add(idx, cls, BinaryInputConfig { s_var: StaticBinaryInputVariation::Group1Var2, e_var: EventBinaryInputVariation::Group2Var1 })
            } else {
                db.add(idx, cls, AnalogInputConfig { s_var: StaticAnalogInputVariation::Group30Var1, e_var: EventAnalogInputVariation::Group32Var1, deadband: 0.0 })
            }
        })
    }

    fn txn(&mut self, items: &[&str]) -> Option<Vec<String>> {
        use dnp3::app::measurement::*;
        // validate first: a malformed item makes the whole op a `bad-op`
        let mut parsed = Vec::new();
        for it in items {
            let p: Vec<&str> = it.split(':').collect();
            if p.len() != 5 || !(p[0] == "bin" || p[0] == "an") {
                return None;
            }
            let idx: u16 = p[1].parse().ok()?;
            let v: i64 = p[2].parse().ok()?;
            let flags: u8 = p[3].parse().ok()?;
            let time: u64 = if p[4] == "-" { 0 } else { p[4].parse().ok()? };
            parsed.push((p[0] == "bin", idx, v, flags, time));
        }
        let mut res = Vec::new();
        self.ohandle.transaction(|db| {
            for (bin, idx, v, flags, time) in &parsed {
                let t = Time::Synchronized(Timestamp::new(*time));
                let info = if *bin {
                    db.update2(*idx, &BinaryInput::new(*v == 1, Flags::new(*flags), t), UpdateOptions::detect_event())
                } else {
                    db.update2(*idx, &AnalogInput::new(*v as f64, Flags::new(*flags), t), UpdateOptions::detect_event())
                };
                res.push(match info {
                    UpdateInfo::NoPoint => "upd nopoint".to_string(),
                    UpdateInfo::NoEvent => "upd noevent".to_string(),
                    UpdateInfo::Created(id) => format!("upd created {id}"),
                    UpdateInfo::Overflow { created, discarded } => format!("upd overflow {created} {discarded}"),
                });
            }
        });
        Some(res)
    }

    /// outstation-side op: direct lines, then the task's reaction, then the wire
    async fn o_op(&mut self, direct: Vec<String>, out: &mut Vec<String>) {
        let (m, o) = self.quiesce().await;
        let mut all = direct;
        all.extend(o);
        out.extend(canon_o(all));
        out.extend(canon_m(m));
        self.pump(out).await;
    }

    async fn m_op(&mut self, out: &mut Vec<String>) {
        let (m, o) = self.quiesce().await;
        out.extend(canon_m(m));
        out.extend(canon_o(o));
        self.pump(out).await;
    }

    fn user(&mut self, ws: &[&str]) -> bool {
        let mut h = match self.assoc.as_ref() {
            Some(h) => h.clone(),
            None => return false,
        };
        let sh = self.msh.clone();
        match ws {
            ["timesync", id, p] => {
                let id: u64 = match id.parse() { Ok(x) => x, Err(_) => return false };
                let p = match *p {
                    "lan" => TimeSyncProcedure::Lan,
                    "nonlan" => TimeSyncProcedure::NonLan,
                    "direct" => TimeSyncProcedure::DirectWriteAbsTime,
                    _ => return false,
                };
                tokio::spawn(async move {
                    let r = h.synchronize_time(p).await;
                    sh.push(format!("complete {id} {}", match r { Ok(()) => "ok".to_string(), Err(e) => em::ts_err(e) }));
                });
            }
            ["read", id, c] => {
                let (id, c): (u64, u64) = match (id.parse(), c.parse()) { (Ok(a), Ok(b)) => (a, b), _ => return false };
                tokio::spawn(async move {
                    let r = h.read(ReadRequest::class_scan(em::classes(c))).await;
                    sh.push(format!("complete {id} {}", match r { Ok(()) => "ok".to_string(), Err(e) => format!("err {}", em::task_err(e)) }));
                });
            }
            ["cmd", id, kind, o] if *kind == "do" || *kind == "sbo" => {
                let id: u64 = match id.parse() { Ok(x) => x, Err(_) => return false };
                if o.len() % 2 != 0 || !o.bytes().all(|c| c.is_ascii_hexdigit()) {
                    return false;
                }
                let hs = match em::command_headers(&unhex(o)) { Some(x) => x, None => return false };
                let mode = if *kind == "do" { CommandMode::DirectOperate } else { CommandMode::SelectBeforeOperate };
                tokio::spawn(async move {
                    let r = h.operate(mode, hs).await;
                    sh.push(format!("complete {id} {}", match r { Ok(()) => "ok".to_string(), Err(e) => em::cmd_err(e) }));
                });
            }
            ["addpoll", period, c] => {
                let (period, c): (u64, u64) = match (period.parse(), c.parse()) { (Ok(a), Ok(b)) => (a, b), _ => return false };
                tokio::spawn(async move {
                    match h.add_poll(ReadRequest::class_scan(em::classes(c)), Duration::from_millis(period)).await {
                        Ok(p) => {
                            sh.new_poll.lock().unwrap().push((OUTSTATION, p));
                            sh.push("poll ok".to_string());
                        }
                        Err(_) => sh.push("poll err".to_string()),
                    }
                });
            }
            _ => return false,
        }
        true
    }

    pub async fn op(&mut self, ws: &[&str]) -> Vec<String> {
        let mut out = Vec::new();
        let bad = |out: &mut Vec<String>| out.push("bad-op".to_string());
        let dir = |s: &str| match s { "m2o" => Some(true), "o2m" => Some(false), _ => None };
        match ws {
            ["addbin" | "addan", idx, cls] => match (idx.parse::<u16>(), cls.parse::<u8>()) {
                (Ok(i), Ok(c)) => {
                    let direct = if self.opanicked { vec![] } else { vec![format!("add {}", self.add_point(ws[0] == "addbin", i, c) as u8)] };
                    self.o_op(direct, &mut out).await;
                }
                _ => bad(&mut out),
            },
            ["addmany", kind, start, count, cls] => match (start.parse::<u16>(), count.parse::<u16>(), cls.parse::<u8>()) {
                (Ok(a), Ok(n), Ok(c)) if n >= 2 && (a as u32 + n as u32) <= 65536 => {
                    let mut direct = vec![];
                    if !self.opanicked {
                        let mut okn = 0;
                        for i in 0..n {
                            if self.add_point(*kind == "bin", a + i, c) {
                                okn += 1;
                            }
                        }
                        direct.push(format!("added {okn}"));
                    }
                    self.o_op(direct, &mut out).await;
                }
                _ => bad(&mut out),
            },
            ["txn", items @ ..] => {
                if self.opanicked {
                    self.o_op(vec![], &mut out).await;
                } else {
                    match self.txn(items) {
                        Some(direct) => self.o_op(direct, &mut out).await,
                        None => bad(&mut out),
                    }
                }
            }
            ["tick", ms] => match ms.parse::<u64>() {
                Ok(ms) => self.tick(ms, &mut out).await,
                Err(_) => bad(&mut out),
            },
            ["delay", d, ms] => match (dir(d), ms.parse::<u64>()) {
                (Some(d), Ok(ms)) => {
                    if d { self.m2o.delay = ms } else { self.o2m.delay = ms }
                }
                _ => bad(&mut out),
            },
            ["chunk", n] => match n.parse::<usize>() {
                Ok(n) => self.chunk = n,
                // the model accepts any single argument (re-chunking does not exist for it)
                Err(_) => {}
            },
            ["hold", d, v] if *v == "on" || *v == "off" => match dir(d) {
                Some(d) => {
                    let now = self.now;
                    let q = if d { &mut self.m2o } else { &mut self.o2m };
                    if *v == "on" {
                        q.hold = true;
                    } else {
                        q.hold = false;
                        for it in q.q.iter_mut() {
                            if it.due.is_none() {
                                it.due = Some(now);
                            }
                        }
                        self.pump(&mut out).await;
                    }
                }
                None => bad(&mut out),
            },
            ["deliver", d, n] => match (dir(d), if *n == "all" { Some(None) } else { n.parse::<usize>().ok().map(Some) }) {
                (Some(d), Some(n)) => {
                    let q = if d { &mut self.m2o } else { &mut self.o2m };
                    let total = q.octets();
                    let upto = match n {
                        None => total,
                        Some(n) => total.min(q.consumed.saturating_add(n)),
                    };
                    let (bytes, k) = q.take(upto);
                    self.deliver_action(d, bytes, k, &mut out).await;
                    self.pump(&mut out).await;
                }
                _ => bad(&mut out),
            },
            ["cut"] => self.cut(&mut out).await,
            ["mclock", v] => *self.base.lock().unwrap() = v.parse::<u64>().ok(),
            ["procdelay", v] => match v.parse::<u64>() {
                Ok(v) => *self.osh.delay_ms.lock().unwrap() = v as u16,
                Err(_) => bad(&mut out),
            },
            ["appiin", v] => match v.parse::<u64>() {
                Ok(v) => *self.osh.app_iin.lock().unwrap() = v as u8,
                Err(_) => bad(&mut out),
            },
            ["timeres", v] => match v.parse::<u64>() {
                Ok(v) => *self.osh.time_result.lock().unwrap() = v as u8,
                Err(_) => bad(&mut out),
            },
            ["restart", v] => match v.parse::<u64>() {
                Ok(v) => *self.osh.restart.lock().unwrap() = v as u8,
                Err(_) => bad(&mut out),
            },
            ["ctl", l] => match l.split(',').map(|x| x.parse::<u8>()).collect::<Result<Vec<u8>, _>>() {
                Ok(l) => *self.osh.ctl.lock().unwrap() = (l, 0),
                Err(_) => bad(&mut out),
            },
            ["timesync", ..] | ["read", ..] | ["cmd", ..] | ["addpoll", ..] => {
                if self.user(ws) {
                    self.m_op(&mut out).await;
                } else {
                    bad(&mut out);
                }
            }
            ["demand", k] => match k.parse::<usize>() {
                Ok(k) if k < self.polls.len() => {
                    let _ = self.polls[k].demand().await;
                    self.m_op(&mut out).await;
                }
                _ => bad(&mut out),
            },
            ["inject", d, src, dst, h] => {
                let okhex = *h != "-" && h.len() % 2 == 0 && h.bytes().all(|c| c.is_ascii_hexdigit());
                match (dir(d), src.parse::<u16>(), dst.parse::<u16>()) {
                    (Some(d), Ok(src), Ok(dst)) if okhex => {
                        let consumed = if d { self.m2o.consumed } else { self.o2m.consumed };
                        if consumed != 0 {
                            bad(&mut out);
                        } else {
                            let frag = unhex(h);
                            let chunks: Vec<&[u8]> = frag.chunks(249).collect();
                            let mut bytes = Vec::new();
                            for (i, c) in chunks.iter().enumerate() {
                                let mut tb = (i as u8) & 0x3F;
                                if i == 0 { tb |= 0x40 }
                                if i + 1 == chunks.len() { tb |= 0x80 }
                                let mut p = vec![tb];
                                p.extend_from_slice(c);
                                bytes.extend(ref_frame(if d { 0xC4 } else { 0x44 }, dst, src, &p));
                            }
                            self.deliver_action(d, vec![bytes], 1, &mut out).await;
                            self.pump(&mut out).await;
                        }
                    }
                    _ => bad(&mut out),
                }
            }
            _ => bad(&mut out),
        }
        out
    }
}

pub fn run(ops: &str, out: &mut dyn Write, mon: &mut dyn Write, search_only: bool) {
    std::panic::set_hook(Box::new(|i| {
        if std::env::var("VERIF_DEBUG").is_ok() {
            eprintln!("panic: {i}");
        }
    }));
    let mut stats = Stats::default();
    for (hdr, lines) in split_cases(ops) {
        if !search_only {
            writeln!(out, "{hdr}").unwrap();
        }
        let kind = case_attr(&hdr, "kind").unwrap_or("?").to_string();
        stats.hit(&format!("kind_{kind}"));
        stats.note_case(&lines.join("\n"));
        let rt = runtime();
        let mut trace: Vec<(String, Vec<String>)> = Vec::new();
        rt.block_on(async {
            let mut st: Option<Pair> = None;
            for line in &lines {
                let ws: Vec<&str> = line.split_whitespace().collect();
                if ws.is_empty() {
                    continue;
                }
                if ws[0].starts_with('@') {
                    // monitor-only line: kept in the trace, not echoed
                    trace.push((line.clone(), Vec::new()));
                    continue;
                }
                let outs: Vec<String> = if ws[0] == "cfg" {
                    let (p, o) = Pair::new(&ws[1..]).await;
                    st = Some(p);
                    o
                } else {
                    match st.as_mut() {
                        None => vec!["bad-op".to_string()],
                        Some(p) => p.op(&ws).await,
                    }
                };
                for o in &outs {
                    if !search_only {
                        writeln!(out, "{o}").unwrap();
                    }
                    let mut it = o.split_whitespace();
                    let a = it.next().unwrap_or("?");
                    let b = it.next().unwrap_or("");
                    stats.hit(&format!("out_{a}_{}", if a == "m" || a == "o" { b } else { "" }));
                }
                if !search_only {
                    writeln!(out, "ok").unwrap();
                }
                trace.push((line.clone(), outs));
            }
        });
        drop(rt);
        crate::mon_pair::check(&hdr, &trace, mon, &mut stats);
    }
    stats.dump(mon);
}
