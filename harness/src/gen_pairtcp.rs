//! generator of engine `pairtcp`: histories over the real TCP stack.  Every random choice derives from the
//! seed; what the run makes of a history depends on real scheduling (the monitors are robust to that).
//!
//! kinds: cuts (immediate cuts and cuts after n octets in either direction), refuse (the listener closed for
//! a while after / around a cut: the connect back-off path; `reject`: accepted and closed at once), halfopen
//! (the master's socket closed, the outstation's kept open and silent: the server must replace the session;
//! rarely the other way round), chunk (re-chunking 1..293 octets over multi-fragment responses), garble (one
//! flipped bit: the session ends in `Close` mode, the frame is dropped in `Discard` mode), unsol, overflow
//! (event buffers of 1-3), mixed.  Time-outs are tens to hundreds of ms so that a case takes well under a
//! second; the master's response time-out is at least 2.5 x the outstation's confirm time-out (the
//! "slow start" configurations of `gen_pair.rs`, where the start-up integrity poll depends on the phase of
//! the outstation's retry cycle, belong to the deterministic pair engine).
//! busy (1 case in 4): an application task that keeps sending the master task messages every 2-20 ms (set_decode_level,
//! demands of a long-period poll, class-1 reads), also while the connection is down and through the tail.
//! tails: `clear`, then `tail explicit` (user reads of classes 0-3 until the picture is right) or `tail auto`
//! (no user request; 1 in 3 cut the connection once more just before).
use crate::rng::Rng;
use std::io::Write;

pub const TAIL_BUDGET_MS: u64 = 15000;

const KINDS: [&str; 10] = ["cuts", "refuse", "halfopen", "chunk", "mixed", "unsol", "overflow", "garble", "cuts", "mixed"];

struct G<'a> {
    r: Rng,
    w: &'a mut dyn Write,
    uid: u64,
    points: Vec<(u8, u16, u8)>,
    time: u64,
}

const TY: [&str; 3] = ["bin", "an", "ctr"];

impl<'a> G<'a> {
    fn line(&mut self, s: &str) {
        writeln!(self.w, "{s}").unwrap();
    }
    fn next_uid(&mut self) -> u64 {
        self.uid += 1;
        self.uid
    }
    fn dir(&mut self) -> &'static str {
        if self.r.chance(1, 2) { "m2o" } else { "o2m" }
    }
    fn txn(&mut self) {
        if self.points.is_empty() {
            self.line("txn bin:0:1:1:0");
            return;
        }
        let n = self.r.range(1, 4);
        let mut items = Vec::new();
        for _ in 0..n {
            let (ty, idx, _) = *self.r.pick(&self.points.clone());
            let idx = if self.r.chance(1, 40) { idx.wrapping_add(1) } else { idx };
            let flags = *self.r.pick(&[1u8, 1, 1, 1, 0x41, 0x02, 0x09, 0x11, 0x21, 0x00, 0x05]);
            self.time += self.r.range(0, 5);
            let v: i64 = match ty {
                0 => self.r.below(2) as i64,
                1 => match self.r.below(10) {
                    0 => 0,
                    1 => -1,
                    2 => i32::MAX as i64,
                    3 => i32::MIN as i64,
                    4 => i32::MAX as i64 + 1 + self.r.below(1000) as i64,
                    5 => i32::MIN as i64 - 1 - self.r.below(1000) as i64,
                    6 | 7 => self.r.below(100) as i64,
                    _ => self.r.range(0, 2_000_000) as i64 - 1_000_000,
                },
                _ => match self.r.below(5) {
                    0 => 0,
                    1 => u32::MAX as i64,
                    2 => self.r.below(10) as i64,
                    _ => self.r.below(1 << 32) as i64,
                },
            };
            items.push(format!("{}:{idx}:{v}:{flags}:{}", TY[ty as usize], self.time));
        }
        self.line(&format!("txn {}", items.join(" ")));
    }
    fn populate(&mut self, big: bool) {
        if big {
            let n = *self.r.pick(&[30u16, 60, 100, 260]);
            let ty = self.r.below(3) as u8;
            let start = *self.r.pick(&[0u16, 0, 5, 250]);
            let class = self.r.below(4) as u8;
            self.line(&format!("addmany {} {} {} {}", TY[ty as usize], start, n, class));
            for i in 0..6u16 {
                self.points.push((ty, start + i * (n / 6), class));
            }
        }
        let np = self.r.range(1, 5);
        for _ in 0..np {
            self.add_point();
        }
    }
    fn add_point(&mut self) {
        let ty = *self.r.pick(&[0u8, 0, 1, 1, 2]);
        let idx = if self.r.chance(1, 8) { *self.r.pick(&[255u16, 256, 65535, 1000]) } else { self.r.below(8) as u16 };
        let class = if self.r.chance(1, 5) { 0 } else { self.r.range(1, 3) as u8 };
        self.line(&format!("add{} {} {}", TY[ty as usize], idx, class));
        if !self.points.iter().any(|p| p.0 == ty && p.1 == idx) {
            self.points.push((ty, idx, class));
        }
    }
    fn command(&mut self) {
        let id = self.next_uid();
        let kind = if self.r.chance(1, 2) { "do" } else { "sbo" };
        let idx = self.r.below(4) as u8;
        let objs = match self.r.below(3) {
            0 => format!("0c011701{idx:02x}{:02x}01{:08x}{:08x}00", *self.r.pick(&[0x03u8, 0x04, 0x41, 0x81, 0x01]), self.r.below(1000) as u32, 0u32),
            1 => format!("29021701{idx:02x}{:04x}00", self.r.below(65536) as u16),
            _ => format!("29012802000100{:08x}000200{:08x}00", self.r.next() as u32, self.r.next() as u32),
        };
        self.line(&format!("cmd {id} {kind} {objs}"));
    }
    fn sleep(&mut self) {
        let t = match self.r.below(8) {
            0 => 0,
            1 => 1,
            2 => self.r.range(2, 10),
            3 | 4 => self.r.range(10, 60),
            5 => self.r.range(60, 200),
            6 => *self.r.pick(&[30u64, 60, 100, 150, 250]),
            _ => self.r.range(5, 40),
        };
        self.line(&format!("sleep {t}"));
    }
    fn cut_after(&mut self) {
        let n = match self.r.below(5) {
            0 => *self.r.pick(&[1u64, 2, 5, 9, 10, 11]),
            1 => *self.r.pick(&[17u64, 18, 26, 27, 28, 29]),
            2 => self.r.range(1, 60),
            3 => *self.r.pick(&[100u64, 291, 292, 293, 500]),
            _ => self.r.range(1, 700),
        };
        let d = self.dir();
        self.line(&format!("cut after {n} {d}"));
    }
    fn fault(&mut self, kind: &str) {
        match kind {
            "cuts" => {
                if self.r.chance(3, 5) {
                    self.line("cut");
                } else {
                    self.cut_after();
                }
            }
            "refuse" => match self.r.below(6) {
                0 | 1 => {
                    let ms = *self.r.pick(&[5u64, 15, 35, 80, 150, 300]);
                    self.line(&format!("refuse {ms}"));
                    self.line("cut");
                }
                2 => {
                    self.line("cut");
                    let ms = *self.r.pick(&[5u64, 35, 150]);
                    self.line(&format!("refuse {ms}"));
                }
                3 => {
                    let ms = *self.r.pick(&[10u64, 40, 120]);
                    self.line(&format!("reject {ms}"));
                    self.line("cut");
                }
                4 => self.cut_after(),
                _ => self.line("cut"),
            },
            "halfopen" => match self.r.below(6) {
                0 | 1 | 2 => self.line("halfopen o"),
                3 => self.line("halfopen m"),
                4 => self.line("cut"),
                _ => self.cut_after(),
            },
            "garble" => {
                let d = self.dir();
                self.line(&format!("garble {d}"));
            }
            _ => match self.r.below(8) {
                0 | 1 | 2 => self.line("cut"),
                3 | 4 => self.cut_after(),
                5 => self.line("halfopen o"),
                6 => {
                    let d = self.dir();
                    self.line(&format!("garble {d}"));
                }
                _ => {
                    let ms = *self.r.pick(&[15u64, 60, 150]);
                    self.line(&format!("refuse {ms}"));
                    self.line("cut");
                }
            },
        }
    }
}

fn gen_case(case: usize, mut r: Rng, w: &mut dyn Write, quick: bool) {
    let kind = if quick { KINDS[case % KINDS.len()] } else { *r.pick(&KINDS) };
    let tail = if quick { ["explicit", "auto", "autocut"][(case / KINDS.len()) % 3] } else { *r.pick(&["explicit", "explicit", "auto", "auto", "autocut"]) };
    writeln!(w, "# case {case} kind={kind} tail={tail}").unwrap();
    let mut g = G { r, w, uid: 0, points: Vec::new(), time: 1000 };
    let unsolicited = match kind {
        "unsol" => true,
        _ => g.r.chance(1, 2),
    };
    let evmax = match kind {
        "overflow" => *g.r.pick(&[1u16, 1, 2, 3]),
        _ => *g.r.pick(&[2u16, 5, 10, 50]),
    };
    let sol = match kind {
        "chunk" => *g.r.pick(&[249u16, 249, 300]),
        _ => *g.r.pick(&[249u16, 300, 512, 2048]),
    };
    let ctimeout = *g.r.pick(&[30u64, 60, 100]);
    let rto = (*g.r.pick(&[150u64, 250, 400])).max(ctimeout * 5 / 2);
    let dis = *g.r.pick(&[7u8, 7, 0]);
    let int = *g.r.pick(&[15u8, 15, 15, 8, 0]);
    let en = *g.r.pick(&[7u8, 7, 7, 1, 0]);
    let cmin = *g.r.pick(&[5u64, 10, 20]);
    let cmax = *g.r.pick(&[40u64, 80, 160]);
    // an application that keeps talking to the master task (also while the connection is down, and through the
    // tail), at a period shorter than the reconnect delay / the back-off
    let busy = if quick { case % 3 == 1 } else { g.r.chance(1, 4) };
    let crec = if busy && (quick || g.r.chance(1, 2)) { 50 } else { *g.r.pick(&[0u64, 10, 10, 50]) };
    let cfg = format!(
        "cfg sol={} unsol={} unsolicited={} retries={} ctimeout={} rdelay={} evcfg={evmax},0,0,{evmax},0,{evmax},0,0 keepalive={} discard={} mdiscard={} mtx={} rto={} dis={} int={} en={} evscan={} ovf={} rmin={} rmax={} ka={} cmin={} cmax={} crec={} chunk={}",
        sol,
        *g.r.pick(&[249u16, 300, 2048]),
        unsolicited as u8,
        *g.r.pick(&["none", "none", "0", "1", "3"]),
        ctimeout,
        *g.r.pick(&[10u64, 40, 100]),
        *g.r.pick(&["none", "none", "100"]),
        g.r.chance(1, 2) as u8,
        g.r.chance(1, 2) as u8,
        *g.r.pick(&[249u16, 2048]),
        rto,
        dis,
        int,
        en,
        *g.r.pick(&[0u8, 0, 7, 2]),
        g.r.chance(3, 4) as u8,
        *g.r.pick(&[20u64, 50]),
        *g.r.pick(&[100u64, 200]),
        *g.r.pick(&["none", "none", "120"]),
        cmin,
        cmax,
        crec,
        if kind == "chunk" { *g.r.pick(&[1u64, 2, 3, 7, 10, 17, 18, 64, 291, 292, 293]) } else { 0 },
    );
    g.line(&cfg);
    let before = g.r.chance(2, 3);
    if before {
        let big = kind == "chunk" || g.r.chance(1, 8);
        g.populate(big);
    }
    // (a busy history first lets the connection come up: the interruptions then hit a live connection)
    let t0 = if busy { *g.r.pick(&[80u64, 120, 200]) } else { *g.r.pick(&[0u64, 5, 30, 80, 200]) };
    g.line(&format!("sleep {t0}"));
    if !before {
        g.populate(kind == "chunk");
    }
    if g.r.chance(1, 3) {
        let per = *g.r.pick(&[40u64, 120, 300]);
        let cls = *g.r.pick(&[7u8, 15, 1, 8, 6]);
        g.line(&format!("poll {per} {cls}"));
    }
    if busy {
        let p = *g.r.pick(&[2u64, 3, 3, 8, 20]);
        let what = *g.r.pick(&["level", "level", "demand", "read"]);
        g.line(&format!("busy {p} {what}"));
    }
    let len = if quick { g.r.range(6, 18) } else { g.r.range(6, 30) };
    let fault_w = match kind {
        "unsol" | "overflow" | "chunk" => 8,
        _ => 18,
    };
    let mut faults = 0;
    for k in 0..len {
        let x = g.r.below(100);
        // every history of a fault kind has at least one fault
        let force = k + 1 == len && faults == 0 && fault_w > 8;
        if x < fault_w || force {
            g.fault(kind);
            faults += 1;
        } else if x < 52 {
            g.txn();
            // the user thread and the two tasks race; half of the time the history gives them a moment
            if g.r.chance(1, 3) {
                let t = g.r.range(1, 15);
                g.line(&format!("sleep {t}"));
            }
        } else if x < 75 {
            g.sleep();
        } else if x < 80 {
            let id = g.next_uid();
            let cls = *g.r.pick(&[15u8, 7, 8, 1, 2, 4, 3, 9]);
            g.line(&format!("read {id} {cls}"));
        } else if x < 84 {
            let d = g.dir();
            let v = *g.r.pick(&[0u64, 0, 1, 5, 20, 50, 400]);
            g.line(&format!("delay {d} {v}"));
        } else if x < 88 {
            let c = *g.r.pick(&[0u64, 0, 1, 2, 3, 5, 7, 10, 16, 17, 18, 64, 100, 291, 292, 293, 1000]);
            g.line(&format!("chunk {c}"));
        } else if x < 92 {
            g.command();
        } else if x < 95 {
            let per = *g.r.pick(&[40u64, 120, 300]);
            let cls = *g.r.pick(&[7u8, 15, 1, 8]);
            g.line(&format!("poll {per} {cls}"));
        } else if x < 98 {
            g.add_point();
        } else {
            g.txn();
            g.txn();
            g.txn();
        }
    }
    if tail == "autocut" {
        // the last interruption: whatever was in flight is lost, both sessions restart
        let t = *g.r.pick(&[0u64, 1, 20, 100]);
        g.line(&format!("sleep {t}"));
        g.line("cut");
    }
    if tail == "explicit" && g.r.chance(1, 4) {
        g.line("cut");
    }
    g.line("clear");
    if tail == "explicit" {
        g.line(&format!("tail explicit {TAIL_BUDGET_MS}"));
        g.line("@converged");
    } else {
        g.line(&format!("tail auto {TAIL_BUDGET_MS}"));
        g.line("@converged auto");
    }
}

pub fn gen(thorough: bool, seed: u64, w: &mut dyn Write) {
    let n = if thorough { 3000 } else { 30 };
    let mut root = Rng::new(seed ^ 0x7c9_7c90_0000);
    for case in 0..n {
        let r = root.fork();
        gen_case(case, r, w, !thorough);
    }
}
