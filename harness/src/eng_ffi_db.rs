//! C20, second half: a database operation invoked through the binding layer has exactly the effect of the
//! corresponding native call with the same arguments.
//!
//! Twin `Database` instances (identical configuration).  Every operation is applied to twin A through the
//! binding-level `dnp3_database_*` functions (ffi structs, C enums) and to twin B through the native traits
//! `Add/Remove/Update/UpdateFlags/Get`.  The arguments of the two calls are built INDEPENDENTLY from the same
//! abstract choice (hand-written parallel tables below, not the library's conversions); returned bools,
//! `UpdateInfo` and `get` results must agree.  Also: field-by-field checks of the struct conversions.
use crate::rng::Rng;
use crate::util::Stats;
use dnp3::app::control::*;
use dnp3::app::measurement::*;
use dnp3::app::Timestamp;
use dnp3::decode::*;
use dnp3::outstation::database::*;
use dnp3::verif_hooks::ffidb_probe::new_database;
use dnp3_ffi::ffi;
use std::os::raw::c_int;

// ---------------------------------------------------------------------------------------------
// abstract choices and their two independent renderings
// ---------------------------------------------------------------------------------------------
#[derive(Clone, Copy, Debug)]
struct ATime {
    quality: u8, // 0 invalid, 1 synchronized, 2 unsynchronized
    value: u64,
}

impl ATime {
    fn ffi(self) -> ffi::Timestamp {
        ffi::TimestampFields {
            value: self.value,
            quality: match self.quality {
                0 => ffi::TimeQuality::InvalidTime,
                1 => ffi::TimeQuality::SynchronizedTime,
                _ => ffi::TimeQuality::UnsynchronizedTime,
            },
        }
        .into()
    }
    fn native(self) -> Option<Time> {
        match self.quality {
            0 => None,
            1 => Some(Time::Synchronized(Timestamp::new(self.value))),
            _ => Some(Time::Unsynchronized(Timestamp::new(self.value))),
        }
    }
    fn random(r: &mut Rng) -> ATime {
        let value = match r.below(6) {
            0 => 0,
            1 => 1,
            2 => 0xFFFF_FFFF_FFFF,
            3 => 0xFFFF_FFFF_FFFE,
            4 => u64::MAX,
            _ => r.next() & 0xFFFF_FFFF_FFFF,
        };
        ATime { quality: r.below(3) as u8, value }
    }
}

/// what a native `Option<Time>` must look like on the ffi side (value, quality) -- stated from the property
fn time_obs_native(t: Option<Time>) -> (u64, u8) {
    match t {
        None => (0, 0),
        Some(Time::Synchronized(x)) => (x.raw_value(), 1),
        Some(Time::Unsynchronized(x)) => (x.raw_value(), 2),
    }
}

fn time_obs_ffi(t: &ffi::Timestamp) -> (u64, u8) {
    let q = if t.quality == c_int::from(ffi::TimeQuality::InvalidTime) {
        0
    } else if t.quality == c_int::from(ffi::TimeQuality::SynchronizedTime) {
        1
    } else if t.quality == c_int::from(ffi::TimeQuality::UnsynchronizedTime) {
        2
    } else {
        99
    };
    (t.value, q)
}

#[derive(Clone, Copy, Debug)]
struct AOpts {
    update_static: bool,
    mode: u8,
}

impl AOpts {
    fn ffi(self) -> ffi::UpdateOptions {
        ffi::UpdateOptionsFields {
            update_static: self.update_static,
            event_mode: match self.mode {
                0 => ffi::EventMode::Detect,
                1 => ffi::EventMode::Force,
                _ => ffi::EventMode::Suppress,
            },
        }
        .into()
    }
    fn native(self) -> UpdateOptions {
        UpdateOptions::new(
            self.update_static,
            match self.mode {
                0 => EventMode::Detect,
                1 => EventMode::Force,
                _ => EventMode::Suppress,
            },
        )
    }
    fn random(r: &mut Rng) -> AOpts {
        AOpts { update_static: r.chance(3, 4), mode: r.below(3) as u8 }
    }
}

fn class_ffi(c: u8) -> c_int {
    match c {
        0 => ffi::EventClass::None,
        1 => ffi::EventClass::Class1,
        2 => ffi::EventClass::Class2,
        _ => ffi::EventClass::Class3,
    }
    .into()
}

fn class_native(c: u8) -> Option<EventClass> {
    match c {
        0 => None,
        1 => Some(EventClass::Class1),
        2 => Some(EventClass::Class2),
        _ => Some(EventClass::Class3),
    }
}

/// `UpdateInfo` as (result, created, discarded): 0 NoPoint, 1 NoEvent, 2 Created, 3 Overflow
fn info_native(i: UpdateInfo) -> (u8, u64, u64) {
    match i {
        UpdateInfo::NoPoint => (0, 0, 0),
        UpdateInfo::NoEvent => (1, 0, 0),
        UpdateInfo::Created(id) => (2, id, 0),
        UpdateInfo::Overflow { created, discarded } => (3, created, discarded),
    }
}

fn info_ffi(i: &ffi::UpdateInfo) -> (u8, u64, u64) {
    let r = if i.result == c_int::from(ffi::UpdateResult::NoPoint) {
        0
    } else if i.result == c_int::from(ffi::UpdateResult::NoEvent) {
        1
    } else if i.result == c_int::from(ffi::UpdateResult::Created) {
        2
    } else if i.result == c_int::from(ffi::UpdateResult::Overflow) {
        3
    } else {
        99
    };
    (r, i.created, i.discarded)
}

macro_rules! pairs {
    ($t:ident; $($v:ident),*) => { &[ $( (ffi::$t::$v, $t::$v) ),* ] };
}

const BI_S: &[(ffi::StaticBinaryInputVariation, StaticBinaryInputVariation)] = pairs!(StaticBinaryInputVariation; Group1Var1, Group1Var2);
const BI_E: &[(ffi::EventBinaryInputVariation, EventBinaryInputVariation)] = pairs!(EventBinaryInputVariation; Group2Var1, Group2Var2, Group2Var3);
const DB_S: &[(ffi::StaticDoubleBitBinaryInputVariation, StaticDoubleBitBinaryInputVariation)] = pairs!(StaticDoubleBitBinaryInputVariation; Group3Var1, Group3Var2);
const DB_E: &[(ffi::EventDoubleBitBinaryInputVariation, EventDoubleBitBinaryInputVariation)] = pairs!(EventDoubleBitBinaryInputVariation; Group4Var1, Group4Var2, Group4Var3);
const BO_S: &[(ffi::StaticBinaryOutputStatusVariation, StaticBinaryOutputStatusVariation)] = pairs!(StaticBinaryOutputStatusVariation; Group10Var1, Group10Var2);
const BO_E: &[(ffi::EventBinaryOutputStatusVariation, EventBinaryOutputStatusVariation)] = pairs!(EventBinaryOutputStatusVariation; Group11Var1, Group11Var2);
const CT_S: &[(ffi::StaticCounterVariation, StaticCounterVariation)] = pairs!(StaticCounterVariation; Group20Var1, Group20Var2, Group20Var5, Group20Var6);
const CT_E: &[(ffi::EventCounterVariation, EventCounterVariation)] = pairs!(EventCounterVariation; Group22Var1, Group22Var2, Group22Var5, Group22Var6);
const FC_S: &[(ffi::StaticFrozenCounterVariation, StaticFrozenCounterVariation)] = pairs!(StaticFrozenCounterVariation; Group21Var1, Group21Var2, Group21Var5, Group21Var6, Group21Var9, Group21Var10);
const FC_E: &[(ffi::EventFrozenCounterVariation, EventFrozenCounterVariation)] = pairs!(EventFrozenCounterVariation; Group23Var1, Group23Var2, Group23Var5, Group23Var6);
const AI_S: &[(ffi::StaticAnalogInputVariation, StaticAnalogInputVariation)] = pairs!(StaticAnalogInputVariation; Group30Var1, Group30Var2, Group30Var3, Group30Var4, Group30Var5, Group30Var6);
const AI_E: &[(ffi::EventAnalogInputVariation, EventAnalogInputVariation)] = pairs!(EventAnalogInputVariation; Group32Var1, Group32Var2, Group32Var3, Group32Var4, Group32Var5, Group32Var6, Group32Var7, Group32Var8);
const AO_S: &[(ffi::StaticAnalogOutputStatusVariation, StaticAnalogOutputStatusVariation)] = pairs!(StaticAnalogOutputStatusVariation; Group40Var1, Group40Var2, Group40Var3, Group40Var4);
const AO_E: &[(ffi::EventAnalogOutputStatusVariation, EventAnalogOutputStatusVariation)] = pairs!(EventAnalogOutputStatusVariation; Group42Var1, Group42Var2, Group42Var3, Group42Var4, Group42Var5, Group42Var6, Group42Var7, Group42Var8);

const DBITS: &[(ffi::DoubleBit, DoubleBit)] = pairs!(DoubleBit; Intermediate, DeterminedOff, DeterminedOn, Indeterminate);

const FLAG_TYPES: &[(ffi::UpdateFlagsType, UpdateFlagsType)] =
    pairs!(UpdateFlagsType; BinaryInput, DoubleBitBinaryInput, BinaryOutputStatus, Counter, FrozenCounter, AnalogInput, AnalogOutputStatus);

fn rand_u32(r: &mut Rng) -> u32 {
    match r.below(6) {
        0 => 0,
        1 => 1,
        2 => u32::MAX,
        3 => u32::MAX - 1,
        4 => r.below(10) as u32,
        _ => r.next() as u32,
    }
}

fn rand_f64(r: &mut Rng) -> f64 {
    match r.below(12) {
        0 => 0.0,
        1 => -0.0,
        2 => f64::NAN,
        3 => f64::INFINITY,
        4 => f64::NEG_INFINITY,
        5 => f64::MAX,
        6 => f64::MIN_POSITIVE,
        7 => 32767.5,
        8 => -2147483649.0,
        9 => r.below(10) as f64,
        _ => f64::from_bits(r.next()),
    }
}

fn rand_index(r: &mut Rng) -> u16 {
    *r.pick(&[0u16, 0, 1, 1, 2, 7, 65535])
}

struct Twin {
    a: Database, // driven through the binding layer
    b: Database, // driven natively
}

impl Twin {
    fn pa(&mut self) -> *mut Database {
        &mut self.a as *mut Database
    }
}

/// generates the five operations of one point type; `$val` draws (ffi value, native value, printable) from one choice
macro_rules! point_type {
    ($fname:ident, $tag:expr, $ffi_t:ident, $nat_t:ident,
     $add:ident, $remove:ident, $update:ident, $update2:ident, $get:ident,
     cfg: |$r1:ident| $cfg:expr,
     val: |$r2:ident, $idx:ident, $fl:ident, $tm:ident| $val:expr,
     same: |$fa:ident, $nb:ident| $same:expr) => {
        fn $fname(t: &mut Twin, r: &mut Rng, op: u64, fails: &mut Vec<String>, st: &mut Stats) {
            let index = rand_index(r);
            match op {
                0 => {
                    let class = r.below(4) as u8;
                    let $r1 = &mut *r;
                    let (cf, cn) = $cfg;
                    let ra = unsafe { ffi::$add(t.pa(), index, class_ffi(class), cf) };
                    let rb = t.b.add(index, class_native(class), cn);
                    st.hit(if rb { "db_add_new" } else { "db_add_existing" });
                    if ra != rb {
                        fails.push(format!("{} add index={index} class={class}: binding {ra} native {rb}", $tag));
                    }
                }
                1 => {
                    let ra = unsafe { ffi::$remove(t.pa(), index) };
                    let rb = Remove::<$nat_t>::remove(&mut t.b, index);
                    st.hit(if rb { "db_remove_hit" } else { "db_remove_miss" });
                    if ra != rb {
                        fails.push(format!("{} remove index={index}: binding {ra} native {rb}", $tag));
                    }
                }
                2 | 3 => {
                    let $fl: u8 = if r.chance(1, 8) { *r.pick(&[0u8, 1, 0x80, 0xFF]) } else { r.next() as u8 };
                    let $tm = ATime::random(r);
                    let opts = AOpts::random(r);
                    let $idx = index;
                    let $r2 = &mut *r;
                    let (vf, vn, shown): (ffi::$ffi_t, $nat_t, String) = $val;
                    st.hit(&format!("db_update_q{}_s{}_m{}", $tm.quality, opts.update_static as u8, opts.mode));
                    if op == 2 {
                        let ra = unsafe { ffi::$update(t.pa(), vf, opts.ffi()) };
                        let rb = t.b.update(index, &vn, opts.native());
                        if ra != rb {
                            fails.push(format!("{} update index={index} {shown} flags={:#04x} time={:?} {opts:?}: binding {ra} native {rb}", $tag, $fl, $tm));
                        }
                    } else {
                        let ra = unsafe { ffi::$update2(t.pa(), vf, opts.ffi()) };
                        let rb = t.b.update2(index, &vn, opts.native());
                        st.hit(&format!("db_info_{}", info_native(rb).0));
                        if info_ffi(&ra) != info_native(rb) {
                            fails.push(format!(
                                "{} update2 index={index} {shown} flags={:#04x} time={:?} {opts:?}: binding {:?} native {:?}",
                                $tag, $fl, $tm, info_ffi(&ra), info_native(rb)
                            ));
                        }
                    }
                }
                _ => {
                    let mut out: ffi::$ffi_t = unsafe { std::mem::zeroed() };
                    let rc = unsafe { ffi::$get(t.pa(), index, &mut out as *mut _) };
                    let nb: Option<$nat_t> = Get::<$nat_t>::get(&t.b, index);
                    match nb {
                        None => {
                            st.hit("db_get_miss");
                            if rc != c_int::from(ffi::ParamError::PointDoesNotExist) {
                                fails.push(format!("{} get index={index}: native None, binding rc={rc}", $tag));
                            }
                        }
                        Some($nb) => {
                            st.hit("db_get_hit");
                            let $fa = &out;
                            if rc != c_int::from(ffi::ParamError::Ok) {
                                fails.push(format!("{} get index={index}: native Some, binding rc={rc}", $tag));
                            } else if !($same)
                                || $fa.index != index
                                || $fa.flags.value != $nb.flags.value
                                || time_obs_ffi(&$fa.time) != time_obs_native($nb.time)
                            {
                                fails.push(format!(
                                    "{} get index={index}: native {:?} vs binding index={} flags={:#04x} time={:?}",
                                    $tag, $nb, $fa.index, $fa.flags.value, time_obs_ffi(&$fa.time)
                                ));
                            }
                        }
                    }
                }
            }
        }
    };
}

point_type!(op_bi, "binary_input", BinaryInput, BinaryInput,
    dnp3_database_add_binary_input, dnp3_database_remove_binary_input, dnp3_database_update_binary_input,
    dnp3_database_update_binary_input_2, dnp3_database_get_binary_input,
    cfg: |r| { let s = *r.pick(BI_S); let e = *r.pick(BI_E);
        (ffi::BinaryInputConfigFields { static_variation: s.0, event_variation: e.0 }.into(), BinaryInputConfig { s_var: s.1, e_var: e.1 }) },
    val: |r, idx, fl, tm| { let v = r.chance(1, 2);
        (ffi::BinaryInput { index: idx, value: v, flags: ffi::Flags { value: fl }, time: tm.ffi() },
         BinaryInput { value: v, flags: Flags { value: fl }, time: tm.native() }, format!("value={v}")) },
    same: |fa, nb| fa.value == nb.value);

point_type!(op_dbbi, "double_bit_binary_input", DoubleBitBinaryInput, DoubleBitBinaryInput,
    dnp3_database_add_double_bit_binary_input, dnp3_database_remove_double_bit_binary_input, dnp3_database_update_double_bit_binary_input,
    dnp3_database_update_double_bit_binary_input_2, dnp3_database_get_double_bit_binary_input,
    cfg: |r| { let s = *r.pick(DB_S); let e = *r.pick(DB_E);
        (ffi::DoubleBitBinaryInputConfigFields { static_variation: s.0, event_variation: e.0 }.into(), DoubleBitBinaryInputConfig { s_var: s.1, e_var: e.1 }) },
    val: |r, idx, fl, tm| { let v = *r.pick(DBITS);
        (ffi::DoubleBitBinaryInputFields { index: idx, value: v.0, flags: ffi::Flags { value: fl }, time: tm.ffi() }.into(),
         DoubleBitBinaryInput { value: v.1, flags: Flags { value: fl }, time: tm.native() }, format!("value={:?}", v.1)) },
    same: |fa, nb| DBITS.iter().any(|p| c_int::from(p.0) == fa.value && p.1 == nb.value));

point_type!(op_bos, "binary_output_status", BinaryOutputStatus, BinaryOutputStatus,
    dnp3_database_add_binary_output_status, dnp3_database_remove_binary_output_status, dnp3_database_update_binary_output_status,
    dnp3_database_update_binary_output_status_2, dnp3_database_get_binary_output_status,
    cfg: |r| { let s = *r.pick(BO_S); let e = *r.pick(BO_E);
        (ffi::BinaryOutputStatusConfigFields { static_variation: s.0, event_variation: e.0 }.into(), BinaryOutputStatusConfig { s_var: s.1, e_var: e.1 }) },
    val: |r, idx, fl, tm| { let v = r.chance(1, 2);
        (ffi::BinaryOutputStatus { index: idx, value: v, flags: ffi::Flags { value: fl }, time: tm.ffi() },
         BinaryOutputStatus { value: v, flags: Flags { value: fl }, time: tm.native() }, format!("value={v}")) },
    same: |fa, nb| fa.value == nb.value);

point_type!(op_ctr, "counter", Counter, Counter,
    dnp3_database_add_counter, dnp3_database_remove_counter, dnp3_database_update_counter,
    dnp3_database_update_counter_2, dnp3_database_get_counter,
    cfg: |r| { let s = *r.pick(CT_S); let e = *r.pick(CT_E); let d = rand_u32(r);
        (ffi::CounterConfigFields { static_variation: s.0, event_variation: e.0, deadband: d }.into(), CounterConfig { s_var: s.1, e_var: e.1, deadband: d }) },
    val: |r, idx, fl, tm| { let v = rand_u32(r);
        (ffi::Counter { index: idx, value: v, flags: ffi::Flags { value: fl }, time: tm.ffi() },
         Counter { value: v, flags: Flags { value: fl }, time: tm.native() }, format!("value={v}")) },
    same: |fa, nb| fa.value == nb.value);

point_type!(op_fctr, "frozen_counter", FrozenCounter, FrozenCounter,
    dnp3_database_add_frozen_counter, dnp3_database_remove_frozen_counter, dnp3_database_update_frozen_counter,
    dnp3_database_update_frozen_counter_2, dnp3_database_get_frozen_counter,
    cfg: |r| { let s = *r.pick(FC_S); let e = *r.pick(FC_E); let d = rand_u32(r);
        (ffi::FrozenCounterConfigFields { static_variation: s.0, event_variation: e.0, deadband: d }.into(), FrozenCounterConfig { s_var: s.1, e_var: e.1, deadband: d }) },
    val: |r, idx, fl, tm| { let v = rand_u32(r);
        (ffi::FrozenCounter { index: idx, value: v, flags: ffi::Flags { value: fl }, time: tm.ffi() },
         FrozenCounter { value: v, flags: Flags { value: fl }, time: tm.native() }, format!("value={v}")) },
    same: |fa, nb| fa.value == nb.value);

point_type!(op_ai, "analog_input", AnalogInput, AnalogInput,
    dnp3_database_add_analog_input, dnp3_database_remove_analog_input, dnp3_database_update_analog_input,
    dnp3_database_update_analog_input_2, dnp3_database_get_analog_input,
    cfg: |r| { let s = *r.pick(AI_S); let e = *r.pick(AI_E); let d = if r.chance(1, 2) { 0.0 } else { rand_f64(r) };
        (ffi::AnalogInputConfigFields { static_variation: s.0, event_variation: e.0, deadband: d }.into(), AnalogInputConfig { s_var: s.1, e_var: e.1, deadband: d }) },
    val: |r, idx, fl, tm| { let v = rand_f64(r);
        (ffi::AnalogInput { index: idx, value: v, flags: ffi::Flags { value: fl }, time: tm.ffi() },
         AnalogInput { value: v, flags: Flags { value: fl }, time: tm.native() }, format!("value={v:?}")) },
    same: |fa, nb| fa.value.to_bits() == nb.value.to_bits());

point_type!(op_aos, "analog_output_status", AnalogOutputStatus, AnalogOutputStatus,
    dnp3_database_add_analog_output_status, dnp3_database_remove_analog_output_status, dnp3_database_update_analog_output_status,
    dnp3_database_update_analog_output_status_2, dnp3_database_get_analog_output_status,
    cfg: |r| { let s = *r.pick(AO_S); let e = *r.pick(AO_E); let d = if r.chance(1, 2) { 0.0 } else { rand_f64(r) };
        (ffi::AnalogOutputStatusConfigFields { static_variation: s.0, event_variation: e.0, deadband: d }.into(), AnalogOutputStatusConfig { s_var: s.1, e_var: e.1, deadband: d }) },
    val: |r, idx, fl, tm| { let v = rand_f64(r);
        (ffi::AnalogOutputStatus { index: idx, value: v, flags: ffi::Flags { value: fl }, time: tm.ffi() },
         AnalogOutputStatus { value: v, flags: Flags { value: fl }, time: tm.native() }, format!("value={v:?}")) },
    same: |fa, nb| fa.value.to_bits() == nb.value.to_bits());

fn op_octets(t: &mut Twin, r: &mut Rng, op: u64, fails: &mut Vec<String>, st: &mut Stats) {
    let index = rand_index(r);
    match op {
        0 => {
            let class = r.below(4) as u8;
            let ra = unsafe { ffi::dnp3_database_add_octet_string(t.pa(), index, class_ffi(class)) };
            let rb = t.b.add(index, class_native(class), OctetStringConfig);
            st.hit(if rb { "db_add_new" } else { "db_add_existing" });
            if ra != rb {
                fails.push(format!("octet_string add index={index} class={class}: binding {ra} native {rb}"));
            }
        }
        1 => {
            let ra = unsafe { ffi::dnp3_database_remove_octet_string(t.pa(), index) };
            let rb = Remove::<OctetString>::remove(&mut t.b, index);
            if ra != rb {
                fails.push(format!("octet_string remove index={index}: binding {ra} native {rb}"));
            }
        }
        _ => {
            let len = *r.pick(&[0usize, 1, 2, 254, 255, 256, 300, 17]);
            let bytes = r.bytes(len);
            let opts = AOpts::random(r);
            let h = unsafe { ffi::dnp3_octet_string_value_create() };
            for b in &bytes {
                unsafe { ffi::dnp3_octet_string_value_add(h, *b) };
            }
            let nat = OctetString::new(&bytes).ok();
            st.hit(&format!("db_octets_len_{}", if len > 255 { "over" } else if len == 0 { "zero" } else { "ok" }));
            if op == 2 {
                let ra = unsafe { ffi::dnp3_database_update_octet_string(t.pa(), index, h, opts.ffi()) };
                let rb = match &nat {
                    Some(v) => t.b.update(index, v, opts.native()),
                    None => false,
                };
                if ra != rb {
                    fails.push(format!("octet_string update index={index} len={len} {opts:?}: binding {ra} native {rb}"));
                }
            } else {
                let ra = unsafe { ffi::dnp3_database_update_octet_string_2(t.pa(), index, h, opts.ffi()) };
                let rb = match &nat {
                    Some(v) => t.b.update2(index, v, opts.native()),
                    None => UpdateInfo::NoPoint,
                };
                if info_ffi(&ra) != info_native(rb) {
                    fails.push(format!("octet_string update2 index={index} len={len} {opts:?}: binding {:?} native {:?}", info_ffi(&ra), info_native(rb)));
                }
            }
            unsafe { ffi::dnp3_octet_string_value_destroy(h) };
            // the stored value is observable natively on both twins
            let ga: Option<OctetString> = Get::<OctetString>::get(&t.a, index);
            let gb: Option<OctetString> = Get::<OctetString>::get(&t.b, index);
            if ga.as_ref().map(|x| x.value().to_vec()) != gb.as_ref().map(|x| x.value().to_vec()) {
                fails.push(format!("octet_string index={index}: stored values differ after update (len={len})"));
            }
        }
    }
}

fn op_flags(t: &mut Twin, r: &mut Rng, fails: &mut Vec<String>, st: &mut Stats) {
    let index = rand_index(r);
    let ty = *r.pick(FLAG_TYPES);
    let fl: u8 = r.next() as u8;
    let tm = ATime::random(r);
    let opts = AOpts::random(r);
    st.hit(&format!("db_update_flags_q{}", tm.quality));
    let ra = unsafe { ffi::dnp3_database_update_flags(t.pa(), index, ty.0.into(), ffi::Flags { value: fl }, tm.ffi(), opts.ffi()) };
    let rb = t.b.update_flags(index, ty.1, Flags { value: fl }, tm.native(), opts.native());
    if info_ffi(&ra) != info_native(rb) {
        fails.push(format!(
            "update_flags index={index} type={:?} flags={fl:#04x} time={tm:?} {opts:?}: binding {:?} native {:?}",
            ty.1, info_ffi(&ra), info_native(rb)
        ));
    }
}

/// final sweep: every index used, every type, `get` through the binding on A == native `get` on B, and A == B natively
fn final_sweep(t: &mut Twin, fails: &mut Vec<String>) {
    macro_rules! sweep {
        ($nat:ident) => {
            for index in [0u16, 1, 2, 7, 65535] {
                let a: Option<$nat> = Get::<$nat>::get(&t.a, index);
                let b: Option<$nat> = Get::<$nat>::get(&t.b, index);
                if format!("{a:?}") != format!("{b:?}") {
                    fails.push(format!("final state differs at {} index={index}: binding-driven {a:?} native {b:?}", stringify!($nat)));
                }
            }
        };
    }
    sweep!(BinaryInput);
    sweep!(DoubleBitBinaryInput);
    sweep!(BinaryOutputStatus);
    sweep!(Counter);
    sweep!(FrozenCounter);
    sweep!(AnalogInput);
    sweep!(AnalogOutputStatus);
}

pub fn db_case(seed: u64, n: usize, st: &mut Stats) -> Vec<String> {
    let mut r = Rng::new(seed);
    let max = *r.pick(&[0u16, 1, 2, 3, 10]);
    let cfg = || EventBufferConfig::all_types(max);
    let mut t = Twin { a: new_database(None, ClassZeroConfig::default(), cfg()), b: new_database(None, ClassZeroConfig::default(), cfg()) };
    let mut fails = Vec::new();
    // null handle: every binding function must report failure, not crash
    if unsafe { ffi::dnp3_database_remove_counter(std::ptr::null_mut(), 0) } {
        fails.push("remove on a null database returned true".to_string());
    }
    // start with some points so that updates mostly hit
    for ty in 0..8u64 {
        for _ in 0..2 {
            apply(&mut t, &mut r, ty, 0, &mut fails, st);
        }
    }
    for _ in 0..n {
        let ty = r.below(9);
        let op = match r.below(10) {
            0 => 0,
            1 => 1,
            2..=4 => 2,
            5..=7 => 3,
            _ => 4,
        };
        st.hit("db_ops");
        if ty == 8 {
            op_flags(&mut t, &mut r, &mut fails, st);
        } else {
            apply(&mut t, &mut r, ty, op, &mut fails, st);
        }
        if fails.len() > 3 {
            break;
        }
    }
    final_sweep(&mut t, &mut fails);
    fails
}

fn apply(t: &mut Twin, r: &mut Rng, ty: u64, op: u64, fails: &mut Vec<String>, st: &mut Stats) {
    match ty {
        0 => op_bi(t, r, op, fails, st),
        1 => op_dbbi(t, r, op, fails, st),
        2 => op_bos(t, r, op, fails, st),
        3 => op_ctr(t, r, op, fails, st),
        4 => op_fctr(t, r, op, fails, st),
        5 => op_ai(t, r, op, fails, st),
        6 => op_aos(t, r, op, fails, st),
        _ => op_octets(t, r, op.min(3), fails, st),
    }
}

// ---------------------------------------------------------------------------------------------
// struct conversions, field by field, with pairwise distinct field values
// ---------------------------------------------------------------------------------------------
pub const STRUCT_CHECKS: &[&str] = &[
    "flags", "timestamp", "update_options", "update_options_default", "permissions_to_native", "permission_set",
    "event_buffer_config", "class_zero_config", "control_code", "group12var1", "decode_level", "update_info",
];

/// D21: `impl From<dnp3::app::Permissions> for ffi::Permissions` crosses its fields (witness: three distinct sets)
pub fn d21_present() -> bool {
    use dnp3::app::{PermissionSet, Permissions};
    let w = PermissionSet { execute: true, write: false, read: false };
    let g = PermissionSet { execute: false, write: true, read: false };
    let o = PermissionSet { execute: false, write: false, read: true };
    let f: ffi::Permissions = Permissions { world: w, group: g, owner: o }.into();
    let same = |a: &ffi::PermissionSet, b: &PermissionSet| a.execute == b.execute && a.write == b.write && a.read == b.read;
    !(same(&f.world, &w) && same(&f.group, &g) && same(&f.owner, &o))
}

/// D22: in `ffi::EmptyResponseError` the two IIN2 rejections are exchanged with respect to their names
pub fn d22_present() -> bool {
    use dnp3::app::{Iin, Iin1, Iin2};
    use dnp3::master::{TaskError, WriteError};
    let a: ffi::EmptyResponseError = TaskError::RejectedByIin2(Iin::new(Iin1::new(0), Iin2::new(0x04))).into();
    let b: ffi::EmptyResponseError = WriteError::IinError(Iin2::new(0x04)).into();
    a == ffi::EmptyResponseError::IinError && b == ffi::EmptyResponseError::RejectedByIin2
}

pub fn struct_check(name: &str, st: &mut Stats) -> Vec<String> {
    let mut fails = Vec::new();
    let mut bad = |s: String| fails.push(s);
    match name {
        "flags" => {
            for v in 0..=255u8 {
                st.hit("struct_flags");
                let n: Flags = (&ffi::Flags { value: v }).into();
                if n.value != v {
                    bad(format!("ffi::Flags {v:#04x} -> native {:#04x}", n.value));
                }
                let f: ffi::Flags = Flags { value: v }.into();
                if f.value != v {
                    bad(format!("native Flags {v:#04x} -> ffi {:#04x}", f.value));
                }
            }
        }
        "timestamp" => {
            for q in 0..3u8 {
                for value in [0u64, 1, 0x7FFF_FFFF_FFFF, 0xFFFF_FFFF_FFFF, u64::MAX] {
                    st.hit("struct_timestamp");
                    let t = ATime { quality: q, value };
                    let n: Option<Time> = (&t.ffi()).into();
                    // the native `Timestamp::new` keeps 48 bits; the binding must do exactly what the native constructor does
                    let want = if q == 0 { (0, 0) } else { (value & Timestamp::MAX_VALUE, q) };
                    if time_obs_native(n) != want {
                        bad(format!("ffi::Timestamp {t:?} -> native {n:?}"));
                    }
                    let f: ffi::Timestamp = t.native().into();
                    if time_obs_ffi(&f) != want {
                        bad(format!("native time {:?} -> ffi {:?}", t.native(), time_obs_ffi(&f)));
                    }
                }
            }
        }
        "update_options" => {
            for us in [false, true] {
                for mode in 0..3u8 {
                    st.hit("struct_update_options");
                    let o = AOpts { update_static: us, mode };
                    let n: UpdateOptions = o.ffi().into();
                    if format!("{n:?}") != format!("{:?}", o.native()) {
                        bad(format!("ffi::UpdateOptions {o:?} -> native {n:?}"));
                    }
                }
            }
        }
        "update_options_default" => {
            st.hit("struct_update_options");
            let n: UpdateOptions = dnp3_ffi::update_options_default().into();
            if format!("{n:?}") != format!("{:?}", UpdateOptions::default()) {
                bad(format!("binding default UpdateOptions {n:?} != native default"));
            }
        }
        "permissions_to_native" => {
            use dnp3::app::{PermissionSet, Permissions};
            st.hit("struct_permissions");
            let w = ffi::PermissionSet { execute: true, write: false, read: false };
            let g = ffi::PermissionSet { execute: false, write: true, read: false };
            let o = ffi::PermissionSet { execute: false, write: false, read: true };
            let n: Permissions = ffi::Permissions { world: w, group: g, owner: o }.into();
            let e = |x: bool, w: bool, r: bool| PermissionSet { execute: x, write: w, read: r };
            if n.world != e(true, false, false) || n.group != e(false, true, false) || n.owner != e(false, false, true) {
                bad(format!("ffi::Permissions(world=x, group=w, owner=r) -> native {n:?}"));
            }
        }
        "permission_set" => {
            use dnp3::app::PermissionSet;
            for k in 0..8u8 {
                st.hit("struct_permission_set");
                let (x, w, r) = (k & 1 != 0, k & 2 != 0, k & 4 != 0);
                let n: PermissionSet = ffi::PermissionSet { execute: x, write: w, read: r }.into();
                if (n.execute, n.write, n.read) != (x, w, r) {
                    bad(format!("ffi::PermissionSet ({x},{w},{r}) -> native {n:?}"));
                }
                let f: ffi::PermissionSet = PermissionSet { execute: x, write: w, read: r }.into();
                if (f.execute, f.write, f.read) != (x, w, r) {
                    bad(format!("native PermissionSet ({x},{w},{r}) -> ffi ({},{},{})", f.execute, f.write, f.read));
                }
            }
        }
        "event_buffer_config" => {
            st.hit("struct_event_buffer_config");
            let f: ffi::EventBufferConfig = ffi::EventBufferConfigFields {
                max_binary: 1, max_double_bit_binary: 2, max_binary_output_status: 3, max_counter: 4,
                max_frozen_counter: 5, max_analog: 6, max_analog_output_status: 7, max_octet_string: 8,
            }.into();
            let n: EventBufferConfig = (&f).into();
            let got = [n.max_binary, n.max_double_binary, n.max_binary_output_status, n.max_counter, n.max_frozen_counter, n.max_analog, n.max_analog_output_status, n.max_octet_string];
            if got != [1, 2, 3, 4, 5, 6, 7, 8] {
                bad(format!("ffi::EventBufferConfig 1..8 -> native {got:?}"));
            }
            let back: ffi::EventBufferConfig = n.into();
            let got = [back.max_binary, back.max_double_bit_binary, back.max_binary_output_status, back.max_counter, back.max_frozen_counter, back.max_analog, back.max_analog_output_status, back.max_octet_string];
            if got != [1, 2, 3, 4, 5, 6, 7, 8] {
                bad(format!("native EventBufferConfig 1..8 -> ffi {got:?}"));
            }
        }
        "class_zero_config" => {
            for k in 0..8usize {
                st.hit("struct_class_zero_config");
                let mut bits = [false; 8];
                bits[k] = true;
                let f: ffi::ClassZeroConfig = ffi::ClassZeroConfigFields {
                    binary: bits[0], double_bit_binary: bits[1], binary_output_status: bits[2], counter: bits[3],
                    frozen_counter: bits[4], analog: bits[5], analog_output_status: bits[6], octet_string: bits[7],
                }.into();
                let n: ClassZeroConfig = f.into();
                let got = [n.binary, n.double_bit_binary, n.binary_output_status, n.counter, n.frozen_counter, n.analog, n.analog_output_status, n.octet_string];
                if got != bits {
                    bad(format!("ffi::ClassZeroConfig bit {k} -> native {got:?}"));
                }
            }
        }
        "control_code" => {
            let tccs = [(ffi::TripCloseCode::Nul, TripCloseCode::Nul), (ffi::TripCloseCode::Close, TripCloseCode::Close), (ffi::TripCloseCode::Trip, TripCloseCode::Trip), (ffi::TripCloseCode::Reserved, TripCloseCode::Reserved)];
            let ops = [(ffi::OpType::Nul, OpType::Nul), (ffi::OpType::PulseOn, OpType::PulseOn), (ffi::OpType::PulseOff, OpType::PulseOff), (ffi::OpType::LatchOn, OpType::LatchOn), (ffi::OpType::LatchOff, OpType::LatchOff)];
            for t in tccs {
                for o in ops {
                    for (clear, queue) in [(true, false), (false, true)] {
                        st.hit("struct_control_code");
                        let f: ffi::ControlCode = ffi::ControlCodeFields { tcc: t.0, clear, queue, op_type: o.0 }.into();
                        let n: ControlCode = f.into();
                        if n.tcc != t.1 || n.op_type != o.1 || n.clear != clear || n.queue != queue {
                            bad(format!("ffi::ControlCode tcc={:?} op={:?} clear={clear} queue={queue} -> native {n:?}", t.1, o.1));
                        }
                        let back: ffi::ControlCode = ControlCode { tcc: t.1, clear, queue, op_type: o.1 }.into();
                        if back.tcc != c_int::from(t.0) || back.op_type != c_int::from(o.0) || back.clear != clear || back.queue != queue {
                            bad(format!("native ControlCode tcc={:?} op={:?} clear={clear} queue={queue} -> ffi crossed", t.1, o.1));
                        }
                    }
                }
            }
        }
        "group12var1" => {
            st.hit("struct_group12var1");
            let code = ControlCode { tcc: TripCloseCode::Trip, clear: true, queue: false, op_type: OpType::LatchOn };
            let n = Group12Var1::new(code, 3, 1000, 2000);
            let f: ffi::Group12Var1 = n.into();
            if f.count != 3 || f.on_time != 1000 || f.off_time != 2000 || f.code.tcc != c_int::from(ffi::TripCloseCode::Trip) {
                bad(format!("native Group12Var1(count=3,on=1000,off=2000) -> ffi count={} on={} off={}", f.count, f.on_time, f.off_time));
            }
            let back: Group12Var1 = f.into();
            if back.count != 3 || back.on_time != 1000 || back.off_time != 2000 || back.code != code {
                bad(format!("ffi::Group12Var1 -> native {back:?}"));
            }
        }
        "decode_level" => {
            st.hit("struct_decode_level");
            let f: ffi::DecodeLevel = ffi::DecodeLevelFields {
                application: ffi::AppDecodeLevel::ObjectValues, transport: ffi::TransportDecodeLevel::Header,
                link: ffi::LinkDecodeLevel::Payload, physical: ffi::PhysDecodeLevel::Length,
            }.into();
            let n: DecodeLevel = f.into();
            if n.application != AppDecodeLevel::ObjectValues || n.transport != TransportDecodeLevel::Header || n.link != LinkDecodeLevel::Payload || n.physical != PhysDecodeLevel::Length {
                bad(format!("ffi::DecodeLevel -> native {n:?}"));
            }
            let back: ffi::DecodeLevel = n.into();
            if back.application() != ffi::AppDecodeLevel::ObjectValues || back.transport() != ffi::TransportDecodeLevel::Header || back.link() != ffi::LinkDecodeLevel::Payload || back.physical() != ffi::PhysDecodeLevel::Length {
                bad("native DecodeLevel -> ffi crossed".to_string());
            }
        }
        "update_info" => {
            for i in [UpdateInfo::NoPoint, UpdateInfo::NoEvent, UpdateInfo::Created(7), UpdateInfo::Created(u64::MAX), UpdateInfo::Overflow { created: 5, discarded: 9 }] {
                st.hit("struct_update_info");
                let f: ffi::UpdateInfo = i.into();
                if info_ffi(&f) != info_native(i) {
                    bad(format!("native {i:?} -> ffi {:?}", info_ffi(&f)));
                }
            }
        }
        _ => bad(format!("unknown struct check {name}")),
    }
    fails
}
