//! trace monitors for the master engine: the predicates of C15 C16 C17 C19, stated from the
//! property texts and evaluated on the IMPLEMENTATION's trace with an independent decoder —
//! never with the library's parser and never with the Lean model.
use crate::util::{hex, unhex, Stats};
use std::collections::{BTreeSet, HashMap, VecDeque};
use std::io::Write;

const MASTER: u16 = 1;

fn fail(mon: &mut dyn Write, hdr: &str, name: &str, cause: &str, detail: &str) {
    let c = if cause.is_empty() { String::new() } else { format!(" cause={cause}") };
    writeln!(mon, "MONITOR-FAIL {hdr} :: {name}{c} :: {detail}").unwrap();
}

fn kv<'a>(ws: &[&'a str], k: &str) -> Option<&'a str> {
    ws.iter().find_map(|w| w.split_once('=').and_then(|(a, b)| if a == k { Some(b) } else { None }))
}

fn kv_u64(ws: &[&str], k: &str, d: u64) -> u64 {
    kv(ws, k).and_then(|v| v.parse().ok()).unwrap_or(d)
}

/// one decoded object header of a response: group, variation, qualifier, items (index, object octets)
struct Hdr {
    g: u8,
    v: u8,
    q: u8,
    count: usize,
    items: Vec<(u32, Vec<u8>)>,
}

/// independent decoder of the response-object vocabulary of this engine
fn decode_objects(mut b: &[u8]) -> Option<Vec<Hdr>> {
    let mut out = Vec::new();
    while !b.is_empty() {
        if b.len() < 3 {
            return None;
        }
        let (g, v, q) = (b[0], b[1], b[2]);
        b = &b[3..];
        // (size, family) family: 0 = ranged, 1 = prefixed, 2 = count
        let (size, fam): (usize, u8) = match (g, v) {
            (1, 2) => (1, 0),
            (30, 1) => (5, 0),
            (2, 1) => (1, 1),
            (2, 2) => (7, 1),
            (32, 1) => (5, 1),
            (12, 1) => (11, 1),
            (41, 1) => (5, 1),
            (41, 2) => (3, 1),
            (41, 3) => (5, 1),
            (41, 4) => (9, 1),
            (50, 1) | (51, 1) | (51, 2) => (6, 2),
            (52, 1) | (52, 2) => (2, 2),
            _ => return None,
        };
        let mut items = Vec::new();
        let count;
        match (q, fam) {
            (0x00, 0) | (0x01, 0) => {
                let (s, e) = if q == 0 {
                    if b.len() < 2 { return None }
                    let r = (b[0] as u32, b[1] as u32);
                    b = &b[2..];
                    r
                } else {
                    if b.len() < 4 { return None }
                    let r = (u16::from_le_bytes([b[0], b[1]]) as u32, u16::from_le_bytes([b[2], b[3]]) as u32);
                    b = &b[4..];
                    r
                };
                if e < s { return None }
                let n = (e - s + 1) as usize;
                if b.len() < n * size { return None }
                for i in 0..n {
                    items.push((s + i as u32, b[i * size..(i + 1) * size].to_vec()));
                }
                b = &b[n * size..];
                count = n;
            }
            (0x17, 1) | (0x28, 1) => {
                let isz = if q == 0x17 { 1 } else { 2 };
                if b.len() < isz { return None }
                let n = if isz == 1 { b[0] as usize } else { u16::from_le_bytes([b[0], b[1]]) as usize };
                b = &b[isz..];
                if b.len() < n * (isz + size) { return None }
                for i in 0..n {
                    let it = &b[i * (isz + size)..(i + 1) * (isz + size)];
                    let idx = if isz == 1 { it[0] as u32 } else { u16::from_le_bytes([it[0], it[1]]) as u32 };
                    items.push((idx, it[isz..].to_vec()));
                }
                b = &b[n * (isz + size)..];
                count = n;
            }
            (0x07, 2) | (0x08, 2) => {
                let csz = if q == 0x07 { 1 } else { 2 };
                if b.len() < csz { return None }
                let n = if csz == 1 { b[0] as usize } else { u16::from_le_bytes([b[0], b[1]]) as usize };
                b = &b[csz..];
                if b.len() < n * size { return None }
                for i in 0..n {
                    items.push((i as u32, b[i * size..(i + 1) * size].to_vec()));
                }
                b = &b[n * size..];
                count = n;
            }
            _ => return None,
        }
        out.push(Hdr { g, v, q, count, items });
    }
    Some(out)
}

fn le(b: &[u8]) -> u64 {
    let mut v = 0u64;
    for (i, x) in b.iter().enumerate() {
        v |= (*x as u64) << (8 * i);
    }
    v
}

/// the handler calls a fragment's objects must produce (same text as the recording handler)
fn expected_deliveries(who: &str, hs: &[Hdr]) -> Vec<String> {
    let mut out = Vec::new();
    for h in hs {
        match (h.g, h.v) {
            (50, 1) => {
                if h.count == 1 {
                    out.push(format!("deliver {who} abstime {}", le(&h.items[0].1)));
                }
            }
            (1, 2) | (2, 1) | (2, 2) | (30, 1) | (32, 1) => {
                let items: Vec<String> = h
                    .items
                    .iter()
                    .map(|(i, o)| match h.g {
                        30 | 32 => format!("{i}:{}:{}", o[0], le(&o[1..5]) as u32 as i32),
                        2 if h.v == 2 => format!("{i}:{}:{}", o[0], le(&o[1..7])),
                        _ => format!("{i}:{}", o[0]),
                    })
                    .collect();
                let l = if items.is_empty() { "-".to_string() } else { items.join(",") };
                out.push(format!("deliver {who} hdr {} {} {} {} {l}", h.g, h.v, h.q, items.len()));
            }
            _ => {}
        }
    }
    out
}

/// a fragment as the outstation side sent it
#[derive(Clone)]
struct Frag {
    src: u16,
    dst: u16,
    bytes: Vec<u8>,
}

impl Frag {
    fn ctrl(&self) -> u8 { self.bytes[0] }
    fn seq(&self) -> u8 { self.bytes[0] & 0x0F }
    fn fir(&self) -> bool { self.bytes[0] & 0x80 != 0 }
    fn fin(&self) -> bool { self.bytes[0] & 0x40 != 0 }
    fn con(&self) -> bool { self.bytes[0] & 0x20 != 0 }
    fn uns(&self) -> bool { self.bytes[0] & 0x10 != 0 }
    fn func(&self) -> u8 { self.bytes[1] }
    fn iin1(&self) -> u8 { self.bytes[2] }
    fn iin2(&self) -> u8 { self.bytes[3] }
    fn objs(&self) -> &[u8] { &self.bytes[4..] }
    /// reaches the master's application layer at all
    fn link_ok(&self) -> bool { self.dst == MASTER && self.src < 0xFFF0 && !self.bytes.is_empty() && self.bytes.len() <= 2048 }
    /// a well-formed response header (solicited or unsolicited)
    fn is_response(&self) -> bool {
        self.bytes.len() >= 4
            && ((self.func() == 129 && !self.uns()) || (self.func() == 130 && self.uns() && self.fir() && self.fin()))
    }
    fn is_solicited(&self) -> bool { self.is_response() && self.func() == 129 }
    fn is_unsolicited(&self) -> bool { self.is_response() && self.func() == 130 }
}

#[derive(Clone, Default)]
struct ACfgM {
    rto: u64,
    dis: u64,
    int: u64,
    en: u64,
    ts: bool,
    ovf: bool,
    evscan: u64,
    ka: Option<u64>,
    rmin: u64,
    rmax: u64,
}

struct UserReq {
    id: u64,
    kind: String,
    objs: Vec<u8>,
}

struct PollM {
    classes: u64,
    period: u64,
    /// not before this time (creation + period, or last completion + period)
    due: u64,
    demanded: bool,
    removed: bool,
    running: bool,
}

// ranks of the automatic tasks (the order the property prescribes)
const R_CLEAR: u8 = 0;
const R_DISABLE: u8 = 1;
const R_INTEGRITY: u8 = 2;
const R_TIME: u8 = 3;
const R_ENABLE: u8 = 4;
const R_POLL: u8 = 6;

fn rank_of(tt: &str) -> Option<u8> {
    match tt {
        "clear_restart" => Some(R_CLEAR),
        "disable_unsol" => Some(R_DISABLE),
        "startup_integrity" => Some(R_INTEGRITY),
        "time_sync" => Some(R_TIME),
        "enable_unsol" => Some(R_ENABLE),
        "auto_event_scan" => Some(5),
        "periodic_poll" => Some(R_POLL),
        _ => None,
    }
}

struct AssocM {
    cfg: ACfgM,
    /// automatic tasks that are due according to the property (by rank)
    pending: BTreeSet<u8>,
    integrity_done: bool,
    queue: VecDeque<UserReq>,
    polls: Vec<PollM>,
    last_unsol: Option<Vec<u8>>,
    /// per automatic task type: (consecutive failures, time of the last one, delay that must elapse)
    backoff: HashMap<String, (u32, u64, u64)>,
    last_activity: u64,
    /// the last activity as the D25 defect would book it (fragments heard while a non-READ request is outstanding
    /// credited to that request's destination): used only to name the cause when a keep-alive comes too early
    last_activity_d25: u64,
    /// created while a task of a removed association with the same address was still running
    tainted: bool,
    /// the last (at most 8) application sequence numbers used with this outstation: requests sent and
    /// fragments of a read series accepted (C15: a stale fragment must not match the next request)
    used_seqs: VecDeque<u8>,
}

impl AssocM {
    fn new(cfg: ACfgM, now: u64) -> AssocM {
        let mut a = AssocM { cfg, pending: BTreeSet::new(), integrity_done: false, queue: VecDeque::new(), polls: Vec::new(), last_unsol: None, backoff: HashMap::new(), last_activity: now, last_activity_d25: now, tainted: false, used_seqs: VecDeque::new() };
        a.session_reset();
        a
    }
    fn session_reset(&mut self) {
        self.pending.clear();
        if self.cfg.dis != 0 { self.pending.insert(R_DISABLE); }
        if self.cfg.int != 0 { self.pending.insert(R_INTEGRITY); }
        if self.cfg.en != 0 { self.pending.insert(R_ENABLE); }
        self.integrity_done = false;
        self.last_unsol = None;
        self.backoff.clear();
        self.queue.clear();
    }
    fn integrity_complete(&self) -> bool { self.cfg.int == 0 || self.integrity_done }
    fn note_seq(&mut self, s: u8) {
        self.used_seqs.push_back(s);
        while self.used_seqs.len() > 8 { self.used_seqs.pop_front(); }
    }
    /// the indications of a response the master acted on
    fn observe_iin(&mut self, iin1: u8, iin2: u8) {
        if iin1 & 0x80 != 0 && !self.pending.contains(&R_CLEAR) {
            self.pending.insert(R_CLEAR);
            if self.cfg.int != 0 { self.pending.insert(R_INTEGRITY); }
            if self.cfg.en != 0 { self.pending.insert(R_ENABLE); }
            self.integrity_done = false;
        }
        if iin1 & 0x10 != 0 && self.cfg.ts { self.pending.insert(R_TIME); }
        if iin2 & 0x08 != 0 && self.cfg.ovf && self.cfg.int != 0 { self.pending.insert(R_INTEGRITY); }
    }
}

struct Active {
    addr: u16,
    tt: String,
    is_read: bool,
    /// sequence number of the last request transmitted for this task
    req_seq: Option<u8>,
    req_func: u8,
    req_objs: Vec<u8>,
    /// reads: the next fragment expected
    expected_seq: u8,
    first: bool,
    nreq: usize,
    start_time: u64,
    /// time the current step's request went out
    step_time: u64,
    uid: Option<u64>,
    who: String,
    /// SBO: the SELECT echo was faithful
    select_ok: bool,
    poll: Option<usize>,
    orphan: bool,
}

fn class_headers(c: u64) -> Vec<u8> {
    let mut v = Vec::new();
    if c & 1 != 0 { v.extend_from_slice(&[0x3c, 0x02, 0x06]); }
    if c & 2 != 0 { v.extend_from_slice(&[0x3c, 0x03, 0x06]); }
    if c & 4 != 0 { v.extend_from_slice(&[0x3c, 0x04, 0x06]); }
    if c & 8 != 0 { v.extend_from_slice(&[0x3c, 0x01, 0x06]); }
    v
}

fn steps_of(tt: &str) -> u64 {
    match tt {
        "command" | "time_sync" => 2,
        _ => 1,
    }
}

include!("mon_master_check.rs");
