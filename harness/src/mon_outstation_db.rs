//! database-related trace monitors of the outstation engine (C03 event ledger, C11 read series,
//! C13 class / overflow bits, C14 enabled classes), evaluated on the implementation's trace with
//! an independent decoder and an independent ledger of what the harness itself put in.
use crate::util::{hex, unhex};
use std::collections::{BTreeMap, HashSet};
use std::io::Write;

fn fail(mon: &mut dyn Write, hdr: &str, name: &str, cause: &str, detail: &str) {
    let c = if cause.is_empty() { String::new() } else { format!(" cause={cause}") };
    writeln!(mon, "MONITOR-FAIL {hdr} :: {name}{c} :: {detail}").unwrap();
}

#[derive(Clone, Debug, PartialEq)]
struct Ev {
    id: u64,
    is_bin: bool,
    idx: u16,
    class: u8,
    /// wire image of the event object after the index: g2v1 = [flags|state]; g32v1 = [flags, i32 le]
    image: Vec<u8>,
    released: bool,
    discarded: bool,
}

#[derive(Clone, Debug, PartialEq)]
enum Obj {
    BinEvent(u16, Vec<u8>),
    AnEvent(u16, Vec<u8>),
    BinStatic(u16, u8),
    AnStatic(u16, Vec<u8>),
    Other,
}

/// decode the object headers of a response in this engine's vocabulary
fn decode(mut b: &[u8]) -> Option<Vec<Obj>> {
    let mut res = Vec::new();
    while !b.is_empty() {
        if b.len() < 3 {
            return None;
        }
        let (g, v, q) = (b[0], b[1], b[2]);
        b = &b[3..];
        let (start, count, isz): (usize, usize, usize) = match q {
            0x00 => {
                if b.len() < 2 { return None; }
                let r = (b[0] as usize, (b[1] as usize + 1).checked_sub(b[0] as usize)?, 0);
                b = &b[2..];
                r
            }
            0x01 => {
                if b.len() < 4 { return None; }
                let s = u16::from_le_bytes([b[0], b[1]]) as usize;
                let e = u16::from_le_bytes([b[2], b[3]]) as usize;
                b = &b[4..];
                (s, (e + 1).checked_sub(s)?, 0)
            }
            0x07 => {
                if b.is_empty() { return None; }
                let c = b[0] as usize;
                b = &b[1..];
                (0, c, 0)
            }
            0x17 => {
                if b.is_empty() { return None; }
                let c = b[0] as usize;
                b = &b[1..];
                (0, c, 1)
            }
            0x28 => {
                if b.len() < 2 { return None; }
                let c = u16::from_le_bytes([b[0], b[1]]) as usize;
                b = &b[2..];
                (0, c, 2)
            }
            _ => return None,
        };
        if (g, v) == (1, 1) {
            // packed bits: consumed, not interpreted here
            let bytes = (count + 7) / 8;
            if b.len() < bytes {
                return None;
            }
            b = &b[bytes..];
            res.push(Obj::Other);
            continue;
        }
        let size = match (g, v) {
            (1, 2) => 1,
            (2, 1) => 1,
            (30, 1) => 5,
            (30, 2) => 3,
            (30, 3) => 4,
            (30, 4) => 2,
            (30, 5) => 5,
            (30, 6) => 9,
            (32, 1) => 5,
            (12, 1) => 11,
            (41, 1) => 5,
            (41, 2) => 3,
            (41, 3) => 5,
            (41, 4) => 9,
            (52, _) => 2,
            _ => return None,
        };
        for i in 0..count {
            if b.len() < isz + size {
                return None;
            }
            let idx = match isz {
                0 => (start + i) as u16,
                1 => b[0] as u16,
                _ => u16::from_le_bytes([b[0], b[1]]),
            };
            let body = b[isz..isz + size].to_vec();
            b = &b[isz + size..];
            res.push(match (g, v) {
                (2, 1) => Obj::BinEvent(idx, body),
                (32, 1) => Obj::AnEvent(idx, body),
                (1, 2) => Obj::BinStatic(idx, body[0]),
                (30, 1) => Obj::AnStatic(idx, body),
                _ => Obj::Other,
            });
        }
    }
    Some(res)
}

fn analog_image(v: i64, flags: u8) -> Vec<u8> {
    let (val, fl) = if v > i32::MAX as i64 {
        (i32::MAX, flags | 0x20)
    } else if v < i32::MIN as i64 {
        (i32::MIN, flags | 0x20)
    } else {
        (v as i32, flags)
    };
    let mut r = vec![fl];
    r.extend_from_slice(&val.to_le_bytes());
    r
}

fn binary_image(v: bool, flags: u8) -> u8 {
    (flags & 0x7F) | if v { 0x80 } else { 0 }
}

struct TxRec {
    session: usize,
    uns: bool,
    seq: u8,
    carried: Vec<u64>,
}

/// returns the op index of a task panic that the D3 cause predicate explains (a `Written` event
/// was overflow-discarded earlier, which leaves the `written` counters too high)
pub fn check(hdr: &str, lines: &[String], trace: &[(String, Vec<String>)], mon: &mut dyn Write) -> Option<usize> {
    // annotations (`@wf`, `@reject …`) attach to the NEXT op
    let mut ann: Vec<Vec<String>> = Vec::new();
    {
        let mut cur: Vec<String> = Vec::new();
        for l in lines {
            if l.starts_with('@') {
                cur.push(l.clone());
            } else if !l.trim().is_empty() {
                ann.push(std::mem::take(&mut cur));
            }
        }
    }
    let mut d3_possible = false;
    let mut session = 0usize;
    let mut d3_panic: Option<usize> = None;
    // ---- what the harness put in
    let mut bin_pts: BTreeMap<u16, (u8, u8)> = BTreeMap::new(); // idx -> (class, current wire octet)
    let mut an_pts: BTreeMap<u16, (u8, Vec<u8>)> = BTreeMap::new();
    let mut evmax: usize = 10;
    let mut unsolicited = false;
    let mut anymaster = false;
    let mut selfaddr = false;
    let mut ledger: Vec<Ev> = Vec::new();
    let mut txs: Vec<TxRec> = Vec::new();
    let mut enabled = [false; 3];
    let mut any_point = false;
    let mut overflow_expected = false;
    let mut dead = false;
    // READ series tracking (C11)
    struct Series {
        req: Vec<u8>,
        want: Vec<Obj>,
        got: Vec<Obj>,
        first_seq: u8,
        next_seq: u8,
        frags: usize,
        valid: bool,
        /// link address of the requester: only responses sent to it belong to the series
        to: String,
    }
    let mut series: Option<Series> = None;
    let mut sent: HashSet<Vec<u8>> = HashSet::new();
    let mut carried_of: std::collections::HashMap<Vec<u8>, Vec<u64>> = std::collections::HashMap::new();
    let mut last_request: Option<Vec<u8>> = None;
    let mut last_read: Option<Vec<u8>> = None;
    let mut in_sol_wait = false;
    let mut last_sol_fin = true;
    let mut d19_static = false;
    let mut outstanding_unsol: Vec<u64> = Vec::new();
    let mut outstanding_sol: Vec<u64> = Vec::new();

    for (k, (op, outs)) in trace.iter().enumerate() {
        let ws: Vec<&str> = op.split_whitespace().collect();
        if ws.is_empty() || dead {
            continue;
        }
        if outs.iter().any(|o| o == "panic") {
            dead = true;
            if d3_possible {
                d3_panic = Some(k);
            }
            continue;
        }
        match ws[0] {
            "cfg" => {
                for w in &ws[1..] {
                    if let Some(v) = w.strip_prefix("evmax=") {
                        evmax = v.parse().unwrap();
                    }
                    if let Some(v) = w.strip_prefix("unsolicited=") {
                        unsolicited = v == "1";
                    }
                    if let Some(v) = w.strip_prefix("anymaster=") {
                        anymaster = v == "1";
                    }
                    if let Some(v) = w.strip_prefix("selfaddr=") {
                        selfaddr = v == "1";
                    }
                }
            }
            "addbin" | "addan" => {
                let ok = outs.iter().any(|o| o == "add 1");
                if ok {
                    any_point = true;
                    let idx: u16 = ws[1].parse().unwrap();
                    let class: u8 = ws[2].parse().unwrap();
                    if ws[0] == "addbin" {
                        bin_pts.insert(idx, (class, 0x02)); // default: RESTART flag
                    } else {
                        an_pts.insert(idx, (class, vec![0x02, 0, 0, 0, 0]));
                    }
                }
            }
            "addmany" => {
                let start: u16 = ws[2].parse().unwrap();
                let count: u16 = ws[3].parse().unwrap();
                let class: u8 = ws[4].parse().unwrap();
                let ok = outs.iter().find_map(|o| o.strip_prefix("added ").map(|x| x.trim().parse::<u16>().unwrap())).unwrap_or(0);
                if ok > 0 {
                    any_point = true;
                }
                for i in 0..count {
                    let idx = start + i;
                    // a point that already existed keeps its configuration (add returns false)
                    if ws[1] == "bin" {
                        bin_pts.entry(idx).or_insert((class, 0x02));
                    } else {
                        an_pts.entry(idx).or_insert((class, vec![0x02, 0, 0, 0, 0]));
                    }
                }
            }
            "txn" => {
                let upd: Vec<&String> = outs.iter().filter(|o| o.starts_with("upd ")).collect();
                for (item, res) in ws[1..].iter().zip(upd.iter()) {
                    let p: Vec<&str> = item.split(':').collect();
                    let is_bin = p[0] == "bin";
                    let idx: u16 = p[1].parse().unwrap();
                    let flags: u8 = p[3].parse().unwrap();
                    let (class, image) = if is_bin {
                        let img = binary_image(p[2] == "1", flags);
                        match bin_pts.get_mut(&idx) {
                            Some(e) => {
                                e.1 = img;
                                (e.0, vec![img])
                            }
                            None => (0, vec![img]),
                        }
                    } else {
                        let img = analog_image(p[2].parse().unwrap(), flags);
                        match an_pts.get_mut(&idx) {
                            Some(e) => {
                                e.1 = img.clone();
                                (e.0, img)
                            }
                            None => (0, img),
                        }
                    };
                    let r: Vec<&str> = res.split_whitespace().collect();
                    match r[1] {
                        "created" => ledger.push(Ev { id: r[2].parse().unwrap(), is_bin, idx, class, image, released: false, discarded: false }),
                        "overflow" => {
                            let disc: u64 = r[3].parse().unwrap();
                            match ledger.iter_mut().find(|e| e.id == disc) {
                                Some(e) if !e.released && !e.discarded => {
                                    // the discarded event must be the oldest alive one of that type
                                    e.discarded = true;
                                    if txs.iter().any(|t| t.carried.contains(&disc)) {
                                        d3_possible = true;
                                    }
                                }
                                _ => fail(mon, hdr, "overflow_reported", "", &format!("op {k}: discarded id {disc} is not an alive event")),
                            }
                            let oldest = ledger.iter().filter(|e| e.is_bin == is_bin && !e.released).map(|e| (e.id, e.discarded)).next();
                            let _ = oldest;
                            ledger.push(Ev { id: r[2].parse().unwrap(), is_bin, idx, class, image, released: false, discarded: false });
                            overflow_expected = true;
                        }
                        _ => {}
                    }
                }
                // capacity respected per type
                for is_bin in [true, false] {
                    let n = ledger.iter().filter(|e| e.is_bin == is_bin && !e.released && !e.discarded).count();
                    if n > evmax {
                        fail(mon, hdr, "event_buffer_capacity", "", &format!("op {k}: {n} alive events > {evmax}"));
                    }
                }
            }
            "cut" => {
                series = None;
                session += 1;
                // D19 (static half): a disconnect during a multi-fragment series leaves the rest of the
                // selection queued; it is written into the next session's first response
                if in_sol_wait && !last_sol_fin {
                    d19_static = true;
                }
            }
            _ => {}
        }
        if !any_point {
            continue;
        }
        // a byte-identical repeat of the previous request is echoed from the stored header
        let mut repeat_request = false;
        if ws[0] == "rx" && (ws[2] == "1024" || (ws[2] == "65532" && selfaddr)) && (ws[1] == "1" || anymaster) {
            let f = unhex(ws[3]);
            if f.len() >= 2 && f[1] != 0 {
                repeat_request = last_request.as_ref() == Some(&f) && f[1] != 1;
                last_request = Some(f);
            }
        }
        if ws[0] == "cut" {
            last_request = None;
            sent.clear();
            carried_of.clear();
        }
        let mut pending_enable: Vec<(usize, bool)> = Vec::new();
        let mut disable_cancels: Option<u8> = None;
        // enable / disable unsolicited: tracked from the request itself when it was processed
        // (answered when unicast, `broadcast … processed` when broadcast)
        if ws[0] == "rx" {
            let f = unhex(ws[3]);
            let src: u16 = ws[1].parse().unwrap();
            let dst: u16 = ws[2].parse().unwrap();
            let unicast = dst == 1024 || (dst == 0xFFFC && selfaddr);
            let accepted = anymaster || src == 1;
            let processed = (unicast && accepted && outs.iter().any(|o| o.starts_with("tx ")))
                || (dst >= 0xFFFD && outs.iter().any(|o| o.starts_with("cb broadcast") && o.ends_with("processed")));
            // (a DISABLE_UNSOLICITED whose objects do not parse is answered as malformed and cancels nothing)
            let malformed = ann.get(k).map(|a| a.iter().any(|x| x.contains("malformed"))).unwrap_or(false);
            if f.len() >= 2 && f[1] == 21 && f[0] & 0xF0 == 0xC0 && unsolicited && processed && unicast && !repeat_request && !malformed {
                // DISABLE_UNSOLICITED handled during the wait cancels the series (no callback tells); its own
                // reply is written before the series ends, like the reply to any other non-READ request
                // handled during the wait: the cancellation takes effect once that reply has been judged
                disable_cancels = Some(f[0] & 0x0F);
            }
            if f.len() >= 2 && (f[1] == 20 || f[1] == 21) && f[0] & 0xF0 == 0xC0 && unsolicited && processed && !(repeat_request && unicast) {
                let objs = &f[2..];
                if objs.len() % 3 == 0 && objs.chunks(3).all(|c| c[0] == 0x3c && c[2] == 0x06) {
                    // a byte-identical repeat is echoed, not executed — but executing it again is idempotent
                    // a request retained by an aborted confirm wait is processed AFTER the idle pass that
                    // may already have started an unsolicited response in this same op
                    let txb: Vec<Vec<u8>> = outs.iter().filter(|o| o.starts_with("tx ")).map(|o| unhex(o.split_whitespace().nth(2).unwrap_or("-"))).collect();
                    let first_uns = txb.iter().position(|b| b.len() >= 2 && b[1] == 0x82);
                    let first_reply = txb.iter().position(|b| b.len() >= 2 && b[1] == 0x81 && (b[0] & 0x0F) == (f[0] & 0x0F));
                    let deferred_effect = outs.iter().any(|o| o.starts_with("cb sol_new_request"))
                        && match (first_uns, first_reply) {
                            (Some(u), Some(r)) => u < r,
                            (Some(_), None) => {
                                // broadcast: no reply; the callbacks keep their order
                                let pb = outs.iter().position(|o| o.starts_with("cb broadcast"));
                                let pu = outs.iter().position(|o| o.starts_with("cb unsol_wait"));
                                match (pb, pu) {
                                    (Some(b), Some(u)) => u < b,
                                    _ => false,
                                }
                            }
                            _ => false,
                        };
                    for c in objs.chunks(3) {
                        if (2..=4).contains(&c[1]) {
                            if deferred_effect {
                                pending_enable.push(((c[1] - 2) as usize, f[1] == 20));
                            } else {
                                enabled[(c[1] - 2) as usize] = f[1] == 20;
                            }
                        }
                    }
                }
            }
        }

        // responses no longer awaiting confirmation (these callbacks precede this op's transmissions)
        if outs.iter().any(|o| o.starts_with("cb unsol_confirmed") || (o.starts_with("cb unsol_timeout") && o.ends_with(" 0"))) || ws[0] == "cut" {
            outstanding_unsol.clear();
        }
        if outs.iter().any(|o| o.starts_with("cb sol_confirmed") || o.starts_with("cb sol_timeout") || o.starts_with("cb sol_new_request")) || ws[0] == "cut" {
            outstanding_sol.clear();
        }
        // ---- releases (before this op's transmissions: a confirm op clears, then continues the series)
        let cleared: Vec<u64> = outs.iter().filter_map(|o| o.strip_prefix("cb event_cleared ").map(|x| x.trim().parse().unwrap())).collect();
        if outs.iter().any(|o| o.starts_with("cb begin_confirm")) {
            let sol = outs.iter().find_map(|o| o.strip_prefix("cb sol_confirmed ").map(|x| x.trim().parse::<u8>().unwrap()));
            let uns = outs.iter().find_map(|o| o.strip_prefix("cb unsol_confirmed ").map(|x| x.trim().parse::<u8>().unwrap()));
            let confirmed: Option<&TxRec> = match (sol, uns) {
                (Some(s), _) => txs.iter().rev().find(|t| !t.uns && t.seq == s),
                (_, Some(s)) => txs.iter().rev().find(|t| t.uns && t.seq == s),
                _ => None,
            };
            // one clear_written releases one set: when part of it is the D4 / D19 leftover (events stuck in
            // `Written`), the object-to-event matching of the confirmed response (by index and image, oldest
            // unreleased first) may have credited a stuck look-alike instead of the event really carried,
            // so the cause extends to the whole set
            let mut set_cause = "";
            for id in &cleared {
                if !confirmed.map(|t| t.carried.contains(id)).unwrap_or(false) {
                    let carriers: Vec<&TxRec> = txs.iter().filter(|t| t.carried.contains(id)).collect();
                    // the LAST response that carried it decides: earlier solicited carriers that were aborted
                    // or timed out returned it to the pool (database.reset)
                    if carriers.last().map_or(false, |t| t.session < session) {
                        set_cause = "D19";
                    } else if carriers.last().map_or(false, |t| t.uns) && set_cause.is_empty() {
                        set_cause = "D4";
                    }
                }
            }
            for id in &cleared {
                let carried_by_confirmed = confirmed.map(|t| t.carried.contains(id)).unwrap_or(false);
                if !carried_by_confirmed {
                    // D4: carried only by an unsolicited response that was never confirmed
                    let carriers: Vec<&TxRec> = txs.iter().filter(|t| t.carried.contains(id)).collect();
                    let d19 = carriers.last().map_or(false, |t| t.session < session);
                    let d4 = carriers.last().map_or(false, |t| t.uns);
                    fail(mon, hdr, "released_only_after_confirm", if d19 { "D19" } else if d4 { "D4" } else { set_cause }, &format!("op {k}: event {id} released, not carried by the confirmed response"));
                }
                match ledger.iter_mut().find(|e| e.id == *id) {
                    Some(e) => {
                        if e.released {
                            fail(mon, hdr, "released_once", "", &format!("op {k}: event {id} released twice"));
                        }
                        if e.discarded {
                            fail(mon, hdr, "released_once", "", &format!("op {k}: event {id} released after being discarded"));
                        }
                        e.released = true;
                    }
                    None => fail(mon, hdr, "nothing_invented", "", &format!("op {k}: unknown event id {id} released")),
                }
            }
            if let Some(t) = confirmed {
                // every event carried by the confirmed response and still alive must be released now
                for id in &t.carried {
                    if let Some(e) = ledger.iter().find(|e| e.id == *id) {
                        if !e.released && !e.discarded && !cleared.contains(id) {
                            fail(mon, hdr, "confirmed_events_released", "", &format!("op {k}: event {id} carried by the confirmed response was not released"));
                        }
                    }
                }
            }
            // overflow flag clears when a confirmation leaves every type below capacity
            let full = [true, false].iter().any(|b| evmax > 0 && ledger.iter().filter(|e| e.is_bin == *b && !e.released && !e.discarded).count() >= evmax);
            if !full {
                overflow_expected = false;
            }
        } else if !cleared.is_empty() {
            fail(mon, hdr, "released_only_after_confirm", "", &format!("op {k}: events released without a confirm"));
        }

        let mut echo_op = false;
        // ---- a new READ request starts a series expectation (snapshot at request time)
        let to_broadcast = ws[0] == "rx" && matches!(ws[2], "65533" | "65534" | "65535");
        if to_broadcast && (ws[1] == "1" || anymaster) {
            // a broadcast fragment (processed, ignored by configuration or in error) supersedes a deferred READ
            let f = unhex(ws[3]);
            if f.len() >= 2 && !(f[1] == 0 && f[0] & 0xC0 == 0xC0) && series.as_ref().map_or(false, |s| s.frags == 0) {
                series = None;
            }
        }
        if ws[0] == "rx" && (ws[1] == "1" || anymaster) && ws[1].parse::<u32>().map_or(false, |s| s < 0xFFF0) && (ws[2] == "1024" || (ws[2] == "65532" && selfaddr)) {
            let f = unhex(ws[3]);
            let echo_of_read = in_sol_wait && last_read.as_ref() == Some(&f) && !outs.iter().any(|o| o.starts_with("cb sol_new_request"));
            if f.len() >= 2 && f[1] == 1 && f[0] & 0xF0 == 0xC0 {
                last_read = Some(f.clone());
            }
            if echo_of_read {
                // a READ repeated during the confirm wait is echoed from memory: not a new series
                echo_op = true;
            } else if f.len() >= 2 && f[1] == 1 && f[0] & 0xF0 == 0xC0 {
                // the expectation (snapshot) is taken when the first fragment is transmitted: at once for a
                // READ processed from idle, when the unsolicited series ends for a deferred READ
                series = expected_static(&f[2..], &bin_pts, &an_pts).map(|want| Series { req: f[2..].to_vec(), want, got: Vec::new(), first_seq: f[0] & 0x0F, next_seq: f[0] & 0x0F, frags: 0, valid: true, to: ws[1].to_string() });
            } else if f.len() >= 2 && !(f[1] == 0 && f[0] & 0xC0 == 0xC0) {
                // anything but a well-formed CONFIRM supersedes (header errors such as a non FIR/FIN control
                // octet included: they are answered with the request's sequence number)
                series = None;
            }
        }
        if outs.iter().any(|o| o.starts_with("cb sol_timeout") || o.starts_with("cb sol_new_request")) {
            // (a retained new READ re-creates the expectation above in the same op)
            if !(ws[0] == "rx" && unhex(ws[3]).get(1) == Some(&1)) {
                series = None;
            }
        }

        // ---- transmissions
        for o in outs {
            let p: Vec<&str> = o.split_whitespace().collect();
            if p.len() != 3 || p[0] != "tx" {
                continue;
            }
            let b = unhex(p[2]);
            if b.len() < 4 {
                continue;
            }
            let uns = b[1] == 0x82;
            let objs = match decode(&b[4..]) {
                Some(x) => x,
                None => continue,
            };
            // FIFO match of event objects against the ledger, per type, oldest first
            let mut carried = Vec::new();
            let mut pos_bin = 0usize;
            let mut pos_an = 0usize;
            let mut classes_in_tx = [false; 3];
            let resend = sent.contains(&b);
            if resend {
                // a byte-identical re-send carries what the original carried
                carried = carried_of.get(&b).cloned().unwrap_or_default();
            }
            for ob in &objs {
                if resend {
                    break;
                }
                let (is_bin, idx, img) = match ob {
                    Obj::BinEvent(i, v) => (true, *i, v.clone()),
                    Obj::AnEvent(i, v) => (false, *i, v.clone()),
                    _ => continue,
                };
                let pos = if is_bin { &mut pos_bin } else { &mut pos_an };
                let found = ledger.iter().enumerate().skip(*pos).find(|(_, e)| e.is_bin == is_bin && !e.released && !e.discarded && e.idx == idx && e.image == img && !carried.contains(&e.id));
                match found {
                    Some((i, e)) => {
                        *pos = i + 1;
                        carried.push(e.id);
                        if (1..=3).contains(&e.class) {
                            classes_in_tx[(e.class - 1) as usize] = true;
                        }
                    }
                    None => {
                        let stale = ledger.iter().any(|e| e.is_bin == is_bin && e.idx == idx && e.image == img && (e.released || e.discarded));
                        fail(mon, hdr, "nothing_invented", "", &format!("op {k}: event object idx {idx} {} is not a recorded unreleased event (or out of order){}", hex(&img), if stale { " [matches a released/discarded one]" } else { "" }));
                    }
                }
            }
            // unsolicited responses carry only enabled classes (C14)
            if uns {
                for c in 0..3 {
                    if classes_in_tx[c] && !enabled[c] {
                        fail(mon, hdr, "data_only_enabled", "", &format!("op {k}: unsolicited response carries class {} events while disabled", c + 1));
                    }
                }
            }
            // C13: class bits = alive events of that class not carried by THIS (outstanding) response;
            // resent fragments keep their stored bits, so only fresh ones are judged: a fresh fragment is one
            // we have not recorded before
            let fresh = true;
            if fresh {
                let mut want = [false; 3];
                // D4 family: events written into an earlier response that was never confirmed stay
                // `Written` until some later reset, and are not counted as available meanwhile
                let mut stale_written = [false; 3];
                for e in &ledger {
                    if e.released || e.discarded || !(1..=3).contains(&e.class) {
                        continue;
                    }
                    let c = (e.class - 1) as usize;
                    if !carried.contains(&e.id) && !outstanding_unsol.contains(&e.id) && !outstanding_sol.contains(&e.id) {
                        want[c] = true;
                        if txs.iter().any(|t| t.carried.contains(&e.id)) {
                            stale_written[c] = true;
                        }
                    }
                }
                let got = [b[2] & 0x02 != 0, b[2] & 0x04 != 0, b[2] & 0x08 != 0];
                let is_echo = false;
                if !is_echo && got != want {
                    // events stuck in `Written` (D4: last carried by an unsolicited response whose series ended
                    // unconfirmed; D19: last carried in an earlier session) are not offered and not counted; the
                    // object-to-event matching (index and image, oldest unreleased first) may moreover have
                    // credited a stuck look-alike instead of the event really carried, so any stuck event of
                    // the class explains a missing bit
                    let mut stuck_d4 = [false; 3];
                    let mut stuck_d19 = [false; 3];
                    for e in &ledger {
                        if e.released || e.discarded || !(1..=3).contains(&e.class) {
                            continue;
                        }
                        if let Some(t) = txs.iter().rev().find(|t| t.carried.contains(&e.id)) {
                            let c = (e.class - 1) as usize;
                            if t.session < session {
                                stuck_d19[c] = true;
                            } else if t.uns && !outstanding_unsol.contains(&e.id) {
                                stuck_d4[c] = true;
                            }
                        }
                    }
                    let extra = (0..3).any(|c| got[c] && !want[c]);
                    let missing_explained = (0..3).all(|c| !(want[c] && !got[c]) || stale_written[c] || stuck_d4[c] || stuck_d19[c]);
                    let by_d19 = (0..3).any(|c| want[c] && !got[c] && stuck_d19[c]);
                    let cause = if !extra && missing_explained { if by_d19 { "D19" } else { "D4" } } else if d3_possible { "D3" } else { "" };
                    // stored-header echoes are filtered by the caller through `resend` below
                    if !sent.contains(&b) && !repeat_request && !echo_op {
                        fail(mon, hdr, "class_bits_exact", cause, &format!("op {k}: {} class bits got {:?} want {:?}", hex(&b[..4]), got, want));
                    }
                }
                let ov = b[3] & 0x08 != 0;
                if ov != overflow_expected {
                    if !sent.contains(&b) && !repeat_request && !echo_op {
                        fail(mon, hdr, "overflow_bit_interval", "", &format!("op {k}: {} overflow bit got {ov} want {overflow_expected}", hex(&b[..4])));
                    }
                }
            }
            // C11: series bookkeeping
            if !uns && !echo_op {
                if let Some(s) = series.as_mut().filter(|s| s.to == p[1]) {
                    let seq = b[0] & 0x0F;
                    let fir = b[0] & 0x80 != 0;
                    let fin = b[0] & 0x40 != 0;
                    let con = b[0] & 0x20 != 0;
                    if s.frags == 0 && !(fir && seq == s.first_seq) {
                        // not the answer to the tracked READ (e.g. an echo): ignore
                    } else {
                        if s.frags == 0 {
                            if let Some(w) = expected_static(&s.req, &bin_pts, &an_pts) {
                                s.want = w;
                            }
                        }
                        if s.frags > 0 && (fir || seq != s.next_seq) {
                            if fir && seq == s.first_seq {
                                // an echo / fresh answer to a repeated READ: restart
                                s.got.clear();
                                s.frags = 0;
                            } else {
                                s.valid = false;
                            }
                        }
                        let has_events = objs.iter().any(|o| matches!(o, Obj::BinEvent(..) | Obj::AnEvent(..)));
                        if (!fin || has_events) && !con {
                            fail(mon, hdr, "series_shape", "", &format!("op {k}: non-final or event-bearing fragment without CON: {}", hex(&b[..4])));
                        }
                        s.got.extend(objs.iter().filter(|o| matches!(o, Obj::BinStatic(..) | Obj::AnStatic(..))).cloned());
                        s.frags += 1;
                        s.next_seq = (seq + 1) & 0x0F;
                        if fin {
                            if s.valid && s.got != s.want {
                                fail(mon, hdr, "series_covers_exactly_once_snapshot", if d19_static { "D19" } else { "" }, &format!("op {k}: static objects {} reported, {} expected (first difference at {:?})", s.got.len(), s.want.len(), s.got.iter().zip(s.want.iter()).position(|(a, b)| a != b)));
                            }
                            series = None;
                        }
                    }
                }
            }
            if uns {
                outstanding_unsol = carried.clone();
            } else if b[0] & 0x20 != 0 {
                outstanding_sol = carried.clone();
            } else {
                outstanding_sol.clear();
            }
            if !uns && disable_cancels == Some(b[0] & 0x0F) {
                outstanding_unsol.clear();
                disable_cancels = None;
            }
            carried_of.insert(b.clone(), carried.clone());
            if !uns {
                last_sol_fin = b[0] & 0x40 != 0;
            }
            txs.push(TxRec { session, uns, seq: b[0] & 0x0F, carried });
            sent.insert(b.clone());
        }
        if disable_cancels.is_some() {
            outstanding_unsol.clear();
        }
        for (c, v) in pending_enable {
            enabled[c] = v;
        }
        for o in outs {
            if o.starts_with("cb sol_wait") {
                in_sol_wait = true;
            } else if o.starts_with("cb sol_timeout") || o.starts_with("cb sol_new_request") {
                // (a retained request may start a new wait in the same op: handled by sol_wait above order)
                in_sol_wait = outs.iter().rev().take_while(|x| !x.starts_with("cb sol_timeout") && !x.starts_with("cb sol_new_request")).any(|x| x.starts_with("cb sol_wait"));
            } else if o.starts_with("cb sol_confirmed") {
                in_sol_wait = outs.iter().any(|x| x.starts_with("tx ") && { let b = unhex(x.split_whitespace().nth(2).unwrap_or("-")); b.len() >= 2 && b[1] == 0x81 && b[0] & 0x20 != 0 });
            }
        }
        if ws[0] == "cut" {
            in_sol_wait = false;
        }
    }
    d3_panic
}

/// the static objects a READ of these headers must report: per header in request order, each
/// existing point once, ascending.  `None` when the request contains a header outside the
/// vocabulary handled here (no expectation is formed).
fn expected_static(mut o: &[u8], bins: &BTreeMap<u16, (u8, u8)>, ans: &BTreeMap<u16, (u8, Vec<u8>)>) -> Option<Vec<Obj>> {
    let mut want = Vec::new();
    let mut seen_bin: HashSet<u16> = HashSet::new();
    let mut seen_an: HashSet<u16> = HashSet::new();
    let _ = (&mut seen_bin, &mut seen_an);
    while !o.is_empty() {
        if o.len() < 3 {
            return None;
        }
        let (g, v, q) = (o[0], o[1], o[2]);
        o = &o[3..];
        let range: Option<(u16, u16)> = match q {
            0x06 => None,
            0x00 => {
                if o.len() < 2 { return None; }
                let r = (o[0] as u16, o[1] as u16);
                o = &o[2..];
                Some(r)
            }
            0x01 => {
                if o.len() < 4 { return None; }
                let r = (u16::from_le_bytes([o[0], o[1]]), u16::from_le_bytes([o[2], o[3]]));
                o = &o[4..];
                Some(r)
            }
            0x07 => {
                if o.is_empty() { return None; }
                o = &o[1..];
                None
            }
            0x08 => {
                if o.len() < 2 { return None; }
                o = &o[2..];
                None
            }
            _ => return None,
        };
        let in_range = |i: u16| range.map(|(s, e)| s <= i && i <= e).unwrap_or(true);
        if let Some((s, e)) = range {
            if e < s {
                return None;
            }
        }
        let ranged_ok = matches!(q, 0x06 | 0x00 | 0x01);
        let counted_ok = matches!(q, 0x06 | 0x07 | 0x08);
        let valid = match (g, v) {
            (60, 1) => q == 0x06,
            (60, _) | (2, _) | (32, _) => counted_ok,
            (1, _) | (30, _) => ranged_ok,
            _ => false,
        };
        if !valid {
            return None;
        }
        match (g, v) {
            (60, 1) => {
                for (i, (_, img)) in bins {
                    want.push(Obj::BinStatic(*i, *img));
                }
                for (i, (_, img)) in ans {
                    want.push(Obj::AnStatic(*i, img.clone()));
                }
            }
            (60, 2) | (60, 3) | (60, 4) | (2, _) | (32, _) => {}
            (1, 1) | (30, 2) | (30, 3) | (30, 4) | (30, 5) | (30, 6) => return None,
            (1, 0) | (1, 2) => {
                for (i, (_, img)) in bins {
                    if in_range(*i) {
                        want.push(Obj::BinStatic(*i, *img));
                    }
                }
            }
            (30, 0) | (30, 1) => {
                for (i, (_, img)) in ans {
                    if in_range(*i) {
                        want.push(Obj::AnStatic(*i, img.clone()));
                    }
                }
            }
            _ => return None,
        }
    }
    Some(want)
}
