//! database-related trace monitors of the outstation engine (C03 event ledger, C11 read series,
//! C13 class / overflow bits, C14 enabled classes), evaluated on the implementation's trace with
//! an independent decoder and an independent ledger of what the harness itself put in.
use crate::eng_db::{ev_obj_size, has_deadband, norm_value, owes_event, pack_width, ref_event_obj, ref_static_obj, st_obj_size, static_variation, Ty, Val};
use crate::util::{hex, unhex};
use std::collections::{BTreeMap, HashSet};
use std::io::Write;

fn fail(mon: &mut dyn Write, hdr: &str, name: &str, cause: &str, detail: &str) {
    let c = if cause.is_empty() { String::new() } else { format!(" cause={cause}") };
    writeln!(mon, "MONITOR-FAIL {hdr} :: {name}{c} :: {detail}").unwrap();
}

#[derive(Clone, Debug, PartialEq)]
struct Ev {
    id: u64,
    ty: Ty,
    idx: u16,
    class: u8,
    /// what the harness put in (the wire image depends on the variation the event is reported in)
    val: Val,
    released: bool,
    discarded: bool,
}

#[derive(Clone, Debug, PartialEq)]
enum Obj {
    /// type, index, variation, object octets, common time of the preceding g51 header
    Event(Ty, u16, u8, Vec<u8>, Option<u64>),
    /// group, variation, index, object octets (packed variations: one octet holding the bit(s))
    Static(u8, u8, u16, Vec<u8>),
    Other,
}

/// decode the object headers of a response in this engine's vocabulary: the static and event groups of
/// the eight point types (+ g34), the g51 common time, control echoes (g12, g41), g52
fn decode(mut b: &[u8]) -> Option<Vec<Obj>> {
    let mut res = Vec::new();
    let mut cto: Option<u64> = None;
    while !b.is_empty() {
        if b.len() < 3 {
            return None;
        }
        let (g, v, q) = (b[0], b[1], b[2]);
        b = &b[3..];
        let (start, count, isz): (usize, usize, usize) = match q {
            0x00 => {
                if b.len() < 2 { return None; }
                let r = (b[0] as usize, (b[1] as usize + 1).checked_sub(b[0] as usize)?, 0);
                b = &b[2..];
                r
            }
            0x01 => {
                if b.len() < 4 { return None; }
                let s = u16::from_le_bytes([b[0], b[1]]) as usize;
                let e = u16::from_le_bytes([b[2], b[3]]) as usize;
                b = &b[4..];
                (s, (e + 1).checked_sub(s)?, 0)
            }
            0x07 => {
                if b.is_empty() { return None; }
                let c = b[0] as usize;
                b = &b[1..];
                (0, c, 0)
            }
            0x17 => {
                if b.is_empty() { return None; }
                let c = b[0] as usize;
                b = &b[1..];
                (0, c, 1)
            }
            0x28 => {
                if b.len() < 2 { return None; }
                let c = u16::from_le_bytes([b[0], b[1]]) as usize;
                b = &b[2..];
                (0, c, 2)
            }
            _ => return None,
        };
        let w = pack_width(g, v);
        if w != 0 && isz == 0 {
            // packed bits / double bits over a range
            let per = 8 / w;
            let bytes = count.div_ceil(per);
            if b.len() < bytes {
                return None;
            }
            for k in 0..count {
                let val = (b[k / per] >> ((k % per) * w)) & ((1u8 << w) - 1);
                res.push(Obj::Static(g, v, (start + k) as u16, vec![val]));
            }
            b = &b[bytes..];
            continue;
        }
        if g == 51 && q == 0x07 && count == 1 && (v == 1 || v == 2) {
            if b.len() < 6 { return None; }
            let mut t = [0u8; 8];
            t[..6].copy_from_slice(&b[..6]);
            cto = Some(u64::from_le_bytes(t));
            b = &b[6..];
            res.push(Obj::Other);
            continue;
        }
        let ev_ty = if isz == 2 { Ty::from_event_group(g) } else { None };
        let st_known = isz == 0 && (Ty::from_static_group(g).is_some() || g == 34);
        let size = if ev_ty.is_some() {
            ev_obj_size(g, v)?
        } else if st_known {
            st_obj_size(g, v)?
        } else {
            match (g, v) {
                (12, 1) => 11,
                (41, 1) => 5,
                (41, 2) => 3,
                (41, 3) => 5,
                (41, 4) => 9,
                (52, _) => 2,
                _ => return None,
            }
        };
        for i in 0..count {
            if b.len() < isz + size {
                return None;
            }
            let idx = match isz {
                0 => (start + i) as u16,
                1 => b[0] as u16,
                _ => u16::from_le_bytes([b[0], b[1]]),
            };
            let body = b[isz..isz + size].to_vec();
            b = &b[isz + size..];
            res.push(match ev_ty {
                Some(ty) => Obj::Event(ty, idx, v, body, cto),
                None if st_known => Obj::Static(g, v, idx, body),
                None => Obj::Other,
            });
        }
    }
    Some(res)
}

/// the point as the harness knows it: class, configured static variation, current value
#[derive(Clone, Debug)]
struct Pt {
    class: u8,
    svar: u8,
    val: Val,
    /// the detector's dead-band and its baseline: the value last reported as an event
    deadband: u64,
    last_reported: Val,
}

fn new_pt(ty: Ty, class: u8, deadband: u64) -> Pt {
    Pt { class, svar: ty.add_vars().0, val: Val::default_of(ty), deadband: if has_deadband(ty) { deadband } else { 0 }, last_reported: Val::default_of(ty) }
}

type Pts = [BTreeMap<u16, Pt>; 8];

struct TxRec {
    session: usize,
    uns: bool,
    seq: u8,
    carried: Vec<u64>,
}

/// returns the op index of a task panic that the D3 cause predicate explains (a `Written` event
/// was overflow-discarded earlier, which leaves the `written` counters too high)
pub fn check(hdr: &str, lines: &[String], trace: &[(String, Vec<String>)], mon: &mut dyn Write) -> Option<usize> {
    // `disable` (the application stops and restarts communications) ends the session like a link error does
    let mapped: Vec<(String, Vec<String>)> = trace.iter().map(|(o, r)| (if o == "disable" { "cut".to_string() } else { o.clone() }, r.clone())).collect();
    let trace: &[(String, Vec<String>)] = &mapped;
    // annotations (`@wf`, `@reject …`) attach to the NEXT op
    let mut ann: Vec<Vec<String>> = Vec::new();
    {
        let mut cur: Vec<String> = Vec::new();
        for l in lines {
            if l.starts_with('@') {
                cur.push(l.clone());
            } else if !l.trim().is_empty() {
                ann.push(std::mem::take(&mut cur));
            }
        }
    }
    let mut d3_possible = false;
    let mut session = 0usize;
    let mut d3_panic: Option<usize> = None;
    // ---- what the harness put in
    let mut pts: Pts = Default::default();
    // per-type event maxima (`evmax=n`: binary and analog inputs; `evcfg=…`: all eight) and class-zero types
    let mut evmax: [usize; 8] = [0; 8];
    evmax[Ty::Bin.idx()] = 10;
    evmax[Ty::An.idx()] = 10;
    let mut czero: u8 = 0x7F;
    let mut unsolicited = false;
    let mut anymaster = false;
    let mut sol_size: usize = 2048;
    let mut longest_os: usize = 0;
    let mut selfaddr = false;
    let mut ledger: Vec<Ev> = Vec::new();
    let mut txs: Vec<TxRec> = Vec::new();
    let mut enabled = [false; 3];
    let mut any_point = false;
    let mut overflow_expected = false;
    let mut dead = false;
    // READ series tracking (C11)
    struct Series {
        req: Vec<u8>,
        want: Vec<Obj>,
        got: Vec<Obj>,
        first_seq: u8,
        next_seq: u8,
        frags: usize,
        valid: bool,
        /// link address of the requester: only responses sent to it belong to the series
        to: String,
    }
    let mut series: Option<Series> = None;
    let mut sent: HashSet<Vec<u8>> = HashSet::new();
    let mut carried_of: std::collections::HashMap<Vec<u8>, Vec<u64>> = std::collections::HashMap::new();
    let mut last_request: Option<Vec<u8>> = None;
    let mut last_read: Option<Vec<u8>> = None;
    let mut in_sol_wait = false;
    let mut last_sol_fin = true;
    let mut d19_static = false;
    let mut outstanding_unsol: Vec<u64> = Vec::new();
    let mut outstanding_sol: Vec<u64> = Vec::new();

    for (k, (op, outs)) in trace.iter().enumerate() {
        let ws: Vec<&str> = op.split_whitespace().collect();
        if ws.is_empty() || dead {
            continue;
        }
        if outs.iter().any(|o| o == "panic") {
            dead = true;
            if d3_possible {
                d3_panic = Some(k);
            }
            continue;
        }
        match ws[0] {
            "cfg" => {
                for w in &ws[1..] {
                    if let Some(v) = w.strip_prefix("evmax=") {
                        evmax = [0; 8];
                        evmax[Ty::Bin.idx()] = v.parse().unwrap();
                        evmax[Ty::An.idx()] = v.parse().unwrap();
                    }
                    if let Some(v) = w.strip_prefix("evcfg=") {
                        for (i, x) in v.split(',').take(8).enumerate() {
                            evmax[i] = x.parse().unwrap();
                        }
                    }
                    if let Some(v) = w.strip_prefix("czero=") {
                        czero = v.parse().unwrap();
                    }
                    if let Some(v) = w.strip_prefix("unsolicited=") {
                        unsolicited = v == "1";
                    }
                    if let Some(v) = w.strip_prefix("sol=") {
                        sol_size = v.parse().unwrap();
                    }
                    if let Some(v) = w.strip_prefix("anymaster=") {
                        anymaster = v == "1";
                    }
                    if let Some(v) = w.strip_prefix("selfaddr=") {
                        selfaddr = v == "1";
                    }
                }
            }
            "addbin" | "addan" | "add" => {
                let ok = outs.iter().any(|o| o == "add 1");
                if ok {
                    any_point = true;
                    let (ty, a) = match ws[0] {
                        "addbin" => (Ty::Bin, 1),
                        "addan" => (Ty::An, 1),
                        _ => (Ty::from_code(ws[1]).unwrap(), 2),
                    };
                    let idx: u16 = ws[a].parse().unwrap();
                    let class: u8 = ws[a + 1].parse().unwrap();
                    let deadband: u64 = ws.get(a + 2).map(|x| x.parse().unwrap()).unwrap_or(0);
                    pts[ty.idx()].insert(idx, new_pt(ty, class, deadband));
                }
            }
            "addmany" => {
                let ty = Ty::from_code(ws[1]).unwrap();
                let start: u16 = ws[2].parse().unwrap();
                let count: u16 = ws[3].parse().unwrap();
                let class: u8 = ws[4].parse().unwrap();
                let ok = outs.iter().find_map(|o| o.strip_prefix("added ").map(|x| x.trim().parse::<u16>().unwrap())).unwrap_or(0);
                if ok > 0 {
                    any_point = true;
                }
                for i in 0..count {
                    // a point that already existed keeps its configuration (add returns false)
                    pts[ty.idx()].entry(start + i).or_insert(new_pt(ty, class, 0));
                }
            }
            "txn" => {
                let upd: Vec<&String> = outs.iter().filter(|o| o.starts_with("upd ")).collect();
                for (item, res) in ws[1..].iter().zip(upd.iter()) {
                    let p: Vec<&str> = item.split(':').collect();
                    let ty = Ty::from_code(p[0]).unwrap();
                    let idx: u16 = p[1].parse().unwrap();
                    let flags: u8 = p[3].parse().unwrap();
                    let time: u64 = if p[4] == "-" { 0 } else { p[4].parse().unwrap() };
                    let val = if ty == Ty::Os {
                        longest_os = longest_os.max(unhex(p[2]).len());
                        Val { v: 0, flags: 0, time: 0, octets: unhex(p[2]) }
                    } else {
                        Val { v: norm_value(ty, p[2].parse().unwrap()), flags, time, octets: vec![] }
                    };
                    // `UpdateOptions` number: 0..2 = Detect / Force / Suppress, +3 = update_static false
                    let opts: u8 = p.get(5).map(|x| x.parse().unwrap()).unwrap_or(0);
                    let (update_static, mode) = (opts % 6 < 3, opts % 3);
                    let rword = res.split_whitespace().nth(1).unwrap_or("?");
                    let class = match pts[ty.idx()].get_mut(&idx) {
                        Some(e) => {
                            // the event rule: Suppress never, Force always, Detect iff the flags changed or the value is
                            // beyond the dead-band of the value LAST REPORTED as an event; the baseline moves with it
                            let wants = match mode {
                                0 => owes_event(ty, e.deadband, &e.last_reported, &val),
                                1 => true,
                                _ => false,
                            };
                            let recordable = (1..=3).contains(&e.class) && evmax[ty.idx()] != 0;
                            let got_event = rword == "created" || rword == "overflow";
                            if got_event != (wants && recordable) {
                                fail(mon, hdr, "event_iff_beyond_deadband_of_last_reported", "", &format!("op {k}: {res} for {item}: dead-band {}, an event is {}owed (class {}, type maximum {})", e.deadband, if wants { "" } else { "not " }, e.class, evmax[ty.idx()]));
                            }
                            if update_static {
                                e.val = val.clone();
                            }
                            if wants {
                                e.last_reported = val.clone();
                            }
                            e.class
                        }
                        None => 0,
                    };
                    let r: Vec<&str> = res.split_whitespace().collect();
                    match r[1] {
                        "created" => ledger.push(Ev { id: r[2].parse().unwrap(), ty, idx, class, val, released: false, discarded: false }),
                        "overflow" => {
                            let disc: u64 = r[3].parse().unwrap();
                            match ledger.iter_mut().find(|e| e.id == disc) {
                                Some(e) if !e.released && !e.discarded => {
                                    // the discarded event must be the oldest alive one of that type
                                    e.discarded = true;
                                    if txs.iter().any(|t| t.carried.contains(&disc)) {
                                        d3_possible = true;
                                    }
                                }
                                _ => fail(mon, hdr, "overflow_reported", "", &format!("op {k}: discarded id {disc} is not an alive event")),
                            }
                            // the discarded event must be the oldest alive one of that type
                            let oldest = ledger.iter().filter(|e| e.ty == ty && !e.released && (!e.discarded || e.id == disc)).map(|e| e.id).next();
                            if oldest != Some(disc) {
                                fail(mon, hdr, "overflow_discards_oldest_of_type", "", &format!("op {k}: discarded id {disc}, oldest alive {} event {:?}", ty.code(), oldest));
                            }
                            ledger.push(Ev { id: r[2].parse().unwrap(), ty, idx, class, val, released: false, discarded: false });
                            overflow_expected = true;
                        }
                        _ => {}
                    }
                }
                // capacity respected per type
                for ty in Ty::ALL {
                    let n = ledger.iter().filter(|e| e.ty == ty && !e.released && !e.discarded).count();
                    if n > evmax[ty.idx()] {
                        fail(mon, hdr, "event_buffer_capacity", "", &format!("op {k}: {n} alive {} events > {}", ty.code(), evmax[ty.idx()]));
                    }
                }
            }
            "cut" => {
                series = None;
                session += 1;
                // D19 (static half): a disconnect during a multi-fragment series leaves the rest of the
                // selection queued; it is written into the next session's first response
                if in_sol_wait && !last_sol_fin {
                    d19_static = true;
                }
            }
            _ => {}
        }
        if !any_point {
            continue;
        }
        // a byte-identical repeat of the previous request is echoed from the stored header
        let mut repeat_request = false;
        if ws[0] == "rx" && (ws[2] == "1024" || (ws[2] == "65532" && selfaddr)) && (ws[1] == "1" || anymaster) {
            let f = unhex(ws[3]);
            if f.len() >= 2 && f[1] != 0 {
                repeat_request = last_request.as_ref() == Some(&f) && f[1] != 1;
                last_request = Some(f);
            }
        }
        if ws[0] == "cut" {
            last_request = None;
            sent.clear();
            carried_of.clear();
        }
        let mut pending_enable: Vec<(usize, bool)> = Vec::new();
        let mut disable_cancels: Option<u8> = None;
        // enable / disable unsolicited: tracked from the request itself when it was processed
        // (answered when unicast, `broadcast … processed` when broadcast)
        if ws[0] == "rx" {
            let f = unhex(ws[3]);
            let src: u16 = ws[1].parse().unwrap();
            let dst: u16 = ws[2].parse().unwrap();
            let unicast = dst == 1024 || (dst == 0xFFFC && selfaddr);
            let accepted = anymaster || src == 1;
            let processed = (unicast && accepted && outs.iter().any(|o| o.starts_with("tx ")))
                || (dst >= 0xFFFD && outs.iter().any(|o| o.starts_with("cb broadcast") && o.ends_with("processed")));
            // (a DISABLE_UNSOLICITED whose objects do not parse is answered as malformed and cancels nothing)
            let malformed = ann.get(k).map(|a| a.iter().any(|x| x.contains("malformed"))).unwrap_or(false);
            if f.len() >= 2 && f[1] == 21 && f[0] & 0xF0 == 0xC0 && unsolicited && processed && unicast && !repeat_request && !malformed {
                // DISABLE_UNSOLICITED handled during the wait cancels the series (no callback tells); its own
                // reply is written before the series ends, like the reply to any other non-READ request
                // handled during the wait: the cancellation takes effect once that reply has been judged
                disable_cancels = Some(f[0] & 0x0F);
            }
            if f.len() >= 2 && (f[1] == 20 || f[1] == 21) && f[0] & 0xF0 == 0xC0 && unsolicited && processed && !(repeat_request && unicast) {
                let objs = &f[2..];
                if objs.len() % 3 == 0 && objs.chunks(3).all(|c| c[0] == 0x3c && c[2] == 0x06) {
                    // a byte-identical repeat is echoed, not executed — but executing it again is idempotent
                    // a request retained by an aborted confirm wait is processed AFTER the idle pass that
                    // may already have started an unsolicited response in this same op
                    let txb: Vec<Vec<u8>> = outs.iter().filter(|o| o.starts_with("tx ")).map(|o| unhex(o.split_whitespace().nth(2).unwrap_or("-"))).collect();
                    let first_uns = txb.iter().position(|b| b.len() >= 2 && b[1] == 0x82);
                    let first_reply = txb.iter().position(|b| b.len() >= 2 && b[1] == 0x81 && (b[0] & 0x0F) == (f[0] & 0x0F));
                    let deferred_effect = outs.iter().any(|o| o.starts_with("cb sol_new_request"))
                        && match (first_uns, first_reply) {
                            (Some(u), Some(r)) => u < r,
                            (Some(_), None) => {
                                // broadcast: no reply; the callbacks keep their order
                                let pb = outs.iter().position(|o| o.starts_with("cb broadcast"));
                                let pu = outs.iter().position(|o| o.starts_with("cb unsol_wait"));
                                match (pb, pu) {
                                    (Some(b), Some(u)) => u < b,
                                    _ => false,
                                }
                            }
                            _ => false,
                        };
                    for c in objs.chunks(3) {
                        if (2..=4).contains(&c[1]) {
                            if deferred_effect {
                                pending_enable.push(((c[1] - 2) as usize, f[1] == 20));
                            } else {
                                enabled[(c[1] - 2) as usize] = f[1] == 20;
                            }
                        }
                    }
                }
            }
        }

        // responses no longer awaiting confirmation (these callbacks precede this op's transmissions)
        if outs.iter().any(|o| o.starts_with("cb unsol_confirmed") || (o.starts_with("cb unsol_timeout") && o.ends_with(" 0"))) || ws[0] == "cut" {
            outstanding_unsol.clear();
        }
        if outs.iter().any(|o| o.starts_with("cb sol_confirmed") || o.starts_with("cb sol_timeout") || o.starts_with("cb sol_new_request")) || ws[0] == "cut" {
            outstanding_sol.clear();
        }
        // ---- releases (before this op's transmissions: a confirm op clears, then continues the series)
        let cleared: Vec<u64> = outs.iter().filter_map(|o| o.strip_prefix("cb event_cleared ").map(|x| x.trim().parse().unwrap())).collect();
        if outs.iter().any(|o| o.starts_with("cb begin_confirm")) {
            let sol = outs.iter().find_map(|o| o.strip_prefix("cb sol_confirmed ").map(|x| x.trim().parse::<u8>().unwrap()));
            let uns = outs.iter().find_map(|o| o.strip_prefix("cb unsol_confirmed ").map(|x| x.trim().parse::<u8>().unwrap()));
            let confirmed: Option<&TxRec> = match (sol, uns) {
                (Some(s), _) => txs.iter().rev().find(|t| !t.uns && t.seq == s),
                (_, Some(s)) => txs.iter().rev().find(|t| t.uns && t.seq == s),
                _ => None,
            };
            // one clear_written releases one set: when part of it is the D4 / D19 leftover (events stuck in
            // `Written`), the object-to-event matching of the confirmed response (by index and image, oldest
            // unreleased first) may have credited a stuck look-alike instead of the event really carried,
            // so the cause extends to the whole set
            let mut set_cause = "";
            for id in &cleared {
                if !confirmed.map(|t| t.carried.contains(id)).unwrap_or(false) {
                    let carriers: Vec<&TxRec> = txs.iter().filter(|t| t.carried.contains(id)).collect();
                    // the LAST response that carried it decides: earlier solicited carriers that were aborted
                    // or timed out returned it to the pool (database.reset)
                    if carriers.last().map_or(false, |t| t.session < session) {
                        set_cause = "D19";
                    } else if carriers.last().map_or(false, |t| t.uns) && set_cause.is_empty() {
                        set_cause = "D4";
                    }
                }
            }
            for id in &cleared {
                let carried_by_confirmed = confirmed.map(|t| t.carried.contains(id)).unwrap_or(false);
                if !carried_by_confirmed {
                    // D4: carried only by an unsolicited response that was never confirmed
                    let carriers: Vec<&TxRec> = txs.iter().filter(|t| t.carried.contains(id)).collect();
                    let d19 = carriers.last().map_or(false, |t| t.session < session);
                    let d4 = carriers.last().map_or(false, |t| t.uns);
                    fail(mon, hdr, "released_only_after_confirm", if d19 { "D19" } else if d4 { "D4" } else { set_cause }, &format!("op {k}: event {id} released, not carried by the confirmed response"));
                }
                match ledger.iter_mut().find(|e| e.id == *id) {
                    Some(e) => {
                        if e.released {
                            fail(mon, hdr, "released_once", "", &format!("op {k}: event {id} released twice"));
                        }
                        if e.discarded {
                            fail(mon, hdr, "released_once", "", &format!("op {k}: event {id} released after being discarded"));
                        }
                        e.released = true;
                    }
                    None => fail(mon, hdr, "nothing_invented", "", &format!("op {k}: unknown event id {id} released")),
                }
            }
            if let Some(t) = confirmed {
                // every event carried by the confirmed response and still alive must be released now
                for id in &t.carried {
                    if let Some(e) = ledger.iter().find(|e| e.id == *id) {
                        if !e.released && !e.discarded && !cleared.contains(id) {
                            fail(mon, hdr, "confirmed_events_released", "", &format!("op {k}: event {id} carried by the confirmed response was not released"));
                        }
                    }
                }
            }
            // overflow flag clears when a confirmation leaves every type below capacity
            let full = Ty::ALL.iter().any(|t| evmax[t.idx()] > 0 && ledger.iter().filter(|e| e.ty == *t && !e.released && !e.discarded).count() >= evmax[t.idx()]);
            if !full {
                overflow_expected = false;
            }
        } else if !cleared.is_empty() {
            fail(mon, hdr, "released_only_after_confirm", "", &format!("op {k}: events released without a confirm"));
        }

        let mut echo_op = false;
        let mut fresh_read: Option<Vec<u8>> = None;
        // ---- a new READ request starts a series expectation (snapshot at request time)
        let to_broadcast = ws[0] == "rx" && matches!(ws[2], "65533" | "65534" | "65535");
        if to_broadcast && (ws[1] == "1" || anymaster) {
            // a broadcast fragment (processed, ignored by configuration or in error) supersedes a deferred READ
            let f = unhex(ws[3]);
            if f.len() >= 2 && !(f[1] == 0 && f[0] & 0xC0 == 0xC0) && series.as_ref().map_or(false, |s| s.frags == 0) {
                series = None;
            }
        }
        if ws[0] == "rx" && (ws[1] == "1" || anymaster) && ws[1].parse::<u32>().map_or(false, |s| s < 0xFFF0) && (ws[2] == "1024" || (ws[2] == "65532" && selfaddr)) {
            let f = unhex(ws[3]);
            let echo_of_read = in_sol_wait && last_read.as_ref() == Some(&f) && !outs.iter().any(|o| o.starts_with("cb sol_new_request"));
            if f.len() >= 2 && f[1] == 1 && f[0] & 0xF0 == 0xC0 {
                last_read = Some(f.clone());
            }
            if echo_of_read {
                // a READ repeated during the confirm wait is echoed from memory: not a new series
                echo_op = true;
            } else if f.len() >= 2 && f[1] == 1 && f[0] & 0xF0 == 0xC0 {
                fresh_read = Some(f.clone());
                // the expectation (snapshot) is taken when the first fragment is transmitted: at once for a
                // READ processed from idle, when the unsolicited series ends for a deferred READ
                series = expected_static(&f[2..], &pts, czero).map(|want| Series { req: f[2..].to_vec(), want, got: Vec::new(), first_seq: f[0] & 0x0F, next_seq: f[0] & 0x0F, frags: 0, valid: true, to: ws[1].to_string() });
            } else if f.len() >= 2 && !(f[1] == 0 && f[0] & 0xC0 == 0xC0) {
                // anything but a well-formed CONFIRM supersedes (header errors such as a non FIR/FIN control
                // octet included: they are answered with the request's sequence number)
                series = None;
            }
        }
        if outs.iter().any(|o| o.starts_with("cb sol_timeout") || o.starts_with("cb sol_new_request")) {
            // (a retained new READ re-creates the expectation above in the same op)
            if !(ws[0] == "rx" && unhex(ws[3]).get(1) == Some(&1)) {
                series = None;
            }
        }

        // ---- transmissions
        for o in outs {
            let p: Vec<&str> = o.split_whitespace().collect();
            if p.len() != 3 || p[0] != "tx" {
                continue;
            }
            let b = unhex(p[2]);
            if b.len() < 4 {
                continue;
            }
            let uns = b[1] == 0x82;
            // C11 (orderly series) / C01 (never stalls): a non-final solicited fragment that carries no object makes
            // no progress; the series it belongs to can never finish.  D15: an octet string (static g110 or event
            // g111) that can never fit the transmit buffer is retried fragment after fragment
            if !uns && b[1] == 0x81 && b.len() == 4 && b[0] & 0x40 == 0 {
                let d15 = longest_os + 7 > sol_size.saturating_sub(4);
                fail(mon, hdr, "series_makes_progress", if d15 { "D15" } else { "" }, &format!("op {k}: non-final solicited fragment without objects: {}", hex(&b)));
            }
            let objs = match decode(&b[4..]) {
                Some(x) => x,
                None => continue,
            };
            // FIFO match of event objects against the ledger, per type, oldest first
            let mut carried = Vec::new();
            let mut pos = [0usize; 8];
            let mut classes_in_tx = [false; 3];
            let resend = sent.contains(&b);
            if resend {
                // a byte-identical re-send carries what the original carried
                carried = carried_of.get(&b).cloned().unwrap_or_default();
            }
            for ob in &objs {
                if resend {
                    break;
                }
                let (ty, idx, var, raw, cto) = match ob {
                    Obj::Event(t, i, v, r, c) => (*t, *i, *v, r.clone(), *c),
                    _ => continue,
                };
                let pos = &mut pos[ty.idx()];
                let found = ledger.iter().enumerate().skip(*pos).find(|(_, e)| {
                    e.ty == ty && !e.released && !e.discarded && e.idx == idx && !carried.contains(&e.id) && ref_event_obj(ty, var, &e.val, cto).as_deref() == Some(&raw[..])
                });
                match found {
                    Some((i, e)) => {
                        *pos = i + 1;
                        carried.push(e.id);
                        if (1..=3).contains(&e.class) {
                            classes_in_tx[(e.class - 1) as usize] = true;
                        }
                    }
                    None => {
                        let stale = ledger.iter().any(|e| e.ty == ty && e.idx == idx && (e.released || e.discarded) && ref_event_obj(ty, var, &e.val, cto).as_deref() == Some(&raw[..]));
                        fail(mon, hdr, "nothing_invented", "", &format!("op {k}: event object g{}v{var} idx {idx} {} is not a recorded unreleased event (or out of order){}", ty.event_group(), hex(&raw), if stale { " [matches a released/discarded one]" } else { "" }));
                    }
                }
            }
            // C03 ("keeps being offered in later polls"): a complete (FIR, FIN) answer to a READ whose headers are class
            // polls (g60v2..v4: all objects, or limited by a count) carries, for each class asked once, the oldest
            // min(limit, available) events of that class: a count limit applies to the events that MATCH the header
            if !uns && !resend && b[0] & 0xC0 == 0xC0 {
                if let Some(req) = fresh_read.take() {
                    if (req[0] & 0x0F) == (b[0] & 0x0F) {
                        // parse headers: 3c vv 06 | 3c vv 07 nn | 3c vv 08 nn nn ; anything else: no judgement
                        let mut want: [Option<usize>; 3] = [None; 3];
                        let mut asked = [0u8; 3];
                        let mut ok = true;
                        let mut o = &req[2..];
                        while !o.is_empty() && ok {
                            if o.len() >= 3 && o[0] == 0x3c && (2..=4).contains(&o[1]) {
                                let c = (o[1] - 2) as usize;
                                let (lim, used) = match o[2] {
                                    0x06 => (usize::MAX, 3),
                                    0x07 if o.len() >= 4 => (o[3] as usize, 4),
                                    0x08 if o.len() >= 5 => (o[3] as usize | (o[4] as usize) << 8, 5),
                                    _ => { ok = false; (0, 0) }
                                };
                                if ok {
                                    asked[c] += 1;
                                    want[c] = Some(lim);
                                    o = &o[used..];
                                }
                            } else if o.len() >= 3 && o[0] == 0x3c && o[1] == 1 && o[2] == 0x06 {
                                o = &o[3..]; // class 0: static data, after the events
                            } else {
                                ok = false;
                            }
                        }
                        if ok {
                            for c in 0..3 {
                                if asked[c] != 1 {
                                    continue;
                                }
                                let avail: Vec<u64> = ledger.iter().filter(|e| !e.released && !e.discarded && e.class as usize == c + 1 && !outstanding_unsol.contains(&e.id)).map(|e| e.id).collect();
                                let need = want[c].unwrap().min(avail.len());
                                let got = carried.iter().filter(|id| ledger.iter().any(|e| e.id == **id && e.class as usize == c + 1)).count();
                                if got < need {
                                    fail(mon, hdr, "class_poll_returns_oldest_matching", "", &format!("op {k}: READ {} answered completely with {got} class {} event(s), {need} expected ({} available)", hex(&req), c + 1, avail.len()));
                                }
                            }
                        }
                    }
                }
            }
            // unsolicited responses carry only enabled classes (C14)
            if uns {
                for c in 0..3 {
                    if classes_in_tx[c] && !enabled[c] {
                        fail(mon, hdr, "data_only_enabled", "", &format!("op {k}: unsolicited response carries class {} events while disabled", c + 1));
                    }
                }
            }
            // C13: class bits = alive events of that class not carried by THIS (outstanding) response;
            // resent fragments keep their stored bits, so only fresh ones are judged: a fresh fragment is one
            // we have not recorded before
            let fresh = true;
            if fresh {
                let mut want = [false; 3];
                // D4 family: events written into an earlier response that was never confirmed stay
                // `Written` until some later reset, and are not counted as available meanwhile
                let mut stale_written = [false; 3];
                for e in &ledger {
                    if e.released || e.discarded || !(1..=3).contains(&e.class) {
                        continue;
                    }
                    let c = (e.class - 1) as usize;
                    if !carried.contains(&e.id) && !outstanding_unsol.contains(&e.id) && !outstanding_sol.contains(&e.id) {
                        want[c] = true;
                        if txs.iter().any(|t| t.carried.contains(&e.id)) {
                            stale_written[c] = true;
                        }
                    }
                }
                let got = [b[2] & 0x02 != 0, b[2] & 0x04 != 0, b[2] & 0x08 != 0];
                let is_echo = false;
                if !is_echo && got != want {
                    // events stuck in `Written` (D4: last carried by an unsolicited response whose series ended
                    // unconfirmed; D19: last carried in an earlier session) are not offered and not counted; the
                    // object-to-event matching (index and image, oldest unreleased first) may moreover have
                    // credited a stuck look-alike instead of the event really carried, so any stuck event of
                    // the class explains a missing bit
                    let mut stuck_d4 = [false; 3];
                    let mut stuck_d19 = [false; 3];
                    for e in &ledger {
                        if e.released || e.discarded || !(1..=3).contains(&e.class) {
                            continue;
                        }
                        if let Some(t) = txs.iter().rev().find(|t| t.carried.contains(&e.id)) {
                            let c = (e.class - 1) as usize;
                            if t.session < session {
                                stuck_d19[c] = true;
                            } else if t.uns && !outstanding_unsol.contains(&e.id) {
                                stuck_d4[c] = true;
                            }
                        }
                    }
                    let extra = (0..3).any(|c| got[c] && !want[c]);
                    let missing_explained = (0..3).all(|c| !(want[c] && !got[c]) || stale_written[c] || stuck_d4[c] || stuck_d19[c]);
                    let by_d19 = (0..3).any(|c| want[c] && !got[c] && stuck_d19[c]);
                    let cause = if !extra && missing_explained { if by_d19 { "D19" } else { "D4" } } else if d3_possible { "D3" } else { "" };
                    // stored-header echoes are filtered by the caller through `resend` below
                    if !sent.contains(&b) && !repeat_request && !echo_op {
                        fail(mon, hdr, "class_bits_exact", cause, &format!("op {k}: {} class bits got {:?} want {:?}", hex(&b[..4]), got, want));
                    }
                }
                let ov = b[3] & 0x08 != 0;
                if ov != overflow_expected {
                    if !sent.contains(&b) && !repeat_request && !echo_op {
                        fail(mon, hdr, "overflow_bit_interval", "", &format!("op {k}: {} overflow bit got {ov} want {overflow_expected}", hex(&b[..4])));
                    }
                }
            }
            // C11: series bookkeeping
            if !uns && !echo_op {
                if let Some(s) = series.as_mut().filter(|s| s.to == p[1]) {
                    let seq = b[0] & 0x0F;
                    let fir = b[0] & 0x80 != 0;
                    let fin = b[0] & 0x40 != 0;
                    let con = b[0] & 0x20 != 0;
                    if s.frags == 0 && !(fir && seq == s.first_seq) {
                        // not the answer to the tracked READ (e.g. an echo): ignore
                    } else {
                        if s.frags == 0 {
                            if let Some(w) = expected_static(&s.req, &pts, czero) {
                                s.want = w;
                            }
                        }
                        if s.frags > 0 && (fir || seq != s.next_seq) {
                            if fir && seq == s.first_seq {
                                // an echo / fresh answer to a repeated READ: restart
                                s.got.clear();
                                s.frags = 0;
                            } else {
                                s.valid = false;
                            }
                        }
                        let has_events = objs.iter().any(|o| matches!(o, Obj::Event(..)));
                        if (!fin || has_events) && !con {
                            fail(mon, hdr, "series_shape", "", &format!("op {k}: non-final or event-bearing fragment without CON: {}", hex(&b[..4])));
                        }
                        s.got.extend(objs.iter().filter(|o| matches!(o, Obj::Static(..))).cloned());
                        s.frags += 1;
                        s.next_seq = (seq + 1) & 0x0F;
                        if fin {
                            if s.valid && s.got != s.want {
                                fail(mon, hdr, "series_covers_exactly_once_snapshot", if d19_static { "D19" } else { "" }, &format!("op {k}: static objects {} reported, {} expected (first difference at {:?})", s.got.len(), s.want.len(), s.got.iter().zip(s.want.iter()).position(|(a, b)| a != b)));
                            }
                            series = None;
                        }
                    }
                }
            }
            if uns {
                outstanding_unsol = carried.clone();
            } else if b[0] & 0x20 != 0 {
                outstanding_sol = carried.clone();
            } else {
                outstanding_sol.clear();
            }
            if !uns && disable_cancels == Some(b[0] & 0x0F) {
                outstanding_unsol.clear();
                disable_cancels = None;
            }
            carried_of.insert(b.clone(), carried.clone());
            if !uns {
                last_sol_fin = b[0] & 0x40 != 0;
            }
            txs.push(TxRec { session, uns, seq: b[0] & 0x0F, carried });
            sent.insert(b.clone());
        }
        if disable_cancels.is_some() {
            outstanding_unsol.clear();
        }
        for (c, v) in pending_enable {
            enabled[c] = v;
        }
        for o in outs {
            if o.starts_with("cb sol_wait") {
                in_sol_wait = true;
            } else if o.starts_with("cb sol_timeout") || o.starts_with("cb sol_new_request") {
                // (a retained request may start a new wait in the same op: handled by sol_wait above order)
                in_sol_wait = outs.iter().rev().take_while(|x| !x.starts_with("cb sol_timeout") && !x.starts_with("cb sol_new_request")).any(|x| x.starts_with("cb sol_wait"));
            } else if o.starts_with("cb sol_confirmed") {
                in_sol_wait = outs.iter().any(|x| x.starts_with("tx ") && { let b = unhex(x.split_whitespace().nth(2).unwrap_or("-")); b.len() >= 2 && b[1] == 0x81 && b[0] & 0x20 != 0 });
            }
        }
        if ws[0] == "cut" {
            in_sol_wait = false;
        }
    }
    d3_panic
}

/// the static objects a READ of these headers must report: per header in request order, each
/// existing point once, ascending, in the requested (else the configured) variation after promotion.
/// `None` when the request contains a header the request parser does not accept in a READ or one outside
/// the vocabulary handled here (no expectation is formed).
fn expected_static(mut o: &[u8], pts: &Pts, czero: u8) -> Option<Vec<Obj>> {
    let mut want = Vec::new();
    while !o.is_empty() {
        if o.len() < 3 {
            return None;
        }
        let (g, v, q) = (o[0], o[1], o[2]);
        o = &o[3..];
        let range: Option<(u16, u16)> = match q {
            0x06 => None,
            0x00 => {
                if o.len() < 2 { return None; }
                let r = (o[0] as u16, o[1] as u16);
                o = &o[2..];
                Some(r)
            }
            0x01 => {
                if o.len() < 4 { return None; }
                let r = (u16::from_le_bytes([o[0], o[1]]), u16::from_le_bytes([o[2], o[3]]));
                o = &o[4..];
                Some(r)
            }
            0x07 => {
                if o.is_empty() { return None; }
                o = &o[1..];
                None
            }
            0x08 => {
                if o.len() < 2 { return None; }
                o = &o[2..];
                None
            }
            _ => return None,
        };
        if let Some((s, e)) = range {
            if e < s {
                return None;
            }
        }
        let ranged_ok = matches!(q, 0x06 | 0x00 | 0x01);
        let counted_ok = matches!(q, 0x06 | 0x07 | 0x08);
        let st_ty = Ty::from_static_group(g);
        let ev_ty = Ty::from_event_group(g);
        let valid = if g == 60 {
            if v == 1 { q == 0x06 } else { (2..=4).contains(&v) && counted_ok }
        } else if let Some(t) = st_ty {
            ranged_ok && (v == 0 || t.static_vars().contains(&v))
        } else if let Some(t) = ev_ty {
            // g111 with a count accepts every variation (answered NO_FUNC_CODE_SUPPORT unless 0)
            counted_ok && (v == 0 || t.event_vars().contains(&v) || (t == Ty::Os && q != 0x06))
        } else {
            false
        };
        if !valid {
            return None;
        }
        let mut push_type = |ty: Ty, req: u8, whole: bool| {
            let map = &pts[ty.idx()];
            for (i, p) in map.iter() {
                if whole || range.map(|(s, e)| s <= *i && *i <= e).unwrap_or(true) {
                    let (eg, ev) = static_variation(ty, req, p.svar, &p.val);
                    want.push(Obj::Static(eg, ev, *i, ref_static_obj(eg, ev, &p.val)));
                }
            }
        };
        if (g, v) == (60, 1) {
            for ty in Ty::ALL {
                if czero & (1 << ty.idx()) != 0 {
                    push_type(ty, 0, true);
                }
            }
        } else if let Some(ty) = st_ty {
            push_type(ty, v, false);
        }
    }
    Some(want)
}
