//! engine `ffi` (C20): the binding layer `dnp3-ffi` against the table `Gen/FfiArms.lean`.
//!
//! ops:   arms <impl id>          run the REAL `From` of that conversion on every source variant the table lists
//!                                (generated probe `ffi_probe_gen.rs`); out: `arm <impl> <lhs> -> <rhs>` per arm
//!        finding D21 | D22       replay of a known finding on the real code; out: `finding <id> present=<bool>`
//!        @db <seed> <n>          (monitor only) `n` random database operations applied through the binding-level
//!                                `dnp3_database_*` functions and through the native `Database` on a twin instance
//!        @struct <name>          (monitor only) field-by-field check of a struct conversion with distinct values
//! out:   arm ... | finding ... | ok
use crate::ffi_probe_gen as probe;
use crate::rng::Rng;
use crate::util::*;
use std::io::Write;

/// the first `depth` identifiers of a `Debug` rendering, following nested parentheses:
/// `Some(Synchronized(Timestamp { .. }))`, depth 2 -> `Some.Synchronized`
pub fn head(s: &str, depth: usize) -> String {
    let mut res: Vec<String> = Vec::new();
    let mut cur = String::new();
    for c in s.chars() {
        if c.is_alphanumeric() || c == '_' {
            cur.push(c);
        } else {
            if !cur.is_empty() {
                res.push(std::mem::take(&mut cur));
                if res.len() == depth {
                    break;
                }
            }
            if c != '(' {
                break;
            }
        }
    }
    if !cur.is_empty() && res.len() < depth {
        res.push(cur);
    }
    if res.is_empty() {
        "?".to_string()
    } else {
        res.join(".")
    }
}

/// the text following `<field>: ` in a derived `Debug` rendering of a struct (`?` when absent)
pub fn dbg_field(s: &str, field: &str) -> String {
    let key = format!("{field}: ");
    let mut from = 0;
    while let Some(pos) = s[from..].find(&key) {
        let at = from + pos;
        let boundary = at == 0 || !(s.as_bytes()[at - 1].is_ascii_alphanumeric() || s.as_bytes()[at - 1] == b'_');
        if boundary {
            return s[at + key.len()..].to_string();
        }
        from = at + key.len();
    }
    "?".to_string()
}

/// one canonical output line per arm; every boundary payload must give the same target variant
pub fn line(id: &str, lhs: &str, obs: &[String]) -> String {
    let first = obs.first().cloned().unwrap_or_else(|| "?".to_string());
    if obs.iter().all(|o| *o == first) {
        format!("arm {id} {lhs} -> {first}")
    } else {
        format!("arm {id} {lhs} -> INCONSISTENT({})", obs.join("|"))
    }
}

pub fn gen(thorough: bool, seed: u64, w: &mut dyn Write) {
    let mut r = Rng::new(seed);
    let mut case = 0u64;
    // (1) every conversion the probe can reach, exhaustively (one case per conversion)
    for id in probe::IMPLS {
        writeln!(w, "# case {case} kind=arms").unwrap();
        writeln!(w, "arms {id}").unwrap();
        case += 1;
    }
    // (2) known finding replay + struct conversions with distinct field values
    writeln!(w, "# case {case} kind=finding").unwrap();
    writeln!(w, "finding D21").unwrap();
    case += 1;
    writeln!(w, "# case {case} kind=finding").unwrap();
    writeln!(w, "finding D22").unwrap();
    case += 1;
    for name in crate::eng_ffi_db::STRUCT_CHECKS {
        writeln!(w, "# case {case} kind=struct").unwrap();
        writeln!(w, "@struct {name}").unwrap();
        case += 1;
    }
    // (3) database equivalence: random operation sequences
    let n_cases = if thorough { 600 } else { 120 };
    for _ in 0..n_cases {
        let len = if r.chance(1, 4) { r.range(1, 8) } else { r.range(20, 200) };
        writeln!(w, "# case {case} kind=db").unwrap();
        writeln!(w, "@db {} {}", r.next(), len).unwrap();
        case += 1;
    }
}

pub fn run(ops: &str, out: &mut dyn Write, mon: &mut dyn Write) {
    let mut stats = Stats::default();
    for (hdr, lines) in split_cases(ops) {
        writeln!(out, "{hdr}").unwrap();
        stats.note_case(&lines.join("\n"));
        stats.hit(&format!("kind_{}", case_attr(&hdr, "kind").unwrap_or("?")));
        for l in &lines {
            let w: Vec<&str> = l.split_whitespace().collect();
            match w.as_slice() {
                ["arms", id] => {
                    let mut v = Vec::new();
                    let r = std::panic::catch_unwind(std::panic::AssertUnwindSafe(|| probe::run(id, &mut v)));
                    match r {
                        Ok(true) => {
                            stats.add("arms_executed", v.len() as u64);
                            for x in v {
                                writeln!(out, "{x}").unwrap();
                            }
                        }
                        Ok(false) => writeln!(out, "unknown-impl {id}").unwrap(),
                        Err(_) => writeln!(out, "panic").unwrap(),
                    }
                    writeln!(out, "ok").unwrap();
                }
                ["finding", "D21"] => {
                    let present = crate::eng_ffi_db::d21_present();
                    writeln!(out, "finding D21 present={present}").unwrap();
                    writeln!(out, "ok").unwrap();
                    if present {
                        writeln!(mon, "MONITOR-FAIL {hdr} :: ffi_struct_fields_lossless cause=D21 :: From<dnp3::app::Permissions> for ffi::Permissions: group <- world, owner <- group (owner's permissions lost)").unwrap();
                    }
                }
                ["finding", "D22"] => {
                    let present = crate::eng_ffi_db::d22_present();
                    writeln!(out, "finding D22 present={present}").unwrap();
                    writeln!(out, "ok").unwrap();
                    if present {
                        writeln!(mon, "MONITOR-FAIL {hdr} :: ffi_variant_namesake cause=D22 :: ffi::EmptyResponseError: TaskError::RejectedByIin2 -> IinError and WriteError::IinError -> RejectedByIin2 (both names exist on the ffi side; exchanged)").unwrap();
                    }
                }
                ["@struct", name] => {
                    for fail in crate::eng_ffi_db::struct_check(name, &mut stats) {
                        writeln!(mon, "MONITOR-FAIL {hdr} :: ffi_struct_fields_lossless :: {fail}").unwrap();
                    }
                }
                ["@db", seed, n] => {
                    let seed: u64 = seed.parse().unwrap_or(0);
                    let n: usize = n.parse().unwrap_or(0);
                    let r = std::panic::catch_unwind(std::panic::AssertUnwindSafe(|| {
                        let mut st = Stats::default();
                        let f = crate::eng_ffi_db::db_case(seed, n, &mut st);
                        (f, st)
                    }));
                    match r {
                        Ok((fails, st)) => {
                            for (k, v) in st.counts {
                                stats.add(&k, v);
                            }
                            for fail in fails.into_iter().take(3) {
                                writeln!(mon, "MONITOR-FAIL {hdr} :: ffi_database_equivalent :: {fail}").unwrap();
                            }
                        }
                        Err(_) => writeln!(mon, "MONITOR-FAIL {hdr} :: ffi_database_equivalent :: panic in the database run").unwrap(),
                    }
                }
                [] => {}
                _ => {
                    if !l.starts_with('@') {
                        writeln!(out, "bad-op").unwrap();
                    }
                }
            }
        }
    }
    stats.dump(mon);
}
