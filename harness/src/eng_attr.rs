//! engine `attr` (C09, device attributes = group 0): the real `Database::define_attr`, READ selection,
//! response writers (`Selection::write_all`, `write_attr_list`, `HeaderWriter::write_attribute`), the
//! master's attribute request builder and the library's own parser, through `hooks/attr_probe.rs`,
//! against the Lean model `Dnp3.Model.Attr` (driver `Dnp3/Driver/Attr.lean`).
//!
//! ops:  new | reset
//!       def <set> <var> <writable 0|1> <kind> <payload>      kind: vstr ostr bstr (hex) | uint int time (decimal) | f32 f64 (hex bits)
//!       sel <hex of READ object headers>                     (group 0 only; accumulates until written or reset)
//!       write <cap>                                          write_response_headers into a cursor of <cap> octets
//!       parse <function code> <hex of object headers>        the library's parser on generator-made objects
//!       mwrite <cap> <set>:<var>:<kind>:<payload> ...        the master's WRITE request builder
//!       wattr <hex of WRITE object headers>                  what the outstation does with a WRITE of attributes
//! out:  def ok | def err <text> ; sel <iin2> | parse-error | not-g0 ; resp <hex> <complete> + fragment dump ;
//!       req <hex> + fragment dump | req err <text> ; wr <results> | parse-error ; panic ; ok
//!       fragment dump: a <q> <set> <var> <kind> <payload> | r <var> <q> <spec> | h <g> <v> <q> ; n <headers> | objerr <e>
//!
//! Monitors (the reference decoder / bookkeeping below is independent of the library and of the model):
//!   attr_fragment_is_whole_objects   every emitted fragment is a sequence of complete g0 objects
//!   attr_response_parses_back        every emitted fragment is accepted by the library's parser, which
//!                                    yields exactly the reference decoding, which is exactly the next
//!                                    objects the READ denotes (what was defined, in order, nothing lost)
//!   attr_parser_accepts_only_exact   the parser accepts generator-made octets iff they are exactly a
//!                                    sequence of well-formed objects, with the reference's values
//!   attr_request_parses_back         a built master request parses back to the attributes given
//!   response_within_capacity, no_panic
use crate::rng::Rng;
use crate::util::*;
use dnp3::verif_hooks::attr_probe::{self, AttrProbe, SelectResult, Val};
use std::collections::{BTreeMap, VecDeque};
use std::io::Write;

// ------------------------------------------------------------------------------------------
// reference: values, decoder (IEEE 1815-2012 11.9.10 / Annex A.1: attribute data types)
// ------------------------------------------------------------------------------------------
#[derive(Clone, Debug, PartialEq)]
enum RVal {
    Vstr(Vec<u8>),
    Uint(u32),
    Int(i32),
    F32(u32),
    F64(u64),
    Ostr(Vec<u8>),
    Bstr(Vec<u8>),
    Time(u64),
    List(Vec<(u8, bool)>),
}

impl RVal {
    fn of(v: &Val) -> RVal {
        match v {
            Val::Vstr(b) => RVal::Vstr(b.clone()),
            Val::Uint(x) => RVal::Uint(*x),
            Val::Int(x) => RVal::Int(*x),
            Val::F32(x) => RVal::F32(*x),
            Val::F64(x) => RVal::F64(*x),
            Val::Ostr(b) => RVal::Ostr(b.clone()),
            Val::Bstr(b) => RVal::Bstr(b.clone()),
            Val::Time(t) => RVal::Time(*t & 0xFFFF_FFFF_FFFF),
        }
    }
    /// the length octet is one octet: longer strings have no attribute encoding
    fn encodable(&self) -> bool {
        match self {
            RVal::Vstr(b) | RVal::Ostr(b) | RVal::Bstr(b) => b.len() <= 255,
            _ => true,
        }
    }
    fn render(&self) -> String {
        match self {
            RVal::Vstr(b) => format!("vstr {}", hex(b)),
            RVal::Uint(x) => format!("uint {x}"),
            RVal::Int(x) => format!("int {x}"),
            RVal::F32(x) => format!("f32 {x:08x}"),
            RVal::F64(x) => format!("f64 {x:016x}"),
            RVal::Ostr(b) => format!("ostr {}", hex(b)),
            RVal::Bstr(b) => format!("bstr {}", hex(b)),
            RVal::Time(t) => format!("time {t}"),
            RVal::List(items) => {
                if items.is_empty() {
                    "list -".to_string()
                } else {
                    format!("list {}", items.iter().map(|(v, w)| format!("{v}:{}", *w as u8)).collect::<Vec<_>>().join(","))
                }
            }
        }
    }
}

fn le(b: &[u8]) -> u64 {
    b.iter().rev().fold(0u64, |a, x| (a << 8) | *x as u64)
}

/// one attribute value (type, length, payload): the value and the octets it occupies
fn ref_decode_value(b: &[u8]) -> Result<(RVal, usize), String> {
    if b.len() < 2 {
        return Err("ends before the type / length octets".to_string());
    }
    let (t, len) = (b[0], b[1] as usize);
    let need = match t {
        1 | 5 | 6 => len,
        2 | 3 => {
            if ![1, 2, 4].contains(&len) {
                return Err(format!("integer of length {len}"));
            }
            len
        }
        4 => {
            if len != 4 && len != 8 {
                return Err(format!("float of length {len}"));
            }
            len
        }
        7 => {
            if len != 6 {
                return Err(format!("time of length {len}"));
            }
            6
        }
        254 | 255 => {
            let n = if t == 255 { len + 256 } else { len };
            if n % 2 != 0 {
                return Err(format!("attribute list of odd length {n}"));
            }
            n
        }
        _ => return Err(format!("unknown data type {t}")),
    };
    if b.len() < 2 + need {
        return Err(format!("type {t} length {len} implies {need} value octets, {} present", b.len() - 2));
    }
    let d = &b[2..2 + need];
    let v = match t {
        1 => {
            if std::str::from_utf8(d).is_err() {
                return Err("visible string is not UTF-8".to_string());
            }
            RVal::Vstr(d.to_vec())
        }
        2 => RVal::Uint(le(d) as u32),
        3 => RVal::Int(match len {
            1 => d[0] as i8 as i32,
            2 => le(d) as u16 as i16 as i32,
            _ => le(d) as u32 as i32,
        }),
        4 => {
            if len == 4 {
                RVal::F32(le(d) as u32)
            } else {
                RVal::F64(le(d))
            }
        }
        5 => RVal::Ostr(d.to_vec()),
        6 => RVal::Bstr(d.to_vec()),
        7 => RVal::Time(le(d)),
        _ => RVal::List(d.chunks(2).map(|p| (p[0], p[1] & 1 != 0)).collect()),
    };
    Ok((v, 2 + need))
}

#[derive(Clone, Debug, PartialEq)]
struct RObj {
    set: u8,
    var: u8,
    val: RVal,
}

impl RObj {
    fn line(&self, q: u8) -> String {
        format!("a {q} {} {} {}", self.set, self.var, self.val.render())
    }
}

/// a response's object section as the outstation writes attributes: g0, variation, qualifier 0x00,
/// start = stop = set, value.  Returns the objects decoded and, if the octets are not a sequence of
/// whole objects, the offset and reason.
fn ref_decode_objects(b: &[u8]) -> (Vec<RObj>, Option<(usize, String)>) {
    let mut out = Vec::new();
    let mut i = 0usize;
    while i < b.len() {
        if b.len() - i < 5 {
            return (out, Some((i, format!("{} octets left: not an object header", b.len() - i))));
        }
        let h = &b[i..i + 5];
        if h[0] != 0 || h[2] != 0x00 || h[3] != h[4] || h[1] == 0 || h[1] == 254 {
            return (out, Some((i, format!("not a single-set group 0 header: {}", hex(h)))));
        }
        match ref_decode_value(&b[i + 5..]) {
            Err(e) => return (out, Some((i, format!("object g0v{} set {}: {e}", h[1], h[3])))),
            Ok((val, n)) => {
                out.push(RObj { set: h[3], var: h[1], val });
                i += 5 + n;
            }
        }
    }
    (out, None)
}

/// the reference's judgement of generator-made object octets for a function code
enum Verdict {
    /// exactly a sequence of well-formed headers: their canonical lines
    Exact(Vec<String>, Vec<Option<RObj>>),
    NotExact(String),
    /// a construct the reference does not judge (other groups, other qualifiers, g0v254 outside READ, ...)
    NoOpinion,
}

fn ref_walk(function: u8, b: &[u8]) -> Verdict {
    let is_read = function == 1;
    let mut lines = Vec::new();
    let mut objs = Vec::new();
    let mut i = 0usize;
    while i < b.len() {
        if b.len() - i < 3 {
            return Verdict::NotExact(format!("offset {i}: header cut short"));
        }
        let (g, v, q) = (b[i], b[i + 1], b[i + 2]);
        if g != 0 {
            return Verdict::NoOpinion;
        }
        if v == 0 {
            return Verdict::NotExact("g0v0 is not an object".to_string());
        }
        if v == 254 && q != 0x06 && !is_read {
            // "all attributes" is a request-only variation: no object to judge
            return Verdict::NoOpinion;
        }
        i += 3;
        match q {
            0x06 => {
                lines.push(format!("r {v} 6 -"));
                objs.push(None);
            }
            0x00 | 0x01 => {
                let w = if q == 0 { 1 } else { 2 };
                if b.len() - i < 2 * w {
                    return Verdict::NotExact(format!("offset {i}: range cut short"));
                }
                let s = le(&b[i..i + w]) as u16;
                let e = le(&b[i + w..i + 2 * w]) as u16;
                i += 2 * w;
                if e < s {
                    return Verdict::NotExact(format!("range {s}..{e}"));
                }
                if is_read {
                    lines.push(format!("r {v} {q} {s}..{e}"));
                    objs.push(None);
                    continue;
                }
                if v == 254 {
                    return Verdict::NoOpinion;
                }
                if s != e {
                    return Verdict::NotExact(format!("range {s}..{e} announces {} objects, one value can follow", e - s + 1));
                }
                if s > 255 {
                    return Verdict::NotExact(format!("set {s} > 255"));
                }
                match ref_decode_value(&b[i..]) {
                    Err(e) => return Verdict::NotExact(format!("offset {i}: {e}")),
                    Ok((val, n)) => {
                        let o = RObj { set: s as u8, var: v, val };
                        lines.push(o.line(q));
                        objs.push(Some(o));
                        i += n;
                    }
                }
            }
            0x17 | 0x28 => {
                if is_read {
                    return Verdict::NoOpinion;
                }
                let w = if q == 0x17 { 1 } else { 2 };
                if b.len() - i < w {
                    return Verdict::NotExact(format!("offset {i}: count cut short"));
                }
                let count = le(&b[i..i + w]);
                i += w;
                if count != 1 {
                    return Verdict::NotExact(format!("count {count}: one value can follow"));
                }
                if b.len() - i < w {
                    return Verdict::NotExact(format!("offset {i}: prefix cut short"));
                }
                let set = le(&b[i..i + w]);
                i += w;
                if set > 255 {
                    return Verdict::NotExact(format!("set {set} > 255"));
                }
                match ref_decode_value(&b[i..]) {
                    Err(e) => return Verdict::NotExact(format!("offset {i}: {e}")),
                    Ok((val, n)) => {
                        let o = RObj { set: set as u8, var: v, val };
                        lines.push(o.line(q));
                        objs.push(Some(o));
                        i += n;
                    }
                }
            }
            _ => return Verdict::NoOpinion,
        }
    }
    lines.push(format!("n {}", objs.len()));
    Verdict::Exact(lines, objs)
}

// ------------------------------------------------------------------------------------------
// reference: attribute database and what a READ denotes
// ------------------------------------------------------------------------------------------
const MAX_SELECTED: usize = 32;

#[derive(Default)]
struct RefDb {
    sets: BTreeMap<u8, BTreeMap<u8, (bool, RVal)>>,
    /// objects the open series still owes, per selected header (in order)
    pending: VecDeque<VecDeque<RObj>>,
    /// a write happened since the selection began (a later `sel` / `def` makes the reference unsure)
    series_written: bool,
    unreliable: bool,
}

impl RefDb {
    fn objects_of_set(&self, set: u8) -> VecDeque<RObj> {
        self.sets
            .get(&set)
            .map(|m| m.iter().filter(|(_, (_, v))| v.encodable()).map(|(var, (_, v))| RObj { set, var: *var, val: v.clone() }).collect())
            .unwrap_or_default()
    }
    fn list_of_set(&self, set: u8) -> VecDeque<RObj> {
        match self.sets.get(&set) {
            None => VecDeque::new(),
            Some(m) => {
                let items: Vec<(u8, bool)> = m.iter().map(|(var, (w, _))| (*var, *w)).collect();
                if items.len() > 255 {
                    VecDeque::new()
                } else {
                    VecDeque::from(vec![RObj { set, var: 255, val: RVal::List(items) }])
                }
            }
        }
    }
    fn push(&mut self, item: VecDeque<RObj>) {
        if self.pending.len() < MAX_SELECTED {
            self.pending.push_back(item);
        }
    }
    /// the READ headers of one `sel` op (group 0, qualifiers 0x00 / 0x01 / 0x06)
    fn select(&mut self, b: &[u8]) {
        if self.series_written && !self.pending.is_empty() {
            self.unreliable = true;
        }
        let mut i = 0usize;
        while i + 3 <= b.len() {
            let (v, q) = (b[i + 1], b[i + 2]);
            i += 3;
            match q {
                0x06 => {
                    let sets: Vec<u8> = self.sets.keys().copied().collect();
                    for s in sets {
                        match v {
                            254 => {
                                let o = self.objects_of_set(s);
                                self.push(o)
                            }
                            255 => {
                                let o = self.list_of_set(s);
                                self.push(o)
                            }
                            _ => {}
                        }
                    }
                }
                0x00 | 0x01 => {
                    let w = if q == 0 { 1 } else { 2 };
                    if i + 2 * w > b.len() {
                        return;
                    }
                    let s = le(&b[i..i + w]);
                    let e = le(&b[i + w..i + 2 * w]);
                    i += 2 * w;
                    if s != e || s > 255 {
                        continue;
                    }
                    let set = s as u8;
                    match v {
                        254 => {
                            let o = self.objects_of_set(set);
                            self.push(o)
                        }
                        255 => {
                            let o = self.list_of_set(set);
                            self.push(o)
                        }
                        0 => {}
                        _ => {
                            if let Some((_, val)) = self.sets.get(&set).and_then(|m| m.get(&v)) {
                                let item = if val.encodable() { VecDeque::from(vec![RObj { set, var: v, val: val.clone() }]) } else { VecDeque::new() };
                                self.push(item);
                            }
                        }
                    }
                }
                0x07 | 0x17 => i += 1,
                0x08 | 0x28 => i += 2,
                _ => return,
            }
        }
    }
    fn end_series(&mut self) {
        self.pending.clear();
        self.series_written = false;
        self.unreliable = false;
    }
}

struct Mon<'a> {
    w: &'a mut dyn Write,
    hdr: String,
    stats: &'a mut Stats,
}

impl<'a> Mon<'a> {
    fn fail(&mut self, name: &str, cause: Option<&str>, detail: &str) {
        let c = cause.map(|c| format!(" cause={c}")).unwrap_or_default();
        writeln!(self.w, "MONITOR-FAIL {} :: {name}{c} :: {detail}", self.hdr).unwrap();
        self.stats.hit(&format!("monfail_{name}{}", cause.map(|c| format!("_{c}")).unwrap_or_default()));
    }
}

fn parse_val(kind: &str, payload: &str) -> Option<Val> {
    let hexok = |s: &str| s == "-" || (s.len() % 2 == 0 && s.bytes().all(|c| c.is_ascii_hexdigit()));
    Some(match kind {
        "vstr" if hexok(payload) => Val::Vstr(unhex(payload)),
        "ostr" if hexok(payload) => Val::Ostr(unhex(payload)),
        "bstr" if hexok(payload) => Val::Bstr(unhex(payload)),
        "uint" => Val::Uint(payload.parse().ok()?),
        "int" => Val::Int(payload.parse().ok()?),
        "time" => Val::Time(payload.parse().ok()?),
        "f32" => Val::F32(u32::from_str_radix(payload, 16).ok()?),
        "f64" => Val::F64(u64::from_str_radix(payload, 16).ok()?),
        _ => return None,
    })
}

/// do the library's `a` lines differ from the reference's only in one-octet negative INTs read
/// back as 256 + value (finding D29)?
fn only_d29(lib: &[String], reference: &[String]) -> bool {
    if lib.len() != reference.len() {
        return false;
    }
    let mut any = false;
    for (l, r) in lib.iter().zip(reference) {
        if l == r {
            continue;
        }
        let lw: Vec<&str> = l.split(' ').collect();
        let rw: Vec<&str> = r.split(' ').collect();
        if lw.len() != 6 || rw.len() != 6 || lw[..5] != rw[..5] || lw[4] != "int" {
            return false;
        }
        match (lw[5].parse::<i64>(), rw[5].parse::<i64>()) {
            (Ok(a), Ok(b)) if (-128..0).contains(&b) && a == b + 256 => any = true,
            _ => return false,
        }
    }
    any
}

// ------------------------------------------------------------------------------------------
// run
// ------------------------------------------------------------------------------------------
pub fn run(ops: &str, out: &mut dyn Write, mon_w: &mut dyn Write) {
    std::panic::set_hook(Box::new(|_| {}));
    let mut stats = Stats::default();
    for (hdr, lines) in split_cases(ops) {
        writeln!(out, "{hdr}").unwrap();
        let kind = case_attr(&hdr, "kind").unwrap_or("?").to_string();
        stats.hit(&format!("kind_{kind}"));
        stats.note_case(&lines.join("\n"));
        let mut probe = AttrProbe::new();
        let mut rf = RefDb::default();
        let mut dead = false;
        for (opn, line) in lines.iter().enumerate() {
            let ws: Vec<&str> = line.split_whitespace().collect();
            if ws.is_empty() || ws[0].starts_with('@') {
                continue;
            }
            stats.hit(&format!("op_{}", ws[0]));
            let mut m = Mon { w: mon_w, hdr: hdr.clone(), stats: &mut stats };
            macro_rules! panicked {
                () => {{
                    writeln!(out, "panic").unwrap();
                    writeln!(out, "ok").unwrap();
                    if !dead {
                        m.fail("no_panic", None, &format!("op {opn}: {}", &line[..line.len().min(120)]));
                    }
                    dead = true;
                    continue;
                }};
            }
            match ws.as_slice() {
                ["new"] => {
                    probe = AttrProbe::new();
                    rf = RefDb::default();
                    dead = false;
                }
                ["reset"] => {
                    if probe.reset().is_err() {
                        panicked!()
                    }
                    rf.end_series();
                }
                ["def", set, var, w, kind, payload] => {
                    let parsed = (set.parse::<u8>().ok(), var.parse::<u8>().ok(), parse_val(kind, payload));
                    let (set, var, val) = match parsed {
                        (Some(s), Some(v), Some(x)) => (s, v, x),
                        _ => {
                            writeln!(out, "def err badspec\nok").unwrap();
                            continue;
                        }
                    };
                    let writable = *w == "1";
                    match probe.define(set, var, writable, &val) {
                        Err(()) => panicked!(),
                        Ok(Err(e)) => {
                            m.stats.hit(&format!("def_err_{}", e.split(' ').next().unwrap_or("")));
                            writeln!(out, "def err {e}").unwrap();
                        }
                        Ok(Ok(())) => {
                            writeln!(out, "def ok").unwrap();
                            m.stats.hit(&format!("def_{kind}"));
                            m.stats.hit(if set == 0 { "def_default_set" } else { "def_private_set" });
                            let rv = RVal::of(&val);
                            if !rv.encodable() {
                                m.stats.hit("def_unencodable_value");
                            }
                            if !rf.pending.is_empty() {
                                rf.unreliable = true;
                            }
                            rf.sets.entry(set).or_default().insert(var, (writable, rv));
                        }
                    }
                }
                ["sel", h] => {
                    let bytes = unhex(h);
                    match probe.select(&bytes) {
                        Err(()) => panicked!(),
                        Ok(SelectResult::ParseError) => {
                            m.stats.hit("select_parse_error");
                            writeln!(out, "parse-error").unwrap();
                        }
                        Ok(SelectResult::NotGroup0) => writeln!(out, "not-g0").unwrap(),
                        Ok(SelectResult::Iin2(iin2)) => {
                            writeln!(out, "sel {iin2}").unwrap();
                            m.stats.hit(&format!("select_iin2_{iin2}"));
                            rf.select(&bytes);
                        }
                    }
                }
                ["write", cap] => {
                    let cap: usize = cap.parse().unwrap();
                    let (bytes, _he, complete) = match probe.write_response(cap) {
                        Err(()) => panicked!(),
                        Ok(x) => x,
                    };
                    writeln!(out, "resp {} {}", hex(&bytes), complete as u8).unwrap();
                    let mut frag = vec![0xC0, 0x81, 0x00, 0x00];
                    frag.extend_from_slice(&bytes);
                    let lib = attr_probe::parse_fragment(&frag);
                    for l in &lib {
                        writeln!(out, "{l}").unwrap();
                    }
                    m.stats.hit(if bytes.is_empty() { "write_empty" } else { "write_nonempty" });
                    m.stats.hit(if complete { "write_complete" } else { "write_incomplete" });
                    m.stats.hit(match cap {
                        0..=244 => "cap_below_245",
                        245..=292 => "cap_245_292",
                        _ => "cap_above_292",
                    });
                    if lib.iter().any(|l| l == "panic" || l == "display panic") {
                        m.fail("no_panic", None, &format!("op {opn}: parsing / displaying the emitted fragment {}", hex(&frag)));
                    }
                    if bytes.len() > cap {
                        m.fail("response_within_capacity", None, &format!("op {opn}: {} octets, cap {cap}", bytes.len()));
                    }
                    // ---- every fragment is a sequence of whole objects
                    let (objs, bad) = ref_decode_objects(&bytes);
                    m.stats.add("objects_emitted", objs.len() as u64);
                    for o in &objs {
                        if let RVal::List(items) = &o.val {
                            m.stats.hit(match items.len() {
                                0..=127 => "list_le_127",
                                128 => "list_128",
                                129..=255 => "list_ge_129",
                                _ => "list_gt_255",
                            });
                        }
                    }
                    let mut d27 = false;
                    if let Some((off, why)) = &bad {
                        // finding D27: the tail is the beginning of the object of a defined attribute (single-attribute
                        // path; the list object of `write_attr_list` has always been transactional)
                        let t = &bytes[*off..];
                        d27 = t.len() >= 5 && t[0] == 0 && t[2] == 0 && t[3] == t[4] && rf.sets.get(&t[3]).map_or(false, |s| s.contains_key(&t[1]));
                        m.fail(
                            "attr_fragment_is_whole_objects",
                            if d27 { Some("D27") } else { None },
                            &format!("op {opn}: cap {cap} complete={} fragment of {} octets: at offset {off}: {why}; tail {}", complete as u8, bytes.len(), hex(&t[..t.len().min(24)])),
                        );
                    }
                    // ---- the library's parser accepts the fragment and yields the reference decoding
                    let lib_objs: Vec<String> = lib.iter().filter(|l| l.starts_with("a ")).cloned().collect();
                    let ref_lines: Vec<String> = objs.iter().map(|o| o.line(0)).collect();
                    if let Some(e) = lib.iter().find(|l| l.starts_with("objerr") || l.starts_with("err ")) {
                        m.fail(
                            "attr_response_parses_back",
                            if d27 { Some("D27") } else { None },
                            &format!("op {opn}: the library's parser rejects the emitted fragment ({e}); cap {cap}, {} octets, objects {}", bytes.len(), hex(&bytes[..bytes.len().min(40)])),
                        );
                    } else if bad.is_none() && lib_objs != ref_lines {
                        let d29 = only_d29(&lib_objs, &ref_lines);
                        let k = lib_objs.iter().zip(&ref_lines).position(|(a, b)| a != b).unwrap_or(lib_objs.len().min(ref_lines.len()));
                        m.fail(
                            "attr_response_parses_back",
                            if d29 { Some("D29") } else { None },
                            &format!("op {opn}: object {k}: parser yields `{}`, the octets say `{}`", lib_objs.get(k).map(|s| &s[..s.len().min(80)]).unwrap_or("<none>"), ref_lines.get(k).map(|s| &s[..s.len().min(80)]).unwrap_or("<none>")),
                        );
                    }
                    // ---- the objects are the next ones the READ denotes: nothing lost, nothing invented
                    if !rf.unreliable && bad.is_none() {
                        let mut ok = true;
                        for (k, o) in objs.iter().enumerate() {
                            while rf.pending.front().map_or(false, |f| f.is_empty()) {
                                rf.pending.pop_front();
                            }
                            match rf.pending.front_mut().and_then(|f| f.pop_front()) {
                                Some(e) if e == *o => {}
                                other => {
                                    ok = false;
                                    let e = other.map(|e| e.line(0)).unwrap_or_else(|| "<nothing more selected>".to_string());
                                    let s = o.line(0);
                                    m.fail("attr_response_parses_back", None, &format!("op {opn}: object {k} is `{}`, the READ denotes `{}` next", &s[..s.len().min(80)], &e[..e.len().min(80)]));
                                    rf.unreliable = true;
                                    break;
                                }
                            }
                        }
                        if ok && complete {
                            let left: usize = rf.pending.iter().map(|f| f.len()).sum();
                            if left > 0 {
                                let e = rf.pending.iter().flatten().next().unwrap().line(0);
                                m.fail("attr_response_parses_back", None, &format!("op {opn}: series complete but {left} selected object(s) were never sent, first `{}`", &e[..e.len().min(80)]));
                            }
                        }
                    }
                    rf.series_written = true;
                    if complete {
                        rf.end_series();
                    }
                }
                ["parse", function, h] => {
                    let function: u8 = function.parse().unwrap();
                    let bytes = unhex(h);
                    let mut frag = vec![0xC0, function];
                    if function == 129 || function == 130 {
                        frag.extend_from_slice(&[0, 0]);
                    }
                    frag.extend_from_slice(&bytes);
                    let lib = attr_probe::parse_fragment(&frag);
                    for l in &lib {
                        writeln!(out, "{l}").unwrap();
                    }
                    if lib.iter().any(|l| l == "panic" || l == "display panic") {
                        m.fail("no_panic", None, &format!("op {opn}: parse {function} {}", hex(&bytes[..bytes.len().min(60)])));
                    } else if !lib.iter().any(|l| l.starts_with("err hdr")) {
                        let accepted = !lib.iter().any(|l| l.starts_with("objerr"));
                        m.stats.hit(if accepted { "parse_accepted" } else { "parse_rejected" });
                        match ref_walk(function, &bytes) {
                            Verdict::NoOpinion => m.stats.hit("parse_reference_no_opinion"),
                            Verdict::NotExact(why) => {
                                m.stats.hit("parse_reference_not_exact");
                                if accepted {
                                    m.fail("attr_parser_accepts_only_exact", None, &format!("op {opn}: accepted, but the octets are not exactly what type and length imply ({why}): fn {function} {}", hex(&bytes[..bytes.len().min(60)])));
                                }
                            }
                            Verdict::Exact(ref_lines, _) => {
                                m.stats.hit("parse_reference_exact");
                                if !accepted {
                                    m.fail("attr_parser_accepts_only_exact", None, &format!("op {opn}: well-formed objects rejected ({}): fn {function} {}", lib.iter().find(|l| l.starts_with("objerr")).unwrap(), hex(&bytes[..bytes.len().min(60)])));
                                } else if lib != ref_lines {
                                    let la: Vec<String> = lib.iter().filter(|l| l.starts_with("a ")).cloned().collect();
                                    let ra: Vec<String> = ref_lines.iter().filter(|l| l.starts_with("a ")).cloned().collect();
                                    let d29 = only_d29(&la, &ra);
                                    let k = lib.iter().zip(&ref_lines).position(|(a, b)| a != b).unwrap_or(0);
                                    m.fail(
                                        "attr_parser_accepts_only_exact",
                                        if d29 { Some("D29") } else { None },
                                        &format!("op {opn}: header {k}: parser yields `{}`, the octets say `{}`", lib.get(k).map(|s| &s[..s.len().min(80)]).unwrap_or("<none>"), ref_lines.get(k).map(|s| &s[..s.len().min(80)]).unwrap_or("<none>")),
                                    );
                                }
                            }
                        }
                    }
                }
                ["mwrite", cap, specs @ ..] => {
                    let cap: usize = cap.parse().unwrap();
                    let mut attrs = Vec::new();
                    let mut bad = false;
                    for s in specs {
                        let p: Vec<&str> = s.split(':').collect();
                        match (p.len(), p.first().and_then(|x| x.parse::<u8>().ok()), p.get(1).and_then(|x| x.parse::<u8>().ok())) {
                            (4, Some(set), Some(var)) => match parse_val(p[2], p[3]) {
                                Some(v) => attrs.push((set, var, v)),
                                None => bad = true,
                            },
                            _ => bad = true,
                        }
                    }
                    if bad {
                        writeln!(out, "req err badspec\nok").unwrap();
                        continue;
                    }
                    match attr_probe::master_write(cap, &attrs) {
                        Err(()) => panicked!(),
                        Ok(Err(e)) => {
                            m.stats.hit(&format!("mwrite_err_{}", e.split(' ').next().unwrap_or("")));
                            writeln!(out, "req err {e}").unwrap();
                            if e.starts_with("badattr") && attrs.iter().all(|(_, _, v)| RVal::of(v).encodable()) {
                                m.fail("attr_request_parses_back", None, &format!("op {opn}: builder reports `{e}` but every value is encodable"));
                            }
                        }
                        Ok(Ok(frag)) => {
                            m.stats.hit("mwrite_built");
                            writeln!(out, "req {}", hex(&frag)).unwrap();
                            let lib = attr_probe::parse_fragment(&frag);
                            for l in &lib {
                                writeln!(out, "{l}").unwrap();
                            }
                            if frag.len() > cap {
                                m.fail("response_within_capacity", None, &format!("op {opn}: request of {} octets, cap {cap}", frag.len()));
                            }
                            let (objs, badobj) = ref_decode_objects(&frag[2.min(frag.len())..]);
                            let want: Vec<RObj> = attrs.iter().map(|(s, v, x)| RObj { set: *s, var: *v, val: RVal::of(x) }).collect();
                            // finding D30: the builder takes the variations 0 and 254, which are not objects
                            let d30 = if attrs.iter().any(|(_, v, _)| *v == 0 || *v == 254) { Some("D30") } else { None };
                            if let Some((off, why)) = badobj {
                                m.fail("attr_request_parses_back", d30, &format!("op {opn}: built request is not whole objects: offset {off}: {why}"));
                            } else if objs != want {
                                m.fail("attr_request_parses_back", None, &format!("op {opn}: built request decodes to {} objects, {} were given (or values differ)", objs.len(), want.len()));
                            } else {
                                let ref_lines: Vec<String> = objs.iter().map(|o| o.line(0)).chain(std::iter::once(format!("n {}", objs.len()))).collect();
                                if lib != ref_lines {
                                    let la: Vec<String> = lib.iter().filter(|l| l.starts_with("a ")).cloned().collect();
                                    let ra: Vec<String> = ref_lines.iter().filter(|l| l.starts_with("a ")).cloned().collect();
                                    let d29 = only_d29(&la, &ra);
                                    let k = lib.iter().zip(&ref_lines).position(|(a, b)| a != b).unwrap_or(0);
                                    m.fail(
                                        "attr_request_parses_back",
                                        if d29 { Some("D29") } else { None },
                                        &format!("op {opn}: header {k}: parser yields `{}`, built from `{}`", lib.get(k).map(|s| &s[..s.len().min(80)]).unwrap_or("<none>"), ref_lines.get(k).map(|s| &s[..s.len().min(80)]).unwrap_or("<none>")),
                                    );
                                }
                            }
                        }
                    }
                }
                ["wattr", h] => {
                    let bytes = unhex(h);
                    match probe.write_request(&bytes) {
                        Err(()) => panicked!(),
                        Ok(None) => writeln!(out, "parse-error").unwrap(),
                        Ok(Some(res)) => {
                            writeln!(out, "wr {}", if res.is_empty() { "-".to_string() } else { res.join(",") }).unwrap();
                            if !rf.pending.is_empty() {
                                rf.unreliable = true;
                            }
                            // the reference follows the values the request carries (its own decoding)
                            match ref_walk(2, &bytes) {
                                Verdict::Exact(_, objs) if objs.len() == res.len() => {
                                    for (o, r) in objs.iter().zip(&res) {
                                        if let (Some(o), "ok") = (o, r.as_str()) {
                                            m.stats.hit("wattr_ok");
                                            if let Some(e) = rf.sets.get_mut(&o.set).and_then(|s| s.get_mut(&o.var)) {
                                                e.1 = o.val.clone();
                                            }
                                        }
                                    }
                                }
                                _ => {
                                    // the reference cannot follow: stop comparing values for this case
                                    if res.iter().any(|r| r == "ok") {
                                        rf.sets.clear();
                                        rf.unreliable = true;
                                    }
                                }
                            }
                        }
                    }
                }
                _ => {
                    writeln!(out, "bad-op").unwrap();
                }
            }
            writeln!(out, "ok").unwrap();
        }
    }
    stats.dump(mon_w);
}

// ------------------------------------------------------------------------------------------
// generator
// ------------------------------------------------------------------------------------------
struct Gen<'a> {
    w: &'a mut dyn Write,
    case: u64,
}

impl<'a> Gen<'a> {
    fn hdr(&mut self, kind: &str, extra: &str) {
        writeln!(self.w, "# case {} kind={} {}", self.case, kind, extra).unwrap();
        // the model driver keeps its state across cases: every case starts from an empty database
        writeln!(self.w, "new").unwrap();
        self.case += 1;
    }
    fn line(&mut self, s: &str) {
        writeln!(self.w, "{s}").unwrap();
    }
}

const KINDS: [&str; 8] = ["vstr", "uint", "int", "f32", "f64", "ostr", "bstr", "time"];
const LEN_BOUNDARY: [usize; 9] = [0, 1, 2, 127, 128, 254, 255, 256, 300];
const UINTS: [u32; 9] = [0, 1, 255, 256, 65535, 65536, 0x7FFF_FFFF, 0x8000_0000, 0xFFFF_FFFF];
const INTS: [i32; 17] = [0, 1, -1, 126, 127, 128, -127, -128, -129, 32766, 32767, 32768, -32768, -32769, i32::MAX, i32::MIN, 255];
const F32S: [u32; 8] = [0, 0x8000_0000, 0x3F80_0000, 0x7F80_0000, 0xFF80_0000, 0x7FC0_0000, 0x7F80_0001, 0xFFFF_FFFF];
const F64S: [u64; 7] = [0, 0x8000_0000_0000_0000, 0x3FF0_0000_0000_0000, 0x7FF0_0000_0000_0000, 0x7FF8_0000_0000_0000, 0x7FF0_0000_0000_0001, u64::MAX];
const TIMES: [u64; 5] = [0, 1, 1_700_000_000_000, 0xFFFF_FFFF_FFFE, 0xFFFF_FFFF_FFFF];

/// valid UTF-8 of exactly `n` octets (ASCII and 2 / 3 / 4-octet characters)
fn utf8(r: &mut Rng, n: usize, ascii_only: bool) -> Vec<u8> {
    let mut out = Vec::with_capacity(n);
    while out.len() < n {
        let left = n - out.len();
        let w = if ascii_only { 1 } else { (r.below(8) as usize).saturating_sub(3).max(1).min(left).min(4) };
        match w {
            1 => out.push(r.range(0x20, 0x7E) as u8),
            2 => out.extend_from_slice(&[r.range(0xC2, 0xDF) as u8, r.range(0x80, 0xBF) as u8]),
            3 => out.extend_from_slice(&[r.range(0xE1, 0xEC) as u8, r.range(0x80, 0xBF) as u8, r.range(0x80, 0xBF) as u8]),
            _ => out.extend_from_slice(&[r.range(0xF1, 0xF3) as u8, r.range(0x80, 0xBF) as u8, r.range(0x80, 0xBF) as u8, r.range(0x80, 0xBF) as u8]),
        }
    }
    out
}

fn gen_len(r: &mut Rng, small: bool) -> usize {
    if small {
        r.below(12) as usize
    } else if r.chance(1, 5) {
        *r.pick(&LEN_BOUNDARY)
    } else if r.chance(1, 6) {
        r.range(200, 260) as usize
    } else {
        r.below(40) as usize
    }
}

/// (`<kind> <payload>`, estimated octets of the encoded value without the object header)
fn gen_value(r: &mut Rng, kind: &str, small: bool) -> (String, usize) {
    match kind {
        "vstr" => {
            let n = gen_len(r, small);
            let ascii = r.chance(1, 2);
            (format!("vstr {}", hex(&utf8(r, n, ascii))), 2 + n)
        }
        "ostr" | "bstr" => {
            let n = gen_len(r, small);
            (format!("{kind} {}", hex(&r.bytes(n))), 2 + n)
        }
        "uint" => {
            let v = if r.chance(1, 2) { *r.pick(&UINTS) } else { (r.next() as u32) >> r.below(32) };
            (format!("uint {v}"), 2 + if v <= 255 { 1 } else if v <= 65535 { 2 } else { 4 })
        }
        "int" => {
            let v = if r.chance(1, 2) { *r.pick(&INTS) } else { ((r.next() as u32) >> r.below(32)) as i32 * if r.chance(1, 2) { -1 } else { 1 } };
            (format!("int {v}"), 2 + if (-128..127).contains(&v) { 1 } else if (-32768..32767).contains(&v) { 2 } else { 4 })
        }
        "f32" => {
            let v = if r.chance(1, 2) { *r.pick(&F32S) } else { r.next() as u32 };
            (format!("f32 {v:08x}"), 6)
        }
        "f64" => {
            let v = if r.chance(1, 2) { *r.pick(&F64S) } else { r.next() };
            (format!("f64 {v:016x}"), 10)
        }
        _ => {
            let v = if r.chance(1, 2) { *r.pick(&TIMES) } else { r.next() & 0xFFFF_FFFF_FFFF };
            (format!("time {v}"), 8)
        }
    }
}

fn sel_range(var: u8, set: u16, wide: bool) -> Vec<u8> {
    if wide || set > 255 {
        let s = set.to_le_bytes();
        vec![0, var, 0x01, s[0], s[1], s[0], s[1]]
    } else {
        vec![0, var, 0x00, set as u8, set as u8]
    }
}

/// the types `AnyAttribute::try_from` wants in the default set, as the generator's aim only
fn default_kind(var: u8) -> Option<&'static str> {
    Some(match var {
        196 | 197 | 201 | 202 | 206..=208 | 211 | 242..=250 | 252 => "vstr",
        198 | 199 => "time",
        200 => "ostr",
        203..=205 => if var % 2 == 0 { "f32" } else { "f64" },
        209 | 210 | 212..=218 | 220 | 221 | 223 | 224 | 228 | 229 | 232 | 233 | 235 | 236 | 238..=241 => "uint",
        219 | 222 | 225..=227 | 230 | 231 | 234 | 237 => "int",
        _ => return None,
    })
}

/// `def` lines for `n` attributes of a set; returns the estimated object sizes (header included)
fn gen_defs(g: &mut Gen, r: &mut Rng, set: u8, n: usize, small: bool, only_kind: Option<&str>) -> Vec<usize> {
    let mut vars: Vec<u8> = (1..=253u8).collect();
    // random subset of size n, ascending or shuffled definition order
    for i in 0..vars.len() {
        let j = i + r.below((vars.len() - i) as u64) as usize;
        vars.swap(i, j);
    }
    vars.truncate(n.min(253));
    if r.chance(1, 2) {
        vars.sort();
    }
    let mut sizes = Vec::new();
    for var in vars {
        let kind = match only_kind {
            Some(k) => k,
            None => {
                if set == 0 && r.chance(9, 10) {
                    default_kind(var).unwrap_or_else(|| *r.pick(&KINDS))
                } else {
                    *r.pick(&KINDS)
                }
            }
        };
        let (v, sz) = gen_value(r, kind, small);
        let w = if set == 0 { r.chance(1, 8) } else { r.chance(1, 3) };
        g.line(&format!("def {set} {var} {} {v}", w as u8));
        sizes.push(5 + sz);
    }
    sizes
}

fn gen_cap(r: &mut Rng, sizes: &[usize]) -> usize {
    match r.below(20) {
        0..=4 => *r.pick(&[245usize, 249, 292, 1024, 2044, 2048]),
        5..=9 => r.range(245, 2048) as usize,
        10..=13 => r.range(5, 120) as usize,
        _ => {
            // a boundary: the first k objects, give or take the parts of an object
            if sizes.is_empty() {
                return r.range(0, 12) as usize;
            }
            let k = r.range(1, sizes.len().min(40) as u64) as usize;
            let sum: usize = sizes[..k].iter().sum();
            let d = *r.pick(&[0i64, 1, -1, 2, 5, 6, 7, -5, -6, -7]);
            (sum as i64 + d).max(0) as usize
        }
    }
}

fn writes(g: &mut Gen, r: &mut Rng, sizes: &[usize], fixed_cap: Option<usize>) {
    let total: usize = sizes.iter().sum();
    let vary = r.chance(1, 4);
    let mut cap = fixed_cap.unwrap_or_else(|| gen_cap(r, sizes));
    let per = cap.saturating_sub(262).max(cap / 3).max(1);
    let n = (total / per + 2).min(if cap < 245 { 12 } else { 40 });
    for _ in 0..n {
        g.line(&format!("write {cap}"));
        if vary {
            cap = gen_cap(r, sizes);
        }
    }
}

/// one well-formed (type, length, payload), not necessarily in the writer's canonical width
fn wf_value(r: &mut Rng) -> Vec<u8> {
    let short = |r: &mut Rng| if r.chance(1, 6) { *r.pick(&[0usize, 1, 254, 255]) } else { r.below(20) as usize };
    match r.below(11) {
        0 => {
            let n = short(r);
            let ascii = r.chance(1, 2);
            [vec![1, n as u8], utf8(r, n, ascii)].concat()
        }
        1 => {
            let n = *r.pick(&[1usize, 2, 4]);
            [vec![2, n as u8], r.bytes(n)].concat()
        }
        2 => {
            let n = *r.pick(&[1usize, 2, 4]);
            let mut b = r.bytes(n);
            if r.chance(1, 2) {
                b[n - 1] |= 0x80; // negative
            }
            [vec![3, n as u8], b].concat()
        }
        3 => [vec![4, 4], r.bytes(4)].concat(),
        4 => [vec![4, 8], r.bytes(8)].concat(),
        5 => {
            let n = short(r);
            [vec![5, n as u8], r.bytes(n)].concat()
        }
        6 => {
            let n = short(r);
            [vec![6, n as u8], r.bytes(n)].concat()
        }
        7 => [vec![7, 6], r.bytes(6)].concat(),
        _ => {
            let n = if r.chance(1, 2) { *r.pick(&[0usize, 1, 2, 127, 128, 129, 200, 255]) } else { r.below(30) as usize };
            list_value(r, n)
        }
    }
}

/// list of `n` entries (n <= 255) in the encoding the standard prescribes
fn list_value(r: &mut Rng, n: usize) -> Vec<u8> {
    let mut v = if 2 * n <= 255 { vec![254, (2 * n) as u8] } else { vec![255, (2 * n - 256) as u8] };
    for _ in 0..n {
        v.push(r.next() as u8);
        v.push(if r.chance(1, 8) { r.next() as u8 } else { r.below(2) as u8 });
    }
    v
}

fn obj_with(q: u8, set: u16, var: u8, value: &[u8]) -> Vec<u8> {
    let s = set.to_le_bytes();
    let mut v = match q {
        0x00 => vec![0, var, 0x00, s[0], s[0]],
        0x01 => vec![0, var, 0x01, s[0], s[1], s[0], s[1]],
        0x17 => vec![0, var, 0x17, 1, s[0]],
        _ => vec![0, var, 0x28, 1, 0, s[0], s[1]],
    };
    v.extend_from_slice(value);
    v
}

fn gen_parse_cases(g: &mut Gen, r: &mut Rng, thorough: bool) {
    let fns_nonread: [u8; 5] = [2, 129, 130, 3, 129];
    // (1) every type code x length octets x payload presence around the implied length
    let types: Vec<u8> = if thorough { (0..=255u8).collect() } else { vec![0, 1, 2, 3, 4, 5, 6, 7, 8, 9, 100, 128, 253, 254, 255] };
    let lens: Vec<u8> = if thorough { vec![0, 1, 2, 3, 4, 5, 6, 7, 8, 9, 16, 127, 128, 253, 254, 255] } else { vec![0, 1, 2, 3, 4, 5, 6, 7, 8, 9, 254, 255] };
    g.hdr("parse_grid", "");
    for &t in &types {
        for &len in &lens {
            let need = if t == 255 { len as usize + 256 } else { len as usize };
            for present in [need.saturating_sub(1), need, need + 1] {
                let payload = if t == 1 { utf8(r, present, true) } else { r.bytes(present) };
                let value = [vec![t, len], payload].concat();
                let f = *r.pick(&fns_nonread);
                g.line(&format!("parse {f} {}", hex(&obj_with(0x00, r.below(256) as u16, r.range(1, 253) as u8, &value))));
            }
        }
    }
    // (2) list boundaries: 0, 1, 127, 128, 129, 255 entries in both encodings; the impossible 256
    g.hdr("parse_lists", "");
    for n in [0usize, 1, 2, 126, 127, 128, 129, 130, 254, 255] {
        let v = list_value(r, n);
        for q in [0x00u8, 0x01, 0x17, 0x28] {
            g.line(&format!("parse 129 {}", hex(&obj_with(q, 3, 255, &v))));
        }
        // truncated by one octet / extended by one octet / one entry short
        g.line(&format!("parse 129 {}", hex(&obj_with(0, 3, 255, &v[..v.len() - 1]))));
        g.line(&format!("parse 129 {}", hex(&obj_with(0, 3, 255, &[v.clone(), vec![0]].concat()))));
        if n >= 1 {
            g.line(&format!("parse 129 {}", hex(&obj_with(0, 3, 255, &v[..v.len() - 2]))));
        }
        // the same entries announced with the other type code
        let mut w = v.clone();
        w[0] = if w[0] == 254 { 255 } else { 254 };
        g.line(&format!("parse 129 {}", hex(&obj_with(0, 3, 255, &w))));
        // the length octet counting entries instead of octets (for extended lists: beyond 128 entries)
        let mut w = v.clone();
        w[1] = if n >= 128 { (n - 128) as u8 } else { n as u8 };
        g.line(&format!("parse 129 {}", hex(&obj_with(0, 3, 255, &w))));
    }
    for len in [1u8, 3, 253, 255] {
        // odd lengths, both type codes, with as many octets as announced
        for t in [254u8, 255] {
            let need = if t == 255 { len as usize + 256 } else { len as usize };
            g.line(&format!("parse 129 {}", hex(&obj_with(0, 1, 255, &[vec![t, len], r.bytes(need)].concat()))));
        }
    }
    // (3) random sequences of well-formed objects, and single mutations of them
    let n = if thorough { 20000 } else { 1500 };
    for i in 0..n {
        if i % 50 == 0 {
            g.hdr("parse_rand", "");
        }
        let is_read = r.chance(1, 8);
        let f = if is_read { 1 } else { *r.pick(&fns_nonread) };
        let k = r.range(1, 4);
        let mut bytes = Vec::new();
        for _ in 0..k {
            let q = *r.pick(&[0x00u8, 0x00, 0x00, 0x01, 0x17, 0x28, 0x06]);
            let set = if r.chance(1, 10) { r.below(65536) as u16 } else { r.below(256) as u16 };
            let var = if r.chance(1, 12) { *r.pick(&[0u8, 254, 255]) } else { r.range(1, 253) as u8 };
            if q == 0x06 {
                bytes.extend_from_slice(&[0, var, 0x06]);
            } else if is_read {
                bytes.extend_from_slice(&obj_with(if q == 0x01 { 1 } else { 0 }, set, var, &[]));
            } else {
                bytes.extend_from_slice(&obj_with(q, set, var, &wf_value(r)));
            }
        }
        match r.below(10) {
            0..=3 => {}
            4 => {
                let cut = r.below(bytes.len() as u64) as usize;
                bytes.truncate(cut);
            }
            5 => {
                let n = r.range(1, 3) as usize;
                bytes.extend_from_slice(&r.bytes(n))
            }
            6 | 7 => {
                let i = r.below(bytes.len() as u64) as usize;
                bytes[i] = if r.chance(1, 2) { bytes[i] ^ (1 << r.below(8)) } else { r.next() as u8 };
            }
            8 => {
                // start != stop / count != 1
                if bytes.len() > 4 {
                    bytes[4] = bytes[4].wrapping_add(r.range(1, 3) as u8);
                }
            }
            _ => {
                let i = r.below(bytes.len() as u64) as usize;
                bytes.insert(i, r.next() as u8);
            }
        }
        g.line(&format!("parse {f} {}", hex(&bytes)));
    }
}

pub fn gen(thorough: bool, seed: u64, w: &mut dyn Write) {
    let mut r = Rng::new(seed);
    let mut g = Gen { w, case: 0 };

    // (0) the D27 shapes, always present: a value that does not fit what is left of the fragment;
    //     a value that cannot be encoded in front of another attribute
    g.hdr("d27", "regression=D27");
    for i in 1..=3 {
        g.line(&format!("def 1 {i} 0 vstr {}", hex(&vec![0x41 + i as u8; 100])));
    }
    for l in ["sel 00fe000101", "write 245", "write 245", "write 245"] {
        g.line(l);
    }
    g.hdr("d27", "regression=D27 unencodable=1");
    g.line(&format!("def 2 7 0 ostr {}", hex(&vec![0x55; 256])));
    g.line("def 2 9 0 uint 42");
    for l in ["sel 00fe000202", "write 2048", "reset", "sel 0007000202", "write 2048"] {
        g.line(l);
    }
    // (0b) the D29 shape: negative one-octet INTs
    g.hdr("d29", "regression=D29");
    for (i, v) in [-1i32, -2, -127, -128, -129, 126, 127, 128, 255].iter().enumerate() {
        g.line(&format!("def 1 {} 0 int {v}", i + 1));
    }
    for l in ["sel 00fe000101", "write 2048"] {
        g.line(l);
    }
    g.line("mwrite 2048 1:1:int:-1 1:2:int:-128 1:3:int:127");
    g.line("parse 129 00050001010301ff");

    // (1) every value kind x boundary values, read back as specific variation, all attributes, list
    for kind in KINDS {
        g.hdr("types", &format!("value={kind}"));
        let mut var = 0u8;
        let mut vals: Vec<String> = Vec::new();
        match kind {
            "vstr" => {
                for n in LEN_BOUNDARY {
                    vals.push(format!("vstr {}", hex(&utf8(&mut r, n, n % 2 == 0))));
                }
            }
            "ostr" | "bstr" => {
                for n in LEN_BOUNDARY {
                    vals.push(format!("{kind} {}", hex(&r.bytes(n))));
                }
            }
            "uint" => vals.extend(UINTS.iter().map(|v| format!("uint {v}"))),
            "int" => vals.extend(INTS.iter().map(|v| format!("int {v}"))),
            "f32" => vals.extend(F32S.iter().map(|v| format!("f32 {v:08x}"))),
            "f64" => vals.extend(F64S.iter().map(|v| format!("f64 {v:016x}"))),
            _ => vals.extend(TIMES.iter().map(|v| format!("time {v}"))),
        }
        for v in &vals {
            var += 1;
            g.line(&format!("def 5 {var} {} {v}", var % 2));
        }
        for v in 1..=var {
            g.line(&format!("sel {}", hex(&sel_range(v, 5, v % 3 == 0))));
            g.line("write 2048");
        }
        g.line("sel 00fe000505");
        g.line("write 2048");
        g.line("write 2048");
        g.line("sel 00ff000505");
        g.line("write 2048");
        g.line(&format!("mwrite 2048 {}", vals.iter().enumerate().map(|(i, v)| format!("5:{}:{}", i + 1, v.replace(' ', ":"))).collect::<Vec<_>>().join(" ")));
    }

    // (2) attribute lists: every boundary of the (extended) length, capacities around the object
    let list_ns: Vec<usize> = if thorough { (1..=253).collect() } else { vec![1, 2, 3, 63, 126, 127, 128, 129, 130, 131, 200, 252, 253] };
    for &n in &list_ns {
        g.hdr("list", &format!("entries={n}"));
        let set = (n % 7) as u8; // includes the default set
        if set == 0 {
            // default set: private-style variations (no typed arm) 1..=195 and typed ones above
            let mut k = 0;
            for var in 1..=253u8 {
                if k == n {
                    break;
                }
                let kind = default_kind(var).unwrap_or("uint");
                let (v, _) = gen_value(&mut r, kind, true);
                g.line(&format!("def 0 {var} 0 {v}"));
                k += 1;
            }
        } else {
            let k = *r.pick(&["uint", "int", "ostr"]);
            gen_defs(&mut g, &mut r, set, n, true, Some(k));
        }
        let size = 7 + 2 * n.min(253);
        g.line(&format!("sel {}", hex(&sel_range(255, set as u16, r.chance(1, 3)))));
        g.line(&format!("write {}", size - 1));
        g.line(&format!("write {size}"));
        g.line("sel 00ff06");
        g.line(&format!("write {}", size + 1));
        g.line("sel 00fe06");
        let cap = *r.pick(&[245usize, 249, 2048]);
        writes(&mut g, &mut r, &vec![8; n], Some(cap));
        g.line("write 2048");
    }

    // (3) the default set: named variations with the demanded and with other types, writable or not
    let n_def = if thorough { 400 } else { 40 };
    for _ in 0..n_def {
        g.hdr("default_set", "");
        for _ in 0..r.range(5, 40) {
            let var = if r.chance(1, 10) { *r.pick(&[0u8, 254, 255, 251, 195, 1]) } else { r.range(190, 253) as u8 };
            let kind = if r.chance(3, 4) { default_kind(var).unwrap_or("uint") } else { *r.pick(&KINDS) };
            let (v, _) = gen_value(&mut r, kind, true);
            g.line(&format!("def 0 {var} {} {v}", r.chance(1, 3) as u8));
        }
        g.line(if r.chance(1, 2) { "sel 00fe000000" } else { "sel 00fe06" });
        g.line("write 2048");
        g.line("write 2048");
        g.line("sel 00ff000000");
        g.line("write 2048");
    }

    // (4) series: several sets, mixed values, every header form, capacities of every class
    let n_series = if thorough { 12000 } else { 700 };
    for _ in 0..n_series {
        let small = r.chance(1, 2);
        let nsets = r.range(1, 4) as usize;
        let mut sets: Vec<u8> = Vec::new();
        while sets.len() < nsets {
            let s = if r.chance(1, 3) { 0 } else if r.chance(1, 4) { *r.pick(&[1u8, 254, 255]) } else { r.range(1, 255) as u8 };
            if !sets.contains(&s) {
                sets.push(s);
            }
        }
        g.hdr("series", &format!("sets={nsets} small={}", small as u8));
        let mut sizes_by_set: BTreeMap<u8, Vec<usize>> = BTreeMap::new();
        for &s in &sets {
            let n = match r.below(10) {
                0 => 0,
                1..=5 => r.range(1, 8) as usize,
                6..=8 => r.range(8, 40) as usize,
                _ => r.range(100, 253) as usize,
            };
            let sz = gen_defs(&mut g, &mut r, s, n, small || n > 40, None);
            sizes_by_set.insert(s, sz);
        }
        for _ in 0..r.range(1, 3) {
            // one READ: 1..6 headers (sometimes more than the selection queue holds)
            let nh = if r.chance(1, 25) { r.range(30, 40) } else { r.range(1, 6) };
            let mut bytes = Vec::new();
            let mut sizes: Vec<usize> = Vec::new();
            for _ in 0..nh {
                let set = if r.chance(1, 8) { r.below(300) as u16 } else { *r.pick(&sets) as u16 };
                let known = sizes_by_set.get(&(set as u8)).cloned().unwrap_or_default();
                match r.below(10) {
                    0..=3 => {
                        bytes.extend_from_slice(&sel_range(254, set, r.chance(1, 4)));
                        sizes.extend(known);
                    }
                    4 | 5 => {
                        bytes.extend_from_slice(&sel_range(255, set, r.chance(1, 4)));
                        sizes.push(7 + 2 * known.len());
                    }
                    6 | 7 => {
                        bytes.extend_from_slice(&sel_range(r.range(0, 255) as u8, set, r.chance(1, 4)));
                        sizes.push(20);
                    }
                    8 => {
                        bytes.extend_from_slice(&[0, *r.pick(&[254u8, 255, 254, 255, 7]), 0x06]);
                        for v in sizes_by_set.values() {
                            sizes.extend(v.iter().copied());
                        }
                    }
                    _ => {
                        // a range over several sets / a count header / a prefixed header: not supported by READ
                        match r.below(3) {
                            0 => bytes.extend_from_slice(&[0, 254, 0x00, set as u8, (set as u8).saturating_add(1)]),
                            1 => bytes.extend_from_slice(&[0, 254, 0x01, 0, 1, 0, 1]),
                            _ => bytes.extend_from_slice(&[0, 0, 0x06]),
                        }
                    }
                }
            }
            g.line(&format!("sel {}", hex(&bytes)));
            writes(&mut g, &mut r, &sizes, None);
            if r.chance(1, 3) {
                g.line("reset");
            } else {
                g.line("write 2048");
                g.line("write 2048");
            }
        }
    }

    // (5) WRITE of attributes by the master, then read back
    let n_w = if thorough { 1500 } else { 120 };
    for _ in 0..n_w {
        g.hdr("wattr", "");
        let set = if r.chance(1, 3) { 0u8 } else { r.range(1, 255) as u8 };
        let vars: Vec<u8> = if set == 0 { vec![206, 207, 244, 245, 246, 247, 196, 209] } else { (1..=8).collect() };
        let mut kinds = Vec::new();
        for &var in &vars {
            let kind = if set == 0 { default_kind(var).unwrap() } else { *r.pick(&KINDS) };
            let (v, _) = gen_value(&mut r, kind, true);
            g.line(&format!("def {set} {var} {} {v}", r.chance(2, 3) as u8));
            kinds.push(kind);
        }
        for _ in 0..r.range(1, 4) {
            let k = r.range(1, 3);
            let mut bytes = Vec::new();
            for _ in 0..k {
                let i = r.below(vars.len() as u64) as usize;
                let var = if r.chance(1, 10) { r.next() as u8 } else { vars[i] };
                let tset = if r.chance(1, 10) { r.next() as u8 } else { set };
                bytes.extend_from_slice(&obj_with(if r.chance(1, 4) { 1 } else { 0 }, tset as u16, var, &wf_value(&mut r)));
            }
            g.line(&format!("wattr {}", hex(&bytes)));
            // the master's builder produces the request for the same attributes
            let i = r.below(vars.len() as u64) as usize;
            let (v, _) = gen_value(&mut r, kinds[i], true);
            g.line(&format!("mwrite {} {set}:{}:{}", *r.pick(&[20usize, 100, 2048]), vars[i], v.replace(' ', ":")));
        }
        g.line(&format!("sel {}", hex(&sel_range(254, set as u16, false))));
        g.line("write 2048");
    }

    // (6) the master's request builder at every capacity class
    let n_m = if thorough { 3000 } else { 250 };
    for i in 0..n_m {
        if i % 10 == 0 {
            g.hdr("mwrite", "");
        }
        let k = r.range(1, 5);
        let mut specs = Vec::new();
        let mut total = 2;
        for _ in 0..k {
            let (kind, small) = (*r.pick(&KINDS), r.chance(2, 3));
            let (v, sz) = gen_value(&mut r, kind, small);
            specs.push(format!("{}:{}:{}", r.below(256), r.below(256), v.replace(' ', ":")));
            total += 5 + sz;
        }
        let cap = match r.below(4) {
            0 => r.range(0, 12) as usize,
            1 => (total as i64 + *r.pick(&[-7i64, -6, -5, -2, -1, 0, 1])).max(0) as usize,
            2 => 2048,
            _ => r.range(2, 400) as usize,
        };
        g.line(&format!("mwrite {cap} {}", specs.join(" ")));
    }

    // (7) the parser on generator-made attribute objects
    gen_parse_cases(&mut g, &mut r, thorough);
}
