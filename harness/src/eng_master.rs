//! engine `master`: the real `MasterTask` (session, real transport, real link layer) over the
//! in-memory pipe on a paused clock, against the Lean model `Dnp3.Master`, plus trace monitors
//! for C15 C16 C17 C19.  The harness plays the outstation(s).
//!
//! ops:  cfg tx=<n>                         new master (address 1), enabled, connected
//!       assoc <addr> k=v ...               add an association: rto dis int en ts(none|lan|nonlan|direct)
//!                                          ovf evscan ka(none|ms) rmin rmax maxq   (class masks: c1=1 c2=2 c3=4 c0=8)
//!       rmassoc <addr>
//!       poll <addr> <period_ms> <classes> | demand <addr> <k> | rmpoll <addr> <k>
//!       user <id> <addr> read <classes> | readh <classes> | do <hex objs> | sbo <hex objs>
//!                        | time lan|nonlan|direct | cold | warm | deadband <hex objs> | link
//!       rx <src> <dst> <hex>               one application fragment from link address src to dst
//!       rxlink <src> <dst> <ctrl>          a header-only link frame (11 = link status, 73 = request link status)
//!       reply k=v ...                      response derived from the last transmitted request: seq(+n) src dst
//!                                          fir fin con uns func iin1 iin2 obj(auto|echo|none|hex) delay
//!       tick <ms> | clock <ms|none> | cut | down | up | enable | disable | shutdown
//! out:  info ... | deliver ... | session ... | task-exit | complete <id> ... | assoc ... | poll ...
//!       | tx <dst> <hex> | txlink <ctrl> <dst> <src> | resolved ... | ok
use crate::util::*;
use dnp3::app::control::*;
use dnp3::app::measurement::*;
use dnp3::app::*;
use dnp3::link::EndpointAddress;
use dnp3::master::*;
use dnp3::verif_hooks::master_probe as probe;
use std::collections::HashMap;
use std::io::Write;
use std::sync::{Arc, Mutex};
use std::time::Duration;

pub const MASTER: u16 = 1;

#[derive(Clone, Default)]
pub struct Shared {
    pub log: Arc<Mutex<Vec<String>>>,
    pub clock: Arc<Mutex<Option<u64>>>,
    pub new_assoc: Arc<Mutex<Vec<(u16, AssociationHandle)>>>,
    pub new_poll: Arc<Mutex<Vec<(u16, PollHandle)>>>,
}

impl Shared {
    pub(crate) fn push(&self, s: String) {
        self.log.lock().unwrap().push(s);
    }
}

fn rt_str(rt: ReadType) -> &'static str {
    match rt {
        ReadType::StartupIntegrity => "integrity",
        ReadType::Unsolicited => "unsol",
        ReadType::SinglePoll => "single",
        ReadType::PeriodicPoll => "poll",
    }
}

fn ctrl_u8(c: ControlField) -> u8 {
    (if c.fir { 0x80 } else { 0 }) | (if c.fin { 0x40 } else { 0 }) | (if c.con { 0x20 } else { 0 }) | (if c.uns { 0x10 } else { 0 }) | c.seq.value()
}

pub(crate) struct RH {
    pub(crate) who: String,
    pub(crate) sh: Shared,
}

impl RH {
    fn hdr(&self, info: HeaderInfo, items: Vec<String>) {
        let (g, v) = probe::group_var(info.variation);
        let l = if items.is_empty() { "-".to_string() } else { items.join(",") };
        self.sh.push(format!("deliver {} hdr {g} {v} {} {} {l}", self.who, info.qualifier.as_u8(), items.len()));
    }
}

impl ReadHandler for RH {
    fn begin_fragment(&mut self, read_type: ReadType, header: ResponseHeader) -> MaybeAsync<()> {
        self.sh.push(format!("deliver {} begin {} {} {} {}", self.who, rt_str(read_type), ctrl_u8(header.control), header.iin.iin1.value, header.iin.iin2.value));
        MaybeAsync::ready(())
    }
    fn end_fragment(&mut self, read_type: ReadType, _header: ResponseHeader) -> MaybeAsync<()> {
        self.sh.push(format!("deliver {} end {}", self.who, rt_str(read_type)));
        MaybeAsync::ready(())
    }
    fn handle_binary_input(&mut self, info: HeaderInfo, iter: &mut dyn Iterator<Item = (BinaryInput, u16)>) {
        let items = iter
            .map(|(m, i)| match m.time {
                Some(Time::Synchronized(t)) => format!("{i}:{}:{}", m.flags.value, t.raw_value()),
                Some(Time::Unsynchronized(t)) => format!("{i}:{}:u{}", m.flags.value, t.raw_value()),
                None => format!("{i}:{}", m.flags.value),
            })
            .collect();
        self.hdr(info, items);
    }
    fn handle_analog_input(&mut self, info: HeaderInfo, iter: &mut dyn Iterator<Item = (AnalogInput, u16)>) {
        let items = iter.map(|(m, i)| format!("{i}:{}:{}", m.flags.value, m.value as i64)).collect();
        self.hdr(info, items);
    }
    fn handle_double_bit_binary_input(&mut self, info: HeaderInfo, iter: &mut dyn Iterator<Item = (DoubleBitBinaryInput, u16)>) {
        self.hdr(info, iter.map(|(_, i)| format!("{i}:other")).collect());
    }
    fn handle_binary_output_status(&mut self, info: HeaderInfo, iter: &mut dyn Iterator<Item = (BinaryOutputStatus, u16)>) {
        self.hdr(info, iter.map(|(_, i)| format!("{i}:other")).collect());
    }
    fn handle_counter(&mut self, info: HeaderInfo, iter: &mut dyn Iterator<Item = (Counter, u16)>) {
        self.hdr(info, iter.map(|(_, i)| format!("{i}:other")).collect());
    }
    fn handle_frozen_counter(&mut self, info: HeaderInfo, iter: &mut dyn Iterator<Item = (FrozenCounter, u16)>) {
        self.hdr(info, iter.map(|(_, i)| format!("{i}:other")).collect());
    }
    fn handle_analog_output_status(&mut self, info: HeaderInfo, iter: &mut dyn Iterator<Item = (AnalogOutputStatus, u16)>) {
        self.hdr(info, iter.map(|(_, i)| format!("{i}:other")).collect());
    }
    fn handle_abs_time(&mut self, _info: HeaderInfo, time: Timestamp) {
        self.sh.push(format!("deliver {} abstime {}", self.who, time.raw_value()));
    }
}

struct AH(Shared);
impl AssociationHandler for AH {
    fn get_current_time(&self) -> Option<Timestamp> {
        self.0.clock.lock().unwrap().map(Timestamp::new)
    }
}

fn tt_str(t: TaskType) -> String {
    match t {
        TaskType::UserRead => "user_read".into(),
        TaskType::PeriodicPoll => "periodic_poll".into(),
        TaskType::StartupIntegrity => "startup_integrity".into(),
        TaskType::AutoEventScan => "auto_event_scan".into(),
        TaskType::Command => "command".into(),
        TaskType::ClearRestartBit => "clear_restart".into(),
        TaskType::EnableUnsolicited => "enable_unsol".into(),
        TaskType::DisableUnsolicited => "disable_unsol".into(),
        TaskType::TimeSync => "time_sync".into(),
        TaskType::Restart => "restart".into(),
        TaskType::WriteDeadBands => "write_dead_bands".into(),
        other => format!("{other:?}"),
    }
}

pub fn task_err(e: TaskError) -> String {
    match e {
        TaskError::TooManyRequests => "too_many_requests".into(),
        TaskError::Link(_) => "link".into(),
        TaskError::Transport => "transport".into(),
        TaskError::RejectedByIin2(iin) => format!("iin2:{}", iin.iin2.value),
        TaskError::MalformedResponse(_) => "malformed".into(),
        TaskError::UnexpectedResponseHeaders => "unexpected_headers".into(),
        TaskError::NonFinWithoutCon => "non_fin_without_con".into(),
        TaskError::NeverReceivedFir => "never_fir".into(),
        TaskError::UnexpectedFir => "unexpected_fir".into(),
        TaskError::MultiFragmentResponse => "multi_fragment".into(),
        TaskError::ResponseTimeout => "timeout".into(),
        TaskError::WriteError => "write_error".into(),
        TaskError::BadEncoding(_) => "bad_encoding".into(),
        TaskError::NoSuchAssociation(_) => "no_association".into(),
        TaskError::NoConnection => "no_connection".into(),
        TaskError::Shutdown => "shutdown".into(),
        TaskError::Disabled => "disabled".into(),
        #[allow(unreachable_patterns)]
        other => format!("{other:?}"),
    }
}

pub(crate) struct AI {
    pub(crate) addr: u16,
    pub(crate) sh: Shared,
}
impl AssociationInformation for AI {
    fn task_start(&mut self, t: TaskType, fc: FunctionCode, seq: Sequence) {
        self.sh.push(format!("info {} start {} {} {}", self.addr, tt_str(t), fc.as_u8(), seq.value()));
    }
    fn task_success(&mut self, t: TaskType, fc: FunctionCode, seq: Sequence) {
        self.sh.push(format!("info {} success {} {} {}", self.addr, tt_str(t), fc.as_u8(), seq.value()));
    }
    fn task_fail(&mut self, t: TaskType, e: TaskError) {
        self.sh.push(format!("info {} fail {} {}", self.addr, tt_str(t), task_err(e)));
    }
    fn unsolicited_response(&mut self, dup: bool, seq: Sequence) {
        self.sh.push(format!("info {} unsol {} {}", self.addr, dup as u8, seq.value()));
    }
}

pub fn kv<'a>(ws: &[&'a str], k: &str) -> Option<&'a str> {
    ws.iter().find_map(|w| w.split_once('=').and_then(|(a, b)| if a == k { Some(b) } else { None }))
}

pub fn kv_u64(ws: &[&str], k: &str, d: u64) -> u64 {
    kv(ws, k).and_then(|v| v.parse().ok()).unwrap_or(d)
}

fn event_classes(b: u64) -> EventClasses {
    EventClasses::new(b & 1 != 0, b & 2 != 0, b & 4 != 0)
}

pub(crate) fn classes(b: u64) -> Classes {
    Classes::new(b & 8 != 0, event_classes(b))
}

pub(crate) fn assoc_config(ws: &[&str]) -> AssociationConfig {
    let mut c = AssociationConfig::new(
        event_classes(kv_u64(ws, "dis", 7)),
        event_classes(kv_u64(ws, "en", 7)),
        classes(kv_u64(ws, "int", 15)),
        event_classes(kv_u64(ws, "evscan", 0)),
    );
    c.response_timeout = Timeout::from_duration(Duration::from_millis(kv_u64(ws, "rto", 5000))).unwrap();
    c.auto_time_sync = match kv(ws, "ts") {
        Some("lan") => Some(TimeSyncProcedure::Lan),
        Some("nonlan") => Some(TimeSyncProcedure::NonLan),
        Some("direct") => Some(TimeSyncProcedure::DirectWriteAbsTime),
        _ => None,
    };
    c.auto_tasks_retry_strategy = RetryStrategy::new(Duration::from_millis(kv_u64(ws, "rmin", 1000)), Duration::from_millis(kv_u64(ws, "rmax", 10000)));
    c.keep_alive_timeout = kv(ws, "ka").and_then(|v| v.parse::<u64>().ok()).map(Duration::from_millis);
    c.auto_integrity_scan_on_buffer_overflow = kv_u64(ws, "ovf", 1) == 1;
    c.max_queued_user_requests = kv_u64(ws, "maxq", 16) as usize;
    c
}

/// build the `CommandHeaders` the raw object octets stand for (None: not a well-formed list of
/// control headers with counts >= 1)
pub(crate) fn command_headers(objs: &[u8]) -> Option<CommandHeaders> {
    let mut b = CommandBuilder::new();
    let mut i = 0;
    let mut nh = 0;
    let mut prev_kind: Option<(u8, u8, usize)> = None;
    while i < objs.len() {
        if i + 3 > objs.len() {
            return None;
        }
        let (g, v, q) = (objs[i], objs[i + 1], objs[i + 2]);
        let osz = match (g, v) {
            (12, 1) => 11,
            (41, 1) => 5,
            (41, 2) => 3,
            (41, 3) => 5,
            (41, 4) => 9,
            _ => return None,
        };
        i += 3;
        let (isz, count) = match q {
            0x17 if i + 1 <= objs.len() => {
                i += 1;
                (1, objs[i - 1] as usize)
            }
            0x28 if i + 2 <= objs.len() => {
                i += 2;
                (2, u16::from_le_bytes([objs[i - 2], objs[i - 1]]) as usize)
            }
            _ => return None,
        };
        if count == 0 || i + count * (isz + osz) > objs.len() {
            return None;
        }
        // two consecutive headers of the same kind need an explicit `finish_header` in between; otherwise the
        // builder itself closes the header in progress when a command of another kind is added (S158: that
        // path must keep the header it closes)
        if prev_kind == Some((g, v, isz)) {
            b.finish_header();
        }
        prev_kind = Some((g, v, isz));
        for _ in 0..count {
            let idx: u16 = if isz == 1 { objs[i] as u16 } else { u16::from_le_bytes([objs[i], objs[i + 1]]) };
            let o = &objs[i + isz..i + isz + osz];
            let st = CommandStatus::from(o[osz - 1]);
            macro_rules! add {
                ($x:expr) => {
                    if isz == 1 { b.add_u8($x, idx as u8) } else { b.add_u16($x, idx) }
                };
            }
            match (g, v) {
                (12, 1) => add!(Group12Var1 {
                    code: probe::control_code(o[0]),
                    count: o[1],
                    on_time: u32::from_le_bytes([o[2], o[3], o[4], o[5]]),
                    off_time: u32::from_le_bytes([o[6], o[7], o[8], o[9]]),
                    status: st,
                }),
                (41, 1) => add!(Group41Var1 { value: i32::from_le_bytes([o[0], o[1], o[2], o[3]]), status: st }),
                (41, 2) => add!(Group41Var2 { value: i16::from_le_bytes([o[0], o[1]]), status: st }),
                (41, 3) => add!(Group41Var3 { value: f32::from_le_bytes([o[0], o[1], o[2], o[3]]), status: st }),
                _ => add!(Group41Var4 { value: f64::from_le_bytes([o[0], o[1], o[2], o[3], o[4], o[5], o[6], o[7]]), status: st }),
            }
            i += isz + osz;
        }
        nh += 1;
    }
    if nh == 0 {
        return None;
    }
    Some(b.build())
}

fn deadband_headers(objs: &[u8]) -> Option<Vec<DeadBandHeader>> {
    let mut res = Vec::new();
    let mut i = 0;
    if objs.is_empty() {
        return None;
    }
    while i < objs.len() {
        if i + 3 > objs.len() || objs[i] != 34 || !(objs[i + 1] == 1 || objs[i + 1] == 2) {
            return None;
        }
        let v = objs[i + 1];
        let q = objs[i + 2];
        let k = if v == 1 { 2 } else { 4 };
        i += 3;
        let (isz, count) = match q {
            0x17 if i + 1 <= objs.len() => {
                i += 1;
                (1, objs[i - 1] as usize)
            }
            0x28 if i + 2 <= objs.len() => {
                i += 2;
                (2, u16::from_le_bytes([objs[i - 2], objs[i - 1]]) as usize)
            }
            _ => return None,
        };
        if count == 0 || i + count * (isz + k) > objs.len() {
            return None;
        }
        let mut a8_16: Vec<(u8, u16)> = Vec::new();
        let mut a16_16: Vec<(u16, u16)> = Vec::new();
        let mut a8_32: Vec<(u8, u32)> = Vec::new();
        let mut a16_32: Vec<(u16, u32)> = Vec::new();
        for _ in 0..count {
            let idx: u16 = if isz == 1 { objs[i] as u16 } else { u16::from_le_bytes([objs[i], objs[i + 1]]) };
            let o = &objs[i + isz..i + isz + k];
            match (v, isz) {
                (1, 1) => a8_16.push((idx as u8, u16::from_le_bytes([o[0], o[1]]))),
                (1, _) => a16_16.push((idx, u16::from_le_bytes([o[0], o[1]]))),
                (_, 1) => a8_32.push((idx as u8, u32::from_le_bytes([o[0], o[1], o[2], o[3]]))),
                _ => a16_32.push((idx, u32::from_le_bytes([o[0], o[1], o[2], o[3]]))),
            }
            i += isz + k;
        }
        res.push(match (v, isz) {
            (1, 1) => DeadBandHeader::group34_var1_u8(a8_16),
            (1, _) => DeadBandHeader::group34_var1_u16(a16_16),
            (_, 1) => DeadBandHeader::group34_var2_u8(a8_32),
            _ => DeadBandHeader::group34_var2_u16(a16_32),
        });
    }
    Some(res)
}

pub(crate) fn cmd_err(e: CommandError) -> String {
    match e {
        CommandError::Task(t) => format!("err {}", task_err(t)),
        CommandError::Response(r) => match r {
            CommandResponseError::Request(t) => format!("err {}", task_err(t)),
            CommandResponseError::BadStatus(s) => format!("err bad_status:{}", s.as_u8()),
            CommandResponseError::HeaderCountMismatch => "err header_count".into(),
            CommandResponseError::HeaderTypeMismatch => "err header_type".into(),
            CommandResponseError::ObjectCountMismatch => "err object_count".into(),
            CommandResponseError::ObjectValueMismatch => "err object_value".into(),
        },
    }
}

pub(crate) fn ts_err(e: TimeSyncError) -> String {
    match e {
        TimeSyncError::Task(t) => format!("err {}", task_err(t)),
        TimeSyncError::ClockRollback => "err clock_rollback".into(),
        TimeSyncError::SystemTimeNotUnix => "err not_unix".into(),
        TimeSyncError::BadOutstationTimeDelay(d) => format!("err bad_delay:{d}"),
        TimeSyncError::Overflow => "err overflow".into(),
        TimeSyncError::StillNeedsTime => "err still_needs_time".into(),
        TimeSyncError::SystemTimeNotAvailable => "err no_system_time".into(),
        TimeSyncError::IinError(_) => "err iin_error".into(),
    }
}

fn write_err(e: WriteError) -> String {
    match e {
        WriteError::Task(t) => format!("err {}", task_err(t)),
        WriteError::IinError(_) => "err iin_error".into(),
    }
}

/// the response a `reply` op stands for: (src, dst, fragment)
pub fn resolve_reply(last: &Option<(u16, Vec<u8>)>, ws: &[&str]) -> Option<(u16, u16, Vec<u8>)> {
    let (req_dst, frag) = last.as_ref()?;
    if frag.len() < 2 {
        return None;
    }
    let f = frag[1];
    let req_objs = &frag[2..];
    let seq = ((frag[0] & 0x0F) as u64 + kv_u64(ws, "seq", 0)) % 16;
    let src = kv_u64(ws, "src", *req_dst as u64) as u16;
    let dst = kv_u64(ws, "dst", MASTER as u64) as u16;
    let ctrl = (if kv_u64(ws, "fir", 1) == 1 { 0x80 } else { 0 })
        | (if kv_u64(ws, "fin", 1) == 1 { 0x40 } else { 0 })
        | (if kv_u64(ws, "con", 0) == 1 { 0x20 } else { 0 })
        | (if kv_u64(ws, "uns", 0) == 1 { 0x10 } else { 0 })
        | seq as u8;
    let auto: Vec<u8> = match f {
        3 | 4 | 5 => req_objs.to_vec(),
        23 => {
            let d = (kv_u64(ws, "delay", 0) as u16).to_le_bytes();
            vec![0x34, 0x02, 0x07, 0x01, d[0], d[1]]
        }
        13 | 14 => vec![0x34, 0x01, 0x07, 0x01, 0x07, 0x00],
        _ => Vec::new(),
    };
    let objs = match kv(ws, "obj") {
        None | Some("auto") => auto,
        Some("echo") => req_objs.to_vec(),
        Some("none") => Vec::new(),
        Some(h) => unhex(h),
    };
    let mut out = vec![ctrl, kv_u64(ws, "func", 129) as u8, kv_u64(ws, "iin1", 0) as u8, kv_u64(ws, "iin2", 0) as u8];
    out.extend(objs);
    Some((src, dst, out))
}

pub struct Station {
    pub shared: Shared,
    master: Option<MasterChannel>,
    handles: HashMap<u16, AssociationHandle>,
    polls: HashMap<(u16, usize), PollHandle>,
    poll_count: HashMap<u16, usize>,
    peer: Option<tokio::io::DuplexStream>,
    pipe_tx: tokio::sync::mpsc::UnboundedSender<tokio::io::DuplexStream>,
    tseq: u8,
    rxbuf: Vec<u8>,
    asm: Vec<u8>,
    task: tokio::task::JoinHandle<()>,
    panicked: bool,
    exited: bool,
    enabled: bool,
    want_up: bool,
    pub last_req: Option<(u16, Vec<u8>)>,
}

impl Station {
    pub fn new(tx: usize) -> Station {
        let shared = Shared::default();
        let mut cfg = MasterChannelConfig::new(EndpointAddress::try_new(MASTER).unwrap());
        cfg.tx_buffer_size = BufferSize::new(tx).unwrap();
        cfg.decode_level = dnp3::decode::DecodeLevel::nothing();
        let (mut p, master) = probe::create_master(cfg, true);
        let (pipe_tx, mut pipe_rx) = tokio::sync::mpsc::unbounded_channel::<tokio::io::DuplexStream>();
        let sh = shared.clone();
        let task = tokio::spawn(async move {
            let mut log = move |s: String| sh.push(s);
            p.run(&mut pipe_rx, &mut log).await;
        });
        Station {
            shared, master: Some(master), handles: HashMap::new(), polls: HashMap::new(), poll_count: HashMap::new(), peer: None, pipe_tx,
            tseq: 0, rxbuf: Vec::new(), asm: Vec::new(), task, panicked: false, exited: false, enabled: true, want_up: true, last_req: None,
        }
    }

    fn connect(&mut self) {
        let (a, b) = tokio::io::duplex(1 << 20);
        self.peer = Some(b);
        self.tseq = 0;
        self.rxbuf.clear();
        self.asm.clear();
        let _ = self.pipe_tx.send(a);
    }

    /// let every task run until nothing changes any more; returns output lines
    pub async fn quiesce(&mut self) -> Vec<String> {
        use tokio::io::AsyncReadExt;
        let mut idle = 0;
        let mut total = 0;
        let mut buf = [0u8; 8192];
        let mut last_log = self.shared.log.lock().unwrap().len();
        while idle < 8 && total < 20000 {
            tokio::task::yield_now().await;
            total += 1;
            let mut changed = false;
            if let Some(peer) = self.peer.as_mut() {
                loop {
                    match dnp3::verif_hooks::poll_once(peer.read(&mut buf)).await {
                        Some(Ok(n)) if n > 0 => {
                            self.rxbuf.extend_from_slice(&buf[..n]);
                            changed = true;
                        }
                        _ => break,
                    }
                }
            }
            let l = self.shared.log.lock().unwrap().len();
            if l != last_log {
                last_log = l;
                changed = true;
            }
            if changed { idle = 0 } else { idle += 1 }
        }
        let mut out: Vec<String> = std::mem::take(&mut *self.shared.log.lock().unwrap());
        if out.iter().any(|o| o == "task-exit") {
            self.exited = true;
        }
        if !self.panicked && !self.exited && self.task.is_finished() {
            self.panicked = true;
            out.push("panic".to_string());
        }
        if total >= 20000 {
            out.push("stall".to_string());
        }
        if out.iter().any(|o| o.starts_with("session ")) {
            self.peer = None;
        }
        // new handles
        for (addr, h) in self.shared.new_assoc.lock().unwrap().drain(..) {
            self.handles.insert(addr, h);
            self.polls.retain(|k, _| k.0 != addr);
            self.poll_count.insert(addr, 0);
        }
        for (addr, h) in self.shared.new_poll.lock().unwrap().drain(..) {
            let k = *self.poll_count.get(&addr).unwrap_or(&0);
            self.poll_count.insert(addr, k + 1);
            self.polls.insert((addr, k), h);
            for o in out.iter_mut() {
                if o == "poll ok" {
                    *o = format!("poll {k}");
                }
            }
        }
        // decode link frames -> transport segments -> fragments
        let mut i = 0;
        while i + 10 <= self.rxbuf.len() {
            let b = &self.rxbuf;
            let dl = (b[i + 2] as usize).saturating_sub(5);
            let trailer = (dl / 16) * 18 + if dl % 16 == 0 { 0 } else { dl % 16 + 2 };
            if i + 10 + trailer > b.len() {
                break;
            }
            let ctrl = b[i + 3];
            let dst = u16::from_le_bytes([b[i + 4], b[i + 5]]);
            let src = u16::from_le_bytes([b[i + 6], b[i + 7]]);
            let mut payload = Vec::new();
            for blk in b[i + 10..i + 10 + trailer].chunks(18) {
                payload.extend_from_slice(&blk[..blk.len() - 2]);
            }
            if ref_frame(ctrl, dst, src, &payload) != b[i..i + 10 + trailer] {
                out.push(format!("txbad {}", hex(&b[i..i + 10 + trailer])));
            } else if ctrl & 0x4F == 0x44 && !payload.is_empty() {
                let tb = payload[0];
                if tb & 0x40 != 0 {
                    self.asm.clear();
                }
                self.asm.extend_from_slice(&payload[1..]);
                if tb & 0x80 != 0 {
                    if src != MASTER || ctrl != 0xC4 {
                        out.push(format!("txbad-link {ctrl} {src}"));
                    }
                    out.push(format!("tx {} {}", dst, hex(&self.asm)));
                    if self.asm.len() >= 2 && self.asm[1] != 0 {
                        self.last_req = Some((dst, self.asm.clone()));
                    }
                    self.asm.clear();
                }
            } else {
                out.push(format!("txlink {ctrl} {dst} {src}"));
            }
            i += 10 + trailer;
        }
        self.rxbuf.drain(..i);
        out
    }

    /// the harness' automatic reconnection after a session ended
    pub async fn settle(&mut self) -> Vec<String> {
        let mut out = self.quiesce().await;
        if self.peer.is_none() && self.want_up && self.enabled && !self.exited && !self.panicked {
            self.connect();
            out.extend(self.quiesce().await);
        }
        out
    }

    pub async fn rx(&mut self, src: u16, dst: u16, frag: &[u8]) {
        use tokio::io::AsyncWriteExt;
        let chunks: Vec<&[u8]> = frag.chunks(249).collect();
        let mut bytes = Vec::new();
        for (i, c) in chunks.iter().enumerate() {
            let mut tb = self.tseq & 0x3F;
            self.tseq = (self.tseq + 1) & 0x3F;
            if i == 0 { tb |= 0x40 }
            if i + 1 == chunks.len() { tb |= 0x80 }
            let mut p = vec![tb];
            p.extend_from_slice(c);
            bytes.extend(ref_frame(0x44, dst, src, &p));
        }
        if let Some(peer) = self.peer.as_mut() {
            let _ = peer.write_all(&bytes).await;
        }
    }

    pub async fn rxlink(&mut self, src: u16, dst: u16, ctrl: u8) {
        use tokio::io::AsyncWriteExt;
        let bytes = ref_frame(ctrl, dst, src, &[]);
        if let Some(peer) = self.peer.as_mut() {
            let _ = peer.write_all(&bytes).await;
        }
    }

    /// issue a user request through the real handle future; its result is logged when it resolves
    fn user(&mut self, id: u64, addr: u16, kind: &str, args: &[&str]) -> bool {
        let mut h = match self.handles.get(&addr) {
            Some(h) => h.clone(),
            None => return false,
        };
        let sh = self.shared.clone();
        match (kind, args) {
            ("read", [c]) | ("readh", [c]) => {
                let c: u64 = match c.parse() {
                    Ok(c) => c,
                    Err(_) => return false,
                };
                let req = ReadRequest::class_scan(classes(c));
                let custom = kind == "readh";
                tokio::spawn(async move {
                    let r = if custom {
                        h.read_with_handler(req, Box::new(RH { who: format!("h{id}"), sh: sh.clone() })).await
                    } else {
                        h.read(req).await
                    };
                    sh.push(format!("complete {id} {}", match r { Ok(()) => "ok".to_string(), Err(e) => format!("err {}", task_err(e)) }));
                });
            }
            ("do", [o]) | ("sbo", [o]) => {
                let hs = match command_headers(&unhex(o)) {
                    Some(x) => x,
                    None => return false,
                };
                let mode = if kind == "do" { CommandMode::DirectOperate } else { CommandMode::SelectBeforeOperate };
                tokio::spawn(async move {
                    let r = h.operate(mode, hs).await;
                    sh.push(format!("complete {id} {}", match r { Ok(()) => "ok".to_string(), Err(e) => cmd_err(e) }));
                });
            }
            ("time", [p]) => {
                let p = match *p {
                    "lan" => TimeSyncProcedure::Lan,
                    "nonlan" => TimeSyncProcedure::NonLan,
                    "direct" => TimeSyncProcedure::DirectWriteAbsTime,
                    _ => return false,
                };
                tokio::spawn(async move {
                    let r = h.synchronize_time(p).await;
                    sh.push(format!("complete {id} {}", match r { Ok(()) => "ok".to_string(), Err(e) => ts_err(e) }));
                });
            }
            ("cold", []) | ("warm", []) => {
                let cold = kind == "cold";
                tokio::spawn(async move {
                    let r = if cold { h.cold_restart().await } else { h.warm_restart().await };
                    sh.push(format!("complete {id} {}", match r { Ok(d) => format!("ok {}", d.as_millis()), Err(e) => format!("err {}", task_err(e)) }));
                });
            }
            ("deadband", [o]) => {
                let hs = match deadband_headers(&unhex(o)) {
                    Some(x) => x,
                    None => return false,
                };
                tokio::spawn(async move {
                    let r = h.write_dead_bands(hs).await;
                    sh.push(format!("complete {id} {}", match r { Ok(()) => "ok".to_string(), Err(e) => write_err(e) }));
                });
            }
            ("link", []) => {
                tokio::spawn(async move {
                    let r = h.check_link_status().await;
                    sh.push(format!("complete {id} {}", match r { Ok(()) => "ok".to_string(), Err(e) => format!("err {}", task_err(e)) }));
                });
            }
            _ => return false,
        }
        true
    }
}

fn group_of(o: &str) -> u8 {
    if o.starts_with("tx") {
        2
    } else if o.starts_with("complete ") || o.starts_with("assoc ") || o.starts_with("poll ") {
        1
    } else {
        0
    }
}

pub fn run(ops: &str, out: &mut dyn Write, mon: &mut dyn Write) {
    std::panic::set_hook(Box::new(|i| {
        if std::env::var("VERIF_DEBUG").is_ok() {
            eprintln!("panic: {i}");
        }
    }));
    let mut stats = Stats::default();
    for (hdr, lines) in split_cases(ops) {
        writeln!(out, "{hdr}").unwrap();
        let kind = case_attr(&hdr, "kind").unwrap_or("?").to_string();
        stats.hit(&format!("kind_{kind}"));
        stats.note_case(&lines.join("\n"));
        let rt = runtime();
        // (op line, resolved op line, outputs)
        let mut trace: Vec<(String, String, Vec<String>)> = Vec::new();
        rt.block_on(async {
            let mut st: Option<Station> = None;
            for line in &lines {
                let ws: Vec<&str> = line.split_whitespace().collect();
                if ws.is_empty() || ws[0].starts_with('@') {
                    continue;
                }
                let mut outs: Vec<String> = Vec::new();
                let mut resolved = line.clone();
                let dropped = st.as_ref().map(|s| s.master.is_none()).unwrap_or(false);
                let handle_op = matches!(ws[0], "assoc" | "rmassoc" | "poll" | "demand" | "rmpoll" | "user" | "enable" | "disable" | "shutdown");
                match ws[0] {
                    "cfg" => {
                        let mut s = Station::new(kv_u64(&ws[1..], "tx", 2048) as usize);
                        outs = s.settle().await;
                        st = Some(s);
                    }
                    _ if st.is_none() => outs.push("bad-op".to_string()),
                    _ if handle_op && dropped => outs.push("bad-op".to_string()),
                    "assoc" if ws.len() >= 2 && ws[1].parse::<u16>().is_ok() => {
                        let s = st.as_mut().unwrap();
                        let addr: u16 = ws[1].parse().unwrap();
                        let cfg = assoc_config(&ws[2..]);
                        let mut m = s.master.clone().unwrap();
                        let sh = s.shared.clone();
                        tokio::spawn(async move {
                            let r = m
                                .add_association(
                                    EndpointAddress::try_new(addr).unwrap(),
                                    cfg,
                                    Box::new(RH { who: format!("{addr}"), sh: sh.clone() }),
                                    Box::new(AH(sh.clone())),
                                    Box::new(AI { addr, sh: sh.clone() }),
                                )
                                .await;
                            match r {
                                Ok(h) => {
                                    sh.new_assoc.lock().unwrap().push((addr, h));
                                    sh.push("assoc ok".to_string());
                                }
                                Err(AssociationError::DuplicateAddress(_)) => sh.push("assoc err dup".to_string()),
                                Err(e) => sh.push(format!("assoc err {e:?}")),
                            }
                        });
                        outs = s.settle().await;
                    }
                    "rmassoc" if ws.len() == 2 && ws[1].parse::<u16>().is_ok() => {
                        let s = st.as_mut().unwrap();
                        let addr: u16 = ws[1].parse().unwrap();
                        let _ = s.master.as_mut().unwrap().remove_association(EndpointAddress::try_new(addr).unwrap()).await;
                        outs = s.settle().await;
                    }
                    "poll" if ws.len() == 4 => {
                        let s = st.as_mut().unwrap();
                        match (ws[1].parse::<u16>(), ws[2].parse::<u64>(), ws[3].parse::<u64>()) {
                            (Ok(addr), Ok(period), Ok(c)) if s.handles.contains_key(&addr) => {
                                let mut h = s.handles.get(&addr).unwrap().clone();
                                let sh = s.shared.clone();
                                tokio::spawn(async move {
                                    match h.add_poll(ReadRequest::class_scan(classes(c)), if period == u64::MAX { Duration::MAX } else { Duration::from_millis(period) }).await {
                                        Ok(p) => {
                                            sh.new_poll.lock().unwrap().push((addr, p));
                                            sh.push("poll ok".to_string());
                                        }
                                        Err(PollError::NoSuchAssociation(_)) => sh.push("poll err no_association".to_string()),
                                        Err(PollError::Shutdown) => sh.push("poll err shutdown".to_string()),
                                    }
                                });
                                outs = s.settle().await;
                            }
                            _ => outs.push("bad-op".to_string()),
                        }
                    }
                    "demand" | "rmpoll" if ws.len() == 3 => {
                        let s = st.as_mut().unwrap();
                        match (ws[1].parse::<u16>(), ws[2].parse::<usize>()) {
                            (Ok(addr), Ok(k)) if s.polls.contains_key(&(addr, k)) => {
                                if ws[0] == "demand" {
                                    let _ = s.polls.get_mut(&(addr, k)).unwrap().demand().await;
                                } else {
                                    let p = s.polls.remove(&(addr, k)).unwrap();
                                    let _ = p.remove().await;
                                }
                                outs = s.settle().await;
                            }
                            _ => outs.push("bad-op".to_string()),
                        }
                    }
                    "user" if ws.len() >= 4 => {
                        let s = st.as_mut().unwrap();
                        match (ws[1].parse::<u64>(), ws[2].parse::<u16>()) {
                            (Ok(id), Ok(addr)) => {
                                if s.user(id, addr, ws[3], &ws[4..]) {
                                    outs = s.settle().await;
                                } else {
                                    outs.push("bad-op".to_string());
                                }
                            }
                            _ => outs.push("bad-op".to_string()),
                        }
                    }
                    "rx" if ws.len() == 4 => {
                        let s = st.as_mut().unwrap();
                        match (ws[1].parse::<u16>(), ws[2].parse::<u16>()) {
                            (Ok(src), Ok(dst)) => {
                                s.rx(src, dst, &unhex(ws[3])).await;
                                outs = s.settle().await;
                            }
                            _ => outs.push("bad-op".to_string()),
                        }
                    }
                    "rxlink" if ws.len() == 4 => {
                        let s = st.as_mut().unwrap();
                        match (ws[1].parse::<u16>(), ws[2].parse::<u16>(), ws[3].parse::<u8>()) {
                            (Ok(src), Ok(dst), Ok(c)) => {
                                s.rxlink(src, dst, c).await;
                                outs = s.settle().await;
                            }
                            _ => outs.push("bad-op".to_string()),
                        }
                    }
                    "reply" => {
                        let s = st.as_mut().unwrap();
                        match resolve_reply(&s.last_req, &ws[1..]) {
                            None => {
                                outs.push("resolved none".to_string());
                                resolved = "resolved none".to_string();
                            }
                            Some((src, dst, frag)) => {
                                resolved = format!("rx {src} {dst} {}", hex(&frag));
                                s.rx(src, dst, &frag).await;
                                outs = s.settle().await;
                                outs.insert(0, format!("resolved {src} {dst} {}", hex(&frag)));
                            }
                        }
                    }
                    "tick" if ws.len() == 2 && ws[1].parse::<u64>().is_ok() => {
                        let s = st.as_mut().unwrap();
                        tokio::time::advance(Duration::from_millis(ws[1].parse().unwrap())).await;
                        outs = s.settle().await;
                    }
                    "clock" if ws.len() == 2 => {
                        let s = st.as_mut().unwrap();
                        *s.shared.clock.lock().unwrap() = ws[1].parse::<u64>().ok();
                        outs = s.settle().await;
                    }
                    "cut" => {
                        let s = st.as_mut().unwrap();
                        s.peer = None;
                        outs = s.settle().await;
                    }
                    "down" => {
                        let s = st.as_mut().unwrap();
                        s.want_up = false;
                        s.peer = None;
                        outs = s.settle().await;
                    }
                    "up" => {
                        let s = st.as_mut().unwrap();
                        s.want_up = true;
                        outs = s.settle().await;
                    }
                    "enable" | "disable" => {
                        let s = st.as_mut().unwrap();
                        s.enabled = ws[0] == "enable";
                        if s.enabled {
                            let _ = s.master.as_mut().unwrap().enable().await;
                        } else {
                            let _ = s.master.as_mut().unwrap().disable().await;
                        }
                        outs = s.settle().await;
                    }
                    "shutdown" => {
                        let s = st.as_mut().unwrap();
                        s.master = None;
                        s.handles.clear();
                        s.polls.clear();
                        outs = s.settle().await;
                    }
                    _ => outs.push("bad-op".to_string()),
                }
                // canonical order within one op: `resolved`, callbacks of the master task, results seen by the
                // handle futures, transmissions
                let mut all: Vec<String> = Vec::new();
                for o in &outs {
                    if o.starts_with("resolved ") {
                        all.push(o.clone());
                    }
                }
                for g in 0..3u8 {
                    for o in &outs {
                        if !o.starts_with("resolved ") && group_of(o) == g {
                            all.push(o.clone());
                        }
                    }
                }
                for o in &all {
                    writeln!(out, "{o}").unwrap();
                    stats.hit(&format!("out_{}", o.split_whitespace().next().unwrap_or("?")));
                }
                writeln!(out, "ok").unwrap();
                trace.push((line.clone(), resolved, all));
            }
        });
        drop(rt);
        crate::mon_master::check(&hdr, &lines, &trace, mon, &mut stats);
    }
    stats.dump(mon);
}
