//! engine `ffimeas` (C20): the MASTER-SIDE MEASUREMENT PATH of the binding layer.
//!
//! What runs: the REAL `impl dnp3::master::ReadHandler for dnp3_ffi::ffi::ReadHandler` (ffi/dnp3-ffi/src/handler.rs)
//! - begin_fragment / end_fragment, the twelve `handle_*` measurement callbacks, `handle_abs_time`,
//! `handle_device_attribute` (nine attribute callbacks) - is called with NATIVE values built by the harness.  The
//! `ffi::ReadHandler` is the interface struct a C program fills in: `extern "C"` function pointers + a context
//! pointer.  The callbacks below behave exactly like a foreign consumer: they drain the opaque iterators with the
//! exported `dnp3_*_iterator_next` / `dnp3_byte_iterator_next` / `dnp3_attr_item_iter_next` functions until NULL and
//! record what they see (C ints, `bool`s, octets) in canonical text.
//!
//! ops (one line = one call of a native `ReadHandler` method; pieces separated by ` ; `):
//!   begin_fragment|end_fragment <ReadType> <fir><fin><con><uns> <seq> <ResponseFunction> <iin1 hex> <iin2 hex>
//!   <cb> <Variation> <Qualifier> <is_event> <has_flags> ; i <index> <fields..> ; ... ; end <n>
//!        cb = binary_input | double_bit_binary_input | binary_output_status | counter | frozen_counter |
//!             analog_input | frozen_analog_input | analog_output_status | binary_output_command_event |
//!             analog_output_command_event | unsigned_integer | octet_string
//!   abs_time <Variation> <Qualifier> <e> <f> sync:<ms>
//!   <x>_attr <Variation> <Qualifier> <e> <f> <AttrEnumName> <set> <variation> <value>   (variation_list_attr: items)
//!   @partial <k> ; octet_string ...      (monitor only) the consumer reads only k octets of every string
//!   @nullcb ; <op>                       (monitor only) an interface struct without any callback
//!   @nul ; string_attr ...               (monitor only) a visible string with an embedded NUL: a C string cannot carry
//!                                        it; the binding may refuse it (nothing delivered) but must never present a
//!                                        truncated string as the value
//! A token `X(p)` carries a payload `p` that the binding-side type has no field for (`Group110(5)`,
//! `Unknown(200)`, `...(F32)`): the reviewed collapses of Props/C20Lists.  The observation must be the op line with
//! those payloads removed - nothing else may change.
//! out:   the observed pieces, one per line | bad-op | ok
//!
//! Expectations are hand-written parallel tables stated from the property (name <-> native variant, name <-> C
//! int of the like-named binding variant, IIN bit positions of IEEE 1815, `Option<Time>` as (value, quality)),
//! never the library's own conversions.
use crate::rng::Rng;
use crate::util::*;
use dnp3::app::attr::{AnyAttribute, AttrSet, AttrValue, Attribute, FloatType, KnownAttribute};
use dnp3::app::control::CommandStatus;
use dnp3::app::measurement::*;
use dnp3::app::{ControlField, Iin, Iin1, Iin2, QualifierCode, ResponseFunction, ResponseHeader, Timestamp, Variation};
use dnp3::master::{HeaderInfo, ReadHandler, ReadType};
use dnp3::verif_hooks::ffimeas_probe as probe;
use dnp3_ffi::ffi;
use std::io::Write;
use std::os::raw::{c_char, c_int, c_void};

// ---------------------------------------------------------------------------------------------
// parallel tables: (native variant, like-named binding variant, name)
// ---------------------------------------------------------------------------------------------
macro_rules! table {
    ($nat:ident, $ffi:ident; $($v:ident),*) => { &[ $( ($nat::$v, ffi::$ffi::$v, stringify!($v)) ),* ] };
}

const QUALS: &[(QualifierCode, ffi::QualifierCode, &str)] =
    table!(QualifierCode, QualifierCode; Range8, Range16, AllObjects, Count8, Count16, CountAndPrefix8, CountAndPrefix16, FreeFormat16);
const READ_TYPES: &[(ReadType, ffi::ReadType, &str)] = table!(ReadType, ReadType; StartupIntegrity, Unsolicited, SinglePoll, PeriodicPoll);
const FUNCS: &[(ResponseFunction, ffi::ResponseFunction, &str)] = table!(ResponseFunction, ResponseFunction; Response, UnsolicitedResponse);
const DBITS: &[(DoubleBit, ffi::DoubleBit, &str)] = table!(DoubleBit, DoubleBit; Intermediate, DeterminedOff, DeterminedOn, Indeterminate);
const STATUS: &[(CommandStatus, ffi::CommandStatus, &str)] = table!(CommandStatus, CommandStatus;
    Success, Timeout, NoSelect, FormatError, NotSupported, AlreadyActive, HardwareError, Local, TooManyOps, NotAuthorized,
    AutomationInhibit, ProcessingLimited, OutOfRange, DownstreamLocal, AlreadyComplete, Blocked, Canceled, BlockedOtherMaster,
    DownstreamFail, NonParticipating);
const ATYPES: &[(ffi::AnalogCommandType, &str)] = &[
    (ffi::AnalogCommandType::I16, "I16"),
    (ffi::AnalogCommandType::I32, "I32"),
    (ffi::AnalogCommandType::F32, "F32"),
    (ffi::AnalogCommandType::F64, "F64"),
];

fn nat_of<N: Copy, F>(t: &[(N, F, &str)], name: &str) -> Option<N> {
    t.iter().find(|x| x.2 == name).map(|x| x.0)
}

fn name_of<N, F: Copy + Into<c_int>>(t: &[(N, F, &str)], code: c_int) -> String {
    match t.iter().find(|x| x.1.into() == code) {
        Some(x) => x.2.to_string(),
        None => format!("?{code}"),
    }
}

/// the name the generated binding enum gives to a C int (what a C / C# / Java consumer reads); `?n` if none
fn enum_obs<E: From<c_int> + std::fmt::Debug>(code: c_int) -> String {
    match std::panic::catch_unwind(|| format!("{:?}", E::from(code))) {
        Ok(s) => s,
        Err(_) => format!("?{code}"),
    }
}

fn bit(b: bool) -> char {
    if b {
        '1'
    } else {
        '0'
    }
}

fn parse_bit(s: &str) -> Option<bool> {
    match s {
        "0" => Some(false),
        "1" => Some(true),
        _ => None,
    }
}

// --- time: none | sync:<ms> | unsync:<ms> -----------------------------------------------------
fn time_nat(tok: &str) -> Option<Option<Time>> {
    if tok == "none" {
        return Some(None);
    }
    let (q, v) = tok.split_once(':')?;
    let v: u64 = v.parse().ok()?;
    if v > 0xFFFF_FFFF_FFFF {
        return None; // not representable natively (DNP3 time is 48 bits)
    }
    match q {
        "sync" => Some(Some(Time::Synchronized(Timestamp::new(v)))),
        "unsync" => Some(Some(Time::Unsynchronized(Timestamp::new(v)))),
        _ => None,
    }
}

/// how an `Option<Time>` must look on the binding side: (value, quality); `None` = (0, InvalidTime)
fn time_obs(t: &ffi::Timestamp) -> String {
    if t.quality == c_int::from(ffi::TimeQuality::SynchronizedTime) {
        format!("sync:{}", t.value)
    } else if t.quality == c_int::from(ffi::TimeQuality::UnsynchronizedTime) {
        format!("unsync:{}", t.value)
    } else if t.quality == c_int::from(ffi::TimeQuality::InvalidTime) {
        if t.value == 0 {
            "none".to_string()
        } else {
            format!("invalid:{}", t.value)
        }
    } else {
        format!("q{}:{}", t.quality, t.value)
    }
}

// --- header info ------------------------------------------------------------------------------
fn var_nat(s: &str) -> Option<Variation> {
    let rest = s.strip_prefix("Group")?;
    let v = if let Some((g, p)) = rest.split_once('(') {
        probe::variation_lookup(g.parse().ok()?, p.strip_suffix(')')?.parse().ok()?)?
    } else {
        let (g, v) = rest.split_once("Var")?;
        probe::variation_lookup(g.parse().ok()?, v.parse().ok()?)?
    };
    if format!("{v:?}") == s {
        Some(v)
    } else {
        None
    }
}

fn info_nat(t: &[&str]) -> Option<HeaderInfo> {
    if t.len() < 4 {
        return None;
    }
    Some(HeaderInfo { variation: var_nat(t[0])?, qualifier: nat_of(QUALS, t[1])?, is_event: parse_bit(t[2])?, has_flags: parse_bit(t[3])? })
}

fn info_obs(i: &ffi::HeaderInfo) -> String {
    format!("{} {} {} {}", enum_obs::<ffi::Variation>(i.variation), name_of(QUALS, i.qualifier), bit(i.is_event), bit(i.has_flags))
}

/// IIN octets from the eight named booleans of the binding struct; bit positions of IEEE 1815 table 4-? (IIN1.0 = broadcast ...)
fn iin1_obs(x: &ffi::Iin1) -> u8 {
    (x.broadcast as u8)
        | (x.class_1_events as u8) << 1
        | (x.class_2_events as u8) << 2
        | (x.class_3_events as u8) << 3
        | (x.need_time as u8) << 4
        | (x.local_control as u8) << 5
        | (x.device_trouble as u8) << 6
        | (x.device_restart as u8) << 7
}

fn iin2_obs(x: &ffi::Iin2) -> u8 {
    (x.no_func_code_support as u8)
        | (x.object_unknown as u8) << 1
        | (x.parameter_error as u8) << 2
        | (x.event_buffer_overflow as u8) << 3
        | (x.already_executing as u8) << 4
        | (x.config_corrupt as u8) << 5
        | (x.reserved_2 as u8) << 6
        | (x.reserved_1 as u8) << 7
}

fn frag_obs(cb: &str, read_type: c_int, h: &ffi::ResponseHeader) -> String {
    let c = &h.control_field;
    format!(
        "{cb} {} {}{}{}{} {} {} {:02x} {:02x}",
        name_of(READ_TYPES, read_type),
        bit(c.fir),
        bit(c.fin),
        bit(c.con),
        bit(c.uns),
        c.seq,
        name_of(FUNCS, h.func),
        iin1_obs(&h.iin.iin1),
        iin2_obs(&h.iin.iin2)
    )
}

fn status_nat(tok: &str) -> Option<CommandStatus> {
    if let Some(p) = tok.strip_prefix("Unknown(") {
        return Some(CommandStatus::Unknown(p.strip_suffix(')')?.parse().ok()?));
    }
    nat_of(STATUS, tok)
}

fn status_obs(code: c_int) -> String {
    if code == c_int::from(ffi::CommandStatus::Unknown) {
        "Unknown".to_string()
    } else {
        name_of(STATUS, code)
    }
}

fn atype_obs(code: c_int) -> String {
    match ATYPES.iter().find(|x| c_int::from(x.0) == code) {
        Some(x) => x.1.to_string(),
        None => format!("?{code}"),
    }
}

fn f64_tok(tok: &str) -> Option<f64> {
    if tok.len() != 16 {
        return None;
    }
    u64::from_str_radix(tok, 16).ok().map(f64::from_bits)
}

fn flags_tok(tok: &str) -> Option<Flags> {
    if tok.len() != 2 {
        return None;
    }
    u8::from_str_radix(tok, 16).ok().map(|value| Flags { value })
}

// ---------------------------------------------------------------------------------------------
// the foreign consumer: `extern "C"` callbacks + context
// ---------------------------------------------------------------------------------------------
const ITEM_LIMIT: usize = 100_000;

struct Rec {
    lines: Vec<String>,
    /// how many octets of every octet string the consumer reads (usize::MAX: until NULL)
    drain: usize,
}

fn rec<'a>(ctx: *mut c_void) -> &'a mut Rec {
    unsafe { &mut *(ctx as *mut Rec) }
}

fn end_line(n: usize, extra: usize, null_ok: bool) -> String {
    let mut s = format!("end {n}");
    if extra != 0 {
        s.push_str(&format!(" items-after-null={extra}"));
    }
    if !null_ok {
        s.push_str(" null-iterator-yields-item");
    }
    s
}

macro_rules! cb_iter {
    ($fname:ident, $cb:expr, $it:ident, $next:ident, |$v:ident| $fmt:expr) => {
        extern "C" fn $fname(info: ffi::HeaderInfo, values: *mut dnp3_ffi::$it, ctx: *mut c_void) {
            let r = rec(ctx);
            r.lines.push(format!("{} {}", $cb, info_obs(&info)));
            let mut n = 0usize;
            loop {
                let p = unsafe { ffi::$next(values) };
                if p.is_null() {
                    break;
                }
                let $v = unsafe { &*p };
                r.lines.push(format!("i {} {}", $v.index, $fmt));
                n += 1;
                if n > ITEM_LIMIT {
                    break;
                }
            }
            let mut extra = 0usize;
            for _ in 0..2 {
                if !unsafe { ffi::$next(values) }.is_null() {
                    extra += 1;
                }
            }
            let null_ok = unsafe { ffi::$next(std::ptr::null_mut()) }.is_null();
            r.lines.push(end_line(n, extra, null_ok));
        }
    };
}

cb_iter!(cb_binary_input, "binary_input", BinaryInputIterator, dnp3_binary_input_iterator_next,
    |v| format!("{} {:02x} {}", bit(v.value), v.flags.value, time_obs(&v.time)));
cb_iter!(cb_double_bit_binary_input, "double_bit_binary_input", DoubleBitBinaryInputIterator, dnp3_double_bit_binary_input_iterator_next,
    |v| format!("{} {:02x} {}", name_of(DBITS, v.value), v.flags.value, time_obs(&v.time)));
cb_iter!(cb_binary_output_status, "binary_output_status", BinaryOutputStatusIterator, dnp3_binary_output_status_iterator_next,
    |v| format!("{} {:02x} {}", bit(v.value), v.flags.value, time_obs(&v.time)));
cb_iter!(cb_counter, "counter", CounterIterator, dnp3_counter_iterator_next,
    |v| format!("{} {:02x} {}", v.value, v.flags.value, time_obs(&v.time)));
cb_iter!(cb_frozen_counter, "frozen_counter", FrozenCounterIterator, dnp3_frozen_counter_iterator_next,
    |v| format!("{} {:02x} {}", v.value, v.flags.value, time_obs(&v.time)));
cb_iter!(cb_analog_input, "analog_input", AnalogInputIterator, dnp3_analog_input_iterator_next,
    |v| format!("{:016x} {:02x} {}", v.value.to_bits(), v.flags.value, time_obs(&v.time)));
cb_iter!(cb_frozen_analog_input, "frozen_analog_input", FrozenAnalogInputIterator, dnp3_frozen_analog_input_iterator_next,
    |v| format!("{:016x} {:02x} {}", v.value.to_bits(), v.flags.value, time_obs(&v.time)));
cb_iter!(cb_analog_output_status, "analog_output_status", AnalogOutputStatusIterator, dnp3_analog_output_status_iterator_next,
    |v| format!("{:016x} {:02x} {}", v.value.to_bits(), v.flags.value, time_obs(&v.time)));
cb_iter!(cb_binary_output_command_event, "binary_output_command_event", BinaryOutputCommandEventIterator, dnp3_binary_output_command_event_iterator_next,
    |v| format!("{} {} {}", status_obs(v.status), bit(v.commanded_state), time_obs(&v.time)));
cb_iter!(cb_analog_output_command_event, "analog_output_command_event", AnalogOutputCommandEventIterator, dnp3_analog_output_command_event_iterator_next,
    |v| format!("{} {} {:016x} {}", status_obs(v.status), atype_obs(v.command_type), v.commanded_value.to_bits(), time_obs(&v.time)));
cb_iter!(cb_unsigned_integer, "unsigned_integer", UnsignedIntegerIterator, dnp3_unsigned_integer_iterator_next,
    |v| format!("{}", v.value));

/// drains a byte iterator as a C consumer does; `limit` octets at most.  `(octets, "" | defect text)`
fn drain_bytes(it: *mut dnp3_ffi::ByteIterator, limit: usize) -> (Vec<u8>, &'static str) {
    let mut bytes = Vec::new();
    let mut note = "";
    while bytes.len() < limit {
        let b = unsafe { ffi::dnp3_byte_iterator_next(it) };
        if b.is_null() {
            if !unsafe { ffi::dnp3_byte_iterator_next(it) }.is_null() {
                note = " octet-after-null";
            }
            break;
        }
        bytes.push(unsafe { *b });
        if bytes.len() > ITEM_LIMIT {
            note = " endless";
            break;
        }
    }
    (bytes, note)
}

extern "C" fn cb_octet_string(info: ffi::HeaderInfo, values: *mut dnp3_ffi::OctetStringIterator, ctx: *mut c_void) {
    let r = rec(ctx);
    r.lines.push(format!("octet_string {}", info_obs(&info)));
    let mut n = 0usize;
    loop {
        let p = unsafe { ffi::dnp3_octet_string_iterator_next(values) };
        if p.is_null() {
            break;
        }
        let os = unsafe { &*p };
        let (bytes, note) = drain_bytes(os.value, r.drain);
        r.lines.push(format!("i {} {}{}", os.index, hex(&bytes), note));
        n += 1;
        if n > ITEM_LIMIT {
            break;
        }
    }
    let mut extra = 0usize;
    for _ in 0..2 {
        if !unsafe { ffi::dnp3_octet_string_iterator_next(values) }.is_null() {
            extra += 1;
        }
    }
    let null_ok = unsafe { ffi::dnp3_octet_string_iterator_next(std::ptr::null_mut()) }.is_null()
        && unsafe { ffi::dnp3_byte_iterator_next(std::ptr::null_mut()) }.is_null();
    r.lines.push(end_line(n, extra, null_ok));
}

extern "C" fn cb_begin_fragment(read_type: c_int, header: ffi::ResponseHeader, ctx: *mut c_void) {
    rec(ctx).lines.push(frag_obs("begin_fragment", read_type, &header));
}

extern "C" fn cb_end_fragment(read_type: c_int, header: ffi::ResponseHeader, ctx: *mut c_void) {
    rec(ctx).lines.push(frag_obs("end_fragment", read_type, &header));
}

extern "C" fn cb_abs_time(info: ffi::HeaderInfo, time: ffi::Timestamp, ctx: *mut c_void) {
    rec(ctx).lines.push(format!("abs_time {} {}", info_obs(&info), time_obs(&time)));
}

extern "C" fn cb_string_attr(info: ffi::HeaderInfo, attr: c_int, set: u8, variation: u8, value: *const c_char, ctx: *mut c_void) {
    let v = if value.is_null() { "NULL".to_string() } else { hex(unsafe { std::ffi::CStr::from_ptr(value) }.to_bytes()) };
    rec(ctx).lines.push(format!("string_attr {} {} {set} {variation} {v}", info_obs(&info), enum_obs::<ffi::StringAttr>(attr)));
}

extern "C" fn cb_variation_list_attr(info: ffi::HeaderInfo, attr: c_int, set: u8, variation: u8, value: *mut dnp3_ffi::AttrItemIter, ctx: *mut c_void) {
    let r = rec(ctx);
    r.lines.push(format!("variation_list_attr {} {} {set} {variation}", info_obs(&info), enum_obs::<ffi::VariationListAttr>(attr)));
    let mut n = 0usize;
    loop {
        let p = unsafe { ffi::dnp3_attr_item_iter_next(value) };
        if p.is_null() {
            break;
        }
        let it = unsafe { &*p };
        r.lines.push(format!("i {} {}", it.variation, bit(it.properties.is_writable)));
        n += 1;
        if n > ITEM_LIMIT {
            break;
        }
    }
    let mut extra = 0usize;
    for _ in 0..2 {
        if !unsafe { ffi::dnp3_attr_item_iter_next(value) }.is_null() {
            extra += 1;
        }
    }
    let null_ok = unsafe { ffi::dnp3_attr_item_iter_next(std::ptr::null_mut()) }.is_null();
    r.lines.push(end_line(n, extra, null_ok));
}

extern "C" fn cb_uint_attr(info: ffi::HeaderInfo, attr: c_int, set: u8, variation: u8, value: u32, ctx: *mut c_void) {
    rec(ctx).lines.push(format!("uint_attr {} {} {set} {variation} {value}", info_obs(&info), enum_obs::<ffi::UintAttr>(attr)));
}

extern "C" fn cb_bool_attr(info: ffi::HeaderInfo, attr: c_int, set: u8, variation: u8, value: bool, ctx: *mut c_void) {
    rec(ctx).lines.push(format!("bool_attr {} {} {set} {variation} {}", info_obs(&info), enum_obs::<ffi::BoolAttr>(attr), bit(value)));
}

extern "C" fn cb_int_attr(info: ffi::HeaderInfo, attr: c_int, set: u8, variation: u8, value: i32, ctx: *mut c_void) {
    rec(ctx).lines.push(format!("int_attr {} {} {set} {variation} {value}", info_obs(&info), enum_obs::<ffi::IntAttr>(attr)));
}

extern "C" fn cb_time_attr(info: ffi::HeaderInfo, attr: c_int, set: u8, variation: u8, value: u64, ctx: *mut c_void) {
    rec(ctx).lines.push(format!("time_attr {} {} {set} {variation} {value}", info_obs(&info), enum_obs::<ffi::TimeAttr>(attr)));
}

extern "C" fn cb_float_attr(info: ffi::HeaderInfo, attr: c_int, set: u8, variation: u8, value: f64, ctx: *mut c_void) {
    rec(ctx).lines.push(format!("float_attr {} {} {set} {variation} {:016x}", info_obs(&info), enum_obs::<ffi::FloatAttr>(attr), value.to_bits()));
}

extern "C" fn cb_octet_string_attr(info: ffi::HeaderInfo, attr: c_int, set: u8, variation: u8, value: *mut dnp3_ffi::ByteIterator, ctx: *mut c_void) {
    let (bytes, note) = drain_bytes(value, usize::MAX);
    rec(ctx).lines.push(format!("octet_string_attr {} {} {set} {variation} {}{note}", info_obs(&info), enum_obs::<ffi::OctetStringAttr>(attr), hex(&bytes)));
}

extern "C" fn cb_bit_string_attr(info: ffi::HeaderInfo, attr: c_int, set: u8, variation: u8, value: *mut dnp3_ffi::ByteIterator, ctx: *mut c_void) {
    let (bytes, note) = drain_bytes(value, usize::MAX);
    rec(ctx).lines.push(format!("bit_string_attr {} {} {set} {variation} {}{note}", info_obs(&info), enum_obs::<ffi::BitStringAttr>(attr), hex(&bytes)));
}

/// the interface struct exactly as a C program fills it in
fn handler(ctx: *mut Rec, with_callbacks: bool) -> ffi::ReadHandler {
    if !with_callbacks {
        return ffi::ReadHandler {
            begin_fragment: None,
            end_fragment: None,
            handle_binary_input: None,
            handle_double_bit_binary_input: None,
            handle_binary_output_status: None,
            handle_counter: None,
            handle_frozen_counter: None,
            handle_analog_input: None,
            handle_frozen_analog_input: None,
            handle_analog_output_status: None,
            handle_binary_output_command_event: None,
            handle_analog_output_command_event: None,
            handle_unsigned_integer: None,
            handle_octet_string: None,
            handle_abs_time: None,
            handle_string_attr: None,
            handle_variation_list_attr: None,
            handle_uint_attr: None,
            handle_bool_attr: None,
            handle_int_attr: None,
            handle_time_attr: None,
            handle_float_attr: None,
            handle_octet_string_attr: None,
            handle_bit_string_attr: None,
            on_destroy: None,
            ctx: ctx as *mut c_void,
        };
    }
    ffi::ReadHandler {
        begin_fragment: Some(cb_begin_fragment),
        end_fragment: Some(cb_end_fragment),
        handle_binary_input: Some(cb_binary_input),
        handle_double_bit_binary_input: Some(cb_double_bit_binary_input),
        handle_binary_output_status: Some(cb_binary_output_status),
        handle_counter: Some(cb_counter),
        handle_frozen_counter: Some(cb_frozen_counter),
        handle_analog_input: Some(cb_analog_input),
        handle_frozen_analog_input: Some(cb_frozen_analog_input),
        handle_analog_output_status: Some(cb_analog_output_status),
        handle_binary_output_command_event: Some(cb_binary_output_command_event),
        handle_analog_output_command_event: Some(cb_analog_output_command_event),
        handle_unsigned_integer: Some(cb_unsigned_integer),
        handle_octet_string: Some(cb_octet_string),
        handle_abs_time: Some(cb_abs_time),
        handle_string_attr: Some(cb_string_attr),
        handle_variation_list_attr: Some(cb_variation_list_attr),
        handle_uint_attr: Some(cb_uint_attr),
        handle_bool_attr: Some(cb_bool_attr),
        handle_int_attr: Some(cb_int_attr),
        handle_time_attr: Some(cb_time_attr),
        handle_float_attr: Some(cb_float_attr),
        handle_octet_string_attr: Some(cb_octet_string_attr),
        handle_bit_string_attr: Some(cb_bit_string_attr),
        on_destroy: None,
        ctx: ctx as *mut c_void,
    }
}

// ---------------------------------------------------------------------------------------------
// op line -> native values -> the real trait impl
// ---------------------------------------------------------------------------------------------
type H = ffi::ReadHandler;

/// items of a measurement op: every piece between the first and the `end <n>` piece
fn items<'a>(pieces: &'a [&'a str]) -> Option<Vec<Vec<&'a str>>> {
    if pieces.len() < 2 {
        return None;
    }
    let last: Vec<&str> = pieces[pieces.len() - 1].split_whitespace().collect();
    if last.len() != 2 || last[0] != "end" || last[1].parse::<usize>().ok()? != pieces.len() - 2 {
        return None;
    }
    let mut res = Vec::new();
    for p in &pieces[1..pieces.len() - 1] {
        let t: Vec<&str> = p.split_whitespace().collect();
        if t.len() < 2 || t[0] != "i" {
            return None;
        }
        res.push(t[1..].to_vec());
    }
    Some(res)
}

macro_rules! meas {
    ($h:expr, $info:expr, $items:expr, $method:ident, $n:expr, |$t:ident| $build:expr) => {{
        let mut v = Vec::new();
        for $t in &$items {
            if $t.len() != $n + 1 {
                return None;
            }
            let idx: u16 = $t[0].parse().ok()?;
            v.push(($build, idx));
        }
        let mut it = v.into_iter();
        <H as ReadHandler>::$method($h, $info, &mut it);
    }};
}

/// the f64 the binding must present for an analog command value, and the native value it came from
fn acv_nat(ty: &str, f: f64) -> Option<AnalogCommandValue> {
    let same = |g: f64| g.to_bits() == f.to_bits();
    match ty {
        "I16" => {
            let x = f as i16;
            if same(x as f64) {
                Some(AnalogCommandValue::I16(x))
            } else {
                None
            }
        }
        "I32" => {
            let x = f as i32;
            if same(x as f64) {
                Some(AnalogCommandValue::I32(x))
            } else {
                None
            }
        }
        "F32" => {
            let x = f as f32;
            if same(x as f64) {
                Some(AnalogCommandValue::F32(x))
            } else {
                None
            }
        }
        "F64" => Some(AnalogCommandValue::F64(f)),
        _ => None,
    }
}

/// `None` = the op line is malformed (generator bug, never the library)
fn exec(h: &mut H, pieces: &[&str]) -> Option<()> {
    let t: Vec<&str> = pieces[0].split_whitespace().collect();
    let cb = *t.first()?;
    match cb {
        "begin_fragment" | "end_fragment" => {
            if t.len() != 7 || pieces.len() != 1 || t[2].len() != 4 {
                return None;
            }
            let rt = nat_of(READ_TYPES, t[1])?;
            let c: Vec<bool> = t[2].chars().map(|c| c == '1').collect();
            let seq: u8 = t[3].parse().ok()?;
            if seq > 15 {
                return None;
            }
            let header = ResponseHeader {
                control: ControlField { fir: c[0], fin: c[1], con: c[2], uns: c[3], seq: probe::sequence(seq) },
                function: nat_of(FUNCS, t[4])?,
                iin: Iin::new(Iin1::new(u8::from_str_radix(t[5], 16).ok()?), Iin2::new(u8::from_str_radix(t[6], 16).ok()?)),
            };
            if cb == "begin_fragment" {
                let _ = <H as ReadHandler>::begin_fragment(h, rt, header);
            } else {
                let _ = <H as ReadHandler>::end_fragment(h, rt, header);
            }
            return Some(());
        }
        _ => {}
    }
    let info = info_nat(t.get(1..5)?)?;
    match cb {
        "abs_time" => {
            if t.len() != 6 || pieces.len() != 1 {
                return None;
            }
            match time_nat(t[5])? {
                Some(Time::Synchronized(x)) => <H as ReadHandler>::handle_abs_time(h, info, x),
                _ => return None,
            }
        }
        "string_attr" | "uint_attr" | "bool_attr" | "int_attr" | "time_attr" | "float_attr" | "octet_string_attr" | "bit_string_attr" | "variation_list_attr" => {
            return exec_attr(h, cb, info, &t, pieces);
        }
        _ => {
            if t.len() != 5 {
                return None;
            }
            let its = items(pieces)?;
            match cb {
                "binary_input" => meas!(h, info, its, handle_binary_input, 3, |t| BinaryInput { value: parse_bit(t[1])?, flags: flags_tok(t[2])?, time: time_nat(t[3])? }),
                "double_bit_binary_input" => {
                    meas!(h, info, its, handle_double_bit_binary_input, 3, |t| DoubleBitBinaryInput { value: nat_of(DBITS, t[1])?, flags: flags_tok(t[2])?, time: time_nat(t[3])? })
                }
                "binary_output_status" => {
                    meas!(h, info, its, handle_binary_output_status, 3, |t| BinaryOutputStatus { value: parse_bit(t[1])?, flags: flags_tok(t[2])?, time: time_nat(t[3])? })
                }
                "counter" => meas!(h, info, its, handle_counter, 3, |t| Counter { value: t[1].parse().ok()?, flags: flags_tok(t[2])?, time: time_nat(t[3])? }),
                "frozen_counter" => meas!(h, info, its, handle_frozen_counter, 3, |t| FrozenCounter { value: t[1].parse().ok()?, flags: flags_tok(t[2])?, time: time_nat(t[3])? }),
                "analog_input" => meas!(h, info, its, handle_analog_input, 3, |t| AnalogInput { value: f64_tok(t[1])?, flags: flags_tok(t[2])?, time: time_nat(t[3])? }),
                "frozen_analog_input" => {
                    meas!(h, info, its, handle_frozen_analog_input, 3, |t| FrozenAnalogInput { value: f64_tok(t[1])?, flags: flags_tok(t[2])?, time: time_nat(t[3])? })
                }
                "analog_output_status" => {
                    meas!(h, info, its, handle_analog_output_status, 3, |t| AnalogOutputStatus { value: f64_tok(t[1])?, flags: flags_tok(t[2])?, time: time_nat(t[3])? })
                }
                "binary_output_command_event" => meas!(h, info, its, handle_binary_output_command_event, 3, |t| BinaryOutputCommandEvent {
                    status: status_nat(t[1])?,
                    commanded_state: parse_bit(t[2])?,
                    time: time_nat(t[3])?
                }),
                "analog_output_command_event" => meas!(h, info, its, handle_analog_output_command_event, 4, |t| AnalogOutputCommandEvent {
                    status: status_nat(t[1])?,
                    commanded_value: acv_nat(t[2], f64_tok(t[3])?)?,
                    time: time_nat(t[4])?
                }),
                "unsigned_integer" => meas!(h, info, its, handle_unsigned_integer, 1, |t| UnsignedInteger { value: t[1].parse().ok()? }),
                "octet_string" => {
                    let mut store: Vec<(Vec<u8>, u16)> = Vec::new();
                    for t in &its {
                        if t.len() != 2 {
                            return None;
                        }
                        store.push((unhex_checked(t[1])?, t[0].parse().ok()?));
                    }
                    let mut it = store.iter().map(|(b, i)| (b.as_slice(), *i));
                    <H as ReadHandler>::handle_octet_string(h, info, &mut it);
                }
                _ => return None,
            }
        }
    }
    Some(())
}

fn unhex_checked(s: &str) -> Option<Vec<u8>> {
    if s == "-" {
        return Some(Vec::new());
    }
    if s.len() % 2 != 0 || !s.bytes().all(|b| b.is_ascii_hexdigit()) {
        return None;
    }
    Some(unhex(s))
}

/// the name the native classification gives an attribute: `Unknown` for `AnyAttribute::Other`
fn attr_class(a: &AnyAttribute) -> (&'static str, String) {
    match a {
        AnyAttribute::Other(x) => (
            match x.value {
                AttrValue::VisibleString(_) => "string_attr",
                AttrValue::UnsignedInt(_) => "uint_attr",
                AttrValue::SignedInt(_) => "int_attr",
                AttrValue::FloatingPoint(_) => "float_attr",
                AttrValue::OctetString(_) => "octet_string_attr",
                AttrValue::Dnp3Time(_) => "time_attr",
                AttrValue::BitString(_) => "bit_string_attr",
                AttrValue::AttrList(_) => "variation_list_attr",
            },
            "Unknown".to_string(),
        ),
        AnyAttribute::Known(k) => match k {
            KnownAttribute::AttributeList(e, _) => ("variation_list_attr", format!("{e:?}")),
            KnownAttribute::String(e, _) => ("string_attr", format!("{e:?}")),
            KnownAttribute::Float(e, _) => ("float_attr", format!("{e:?}")),
            KnownAttribute::UInt(e, _) => ("uint_attr", format!("{e:?}")),
            KnownAttribute::Bool(e, _) => ("bool_attr", format!("{e:?}")),
            KnownAttribute::OctetString(e, _) => ("octet_string_attr", format!("{e:?}")),
            KnownAttribute::DNP3Time(e, _) => ("time_attr", format!("{e:?}")),
        },
    }
}

/// an attribute value as the op line spells it
#[derive(Clone, Debug)]
enum AVal {
    Str(Vec<u8>),
    Uint(u32),
    Int(i32),
    F32(f32),
    F64(f64),
    Octets(Vec<u8>),
    Bits(Vec<u8>),
    Time(u64),
    List(Vec<(u8, bool)>),
}

/// runs `f` on the native attribute (set, variation, value) as the master's parser would hand it over
fn with_attr<R>(set: u8, variation: u8, v: &AVal, f: impl FnOnce(Option<AnyAttribute>) -> R) -> R {
    let mut buf = Vec::new();
    let pairs: Vec<u8>;
    let value = match v {
        AVal::Str(b) => match std::str::from_utf8(b) {
            Ok(s) => AttrValue::VisibleString(s),
            Err(_) => return f(None),
        },
        AVal::Uint(x) => AttrValue::UnsignedInt(*x),
        AVal::Int(x) => AttrValue::SignedInt(*x),
        AVal::F32(x) => AttrValue::FloatingPoint(FloatType::F32(*x)),
        AVal::F64(x) => AttrValue::FloatingPoint(FloatType::F64(*x)),
        AVal::Octets(b) => AttrValue::OctetString(b),
        AVal::Bits(b) => AttrValue::BitString(b),
        AVal::Time(t) => AttrValue::Dnp3Time(Timestamp::new(*t)),
        AVal::List(l) => {
            // the property octet: bit 0 = writable; the other bits do not exist natively (set on odd variations)
            pairs = l.iter().flat_map(|(v, w)| [*v, (*w as u8) | if v % 2 == 1 { 0xA4 } else { 0 }]).collect();
            match probe::variation_list(&pairs, &mut buf) {
                Some(x) => AttrValue::AttrList(x),
                None => return f(None),
            }
        }
    };
    let attr = Attribute { set: AttrSet::new(set), variation, value };
    f(AnyAttribute::try_from(&attr).ok())
}

fn exec_attr(h: &mut H, cb: &str, info: HeaderInfo, t: &[&str], pieces: &[&str]) -> Option<()> {
    let is_list = cb == "variation_list_attr";
    if t.len() != if is_list { 8 } else { 9 } || (!is_list && pieces.len() != 1) {
        return None;
    }
    let name = t[5];
    let set: u8 = t[6].parse().ok()?;
    let variation: u8 = t[7].parse().ok()?;
    let v = match cb {
        "string_attr" => AVal::Str(unhex_checked(t[8])?),
        "uint_attr" => AVal::Uint(t[8].parse().ok()?),
        "int_attr" => AVal::Int(t[8].parse().ok()?),
        "bool_attr" => AVal::Int(parse_bit(t[8])? as i32),
        "time_attr" => AVal::Time(t[8].parse().ok()?),
        "float_attr" => {
            if let Some(b) = t[8].strip_suffix("(F32)") {
                let f = f64_tok(b)?;
                if ((f as f32) as f64).to_bits() != f.to_bits() {
                    return None;
                }
                AVal::F32(f as f32)
            } else {
                AVal::F64(f64_tok(t[8].strip_suffix("(F64)")?)?)
            }
        }
        "octet_string_attr" => AVal::Octets(unhex_checked(t[8])?),
        "bit_string_attr" => AVal::Bits(unhex_checked(t[8])?),
        _ => {
            let mut l = Vec::new();
            for it in items(pieces)? {
                if it.len() != 2 {
                    return None;
                }
                l.push((it[0].parse().ok()?, parse_bit(it[1])?));
            }
            AVal::List(l)
        }
    };
    with_attr(set, variation, &v, |a| {
        let a = a?;
        // the op line must name the callback and the enum name of the native classification
        let (c, n) = attr_class(&a);
        if c != cb || n != name {
            return None;
        }
        <H as ReadHandler>::handle_device_attribute(h, info, a);
        Some(())
    })
}

/// the op line without the payloads the binding side has no field for: what the consumer must see
fn strip_payload(s: &str) -> String {
    let mut out = String::new();
    let mut depth = 0;
    for c in s.chars() {
        match c {
            '(' => depth += 1,
            ')' if depth > 0 => depth -= 1,
            _ if depth == 0 => out.push(c),
            _ => {}
        }
    }
    out
}

/// Ok(observed pieces) | Err(()) = malformed op
fn run_line(line: &str, drain: usize, with_callbacks: bool) -> Result<Vec<String>, ()> {
    let pieces: Vec<&str> = line.split(" ; ").collect();
    let mut r = Rec { lines: Vec::new(), drain };
    let res = {
        let mut h = handler(&mut r as *mut Rec, with_callbacks);
        exec(&mut h, &pieces)
    };
    match res {
        Some(()) => Ok(r.lines),
        None => Err(()),
    }
}

fn head_split(piece: &str, n: usize) -> (String, String) {
    let t: Vec<&str> = piece.split_whitespace().collect();
    let k = n.min(t.len());
    (t[..k].join(" "), t[k..].join(" "))
}

/// the three trace predicates on one op: (monitor name, detail)
fn judge(expected: &[String], observed: &[String]) -> Vec<(&'static str, String)> {
    let mut fails = Vec::new();
    if observed.is_empty() {
        fails.push(("ffi_measurement_lossless", format!("`{}`: the consumer's callback was never invoked", expected[0])));
        return fails;
    }
    let (ecb, erest) = head_split(&expected[0], 1);
    let (ocb, orest) = head_split(&observed[0], 1);
    if ecb != ocb {
        fails.push(("ffi_measurement_lossless", format!("`{ecb}` was delivered to the consumer's `{ocb}` callback")));
        return fails;
    }
    if ecb == "begin_fragment" || ecb == "end_fragment" {
        if erest != orest {
            fails.push(("ffi_header_info_namesake", format!("{ecb}: read type / response header put in `{erest}`, consumer saw `{orest}`")));
        }
    } else {
        let (einfo, eval) = head_split(&erest, 4);
        let (oinfo, oval) = head_split(&orest, 4);
        if einfo != oinfo {
            fails.push(("ffi_header_info_namesake", format!("{ecb}: HeaderInfo put in `{einfo}`, consumer saw `{oinfo}`")));
        }
        if eval != oval {
            fails.push(("ffi_measurement_lossless", format!("{ecb}: value put in `{eval}`, consumer saw `{oval}`")));
        }
    }
    if observed.len() > 1 && !observed[1..].iter().any(|l| l.starts_with("end ")) {
        fails.push(("ffi_iterators_exhaust_exactly", format!("{ecb}: the consumer's drain loop did not terminate normally")));
    }
    let items = |v: &[String]| v.iter().skip(1).filter(|l| l.starts_with("i ")).cloned().collect::<Vec<String>>();
    let (ei, oi) = (items(expected), items(observed));
    let eend = expected.iter().skip(1).find(|l| l.starts_with("end ")).cloned();
    let oend = observed.iter().skip(1).find(|l| l.starts_with("end ")).cloned();
    if ei.len() != oi.len() || eend != oend {
        fails.push((
            "ffi_iterators_exhaust_exactly",
            format!("{ecb}: {} item(s) put in, the iterator yielded {} then `{}` (expected `{}`)", ei.len(), oi.len(), oend.unwrap_or_default(), eend.unwrap_or_default()),
        ));
    }
    for (k, (e, o)) in ei.iter().zip(oi.iter()).enumerate() {
        if e != o {
            let short = |s: &str| if s.len() > 120 { format!("{}..", &s[..120]) } else { s.to_string() };
            fails.push(("ffi_measurement_lossless", format!("{ecb}: item {k} of {}: put in `{}`, consumer saw `{}`", ei.len(), short(e), short(o))));
            break;
        }
    }
    fails
}

pub fn run(ops: &str, out: &mut dyn Write, mon: &mut dyn Write) {
    let mut stats = Stats::default();
    for (hdr, lines) in split_cases(ops) {
        writeln!(out, "{hdr}").unwrap();
        stats.note_case(&lines.join("\n"));
        stats.hit(&format!("kind_{}", case_attr(&hdr, "kind").unwrap_or("?")));
        for l in &lines {
            if l.trim().is_empty() {
                continue;
            }
            // monitor-only variants
            let (line, drain, with_cb, echo): (&str, usize, bool, bool) = if let Some(rest) = l.strip_prefix("@partial ") {
                match rest.split_once(" ; ") {
                    Some((k, op)) => (op, k.trim().parse().unwrap_or(0), true, false),
                    None => continue,
                }
            } else if let Some(op) = l.strip_prefix("@nullcb ; ") {
                (op, usize::MAX, false, false)
            } else if let Some(op) = l.strip_prefix("@nul ; ") {
                let res = std::panic::catch_unwind(std::panic::AssertUnwindSafe(|| run_line(op, usize::MAX, true)));
                match res {
                    Err(_) => writeln!(mon, "MONITOR-FAIL {hdr} :: no_panic :: a visible string with an embedded NUL panicked in the binding layer").unwrap(),
                    Ok(Err(())) => stats.hit("bad_ops"),
                    Ok(Ok(obs)) if obs.is_empty() => stats.hit("nul_string_refused"),
                    Ok(Ok(obs)) => {
                        let want = strip_payload(op);
                        if obs.len() == 1 && obs[0] == want {
                            stats.hit("nul_string_delivered_whole");
                        } else {
                            writeln!(mon, "MONITOR-FAIL {hdr} :: ffi_measurement_lossless :: string with embedded NUL `{want}` reached the consumer as `{}`", obs.join(" | ")).unwrap();
                        }
                    }
                }
                continue;
            } else if l.starts_with('@') {
                continue;
            } else {
                (l.as_str(), usize::MAX, true, true)
            };
            let cb = line.split_whitespace().next().unwrap_or("?").to_string();
            let res = std::panic::catch_unwind(std::panic::AssertUnwindSafe(|| run_line(line, drain, with_cb)));
            match res {
                Err(_) => {
                    if echo {
                        writeln!(out, "panic").unwrap();
                        writeln!(out, "ok").unwrap();
                    }
                    writeln!(mon, "MONITOR-FAIL {hdr} :: no_panic :: `{cb}` through the binding layer panicked").unwrap();
                }
                Ok(Err(())) => {
                    if echo {
                        writeln!(out, "bad-op").unwrap();
                    }
                    stats.hit("bad_ops");
                }
                Ok(Ok(observed)) => {
                    if echo {
                        for o in &observed {
                            writeln!(out, "{o}").unwrap();
                        }
                        writeln!(out, "ok").unwrap();
                    }
                    stats.hit(&format!("cb_{cb}"));
                    if !with_cb {
                        stats.hit("nullcb_calls");
                        continue;
                    }
                    let mut expected: Vec<String> = strip_payload(line).split(" ; ").map(|s| s.to_string()).collect();
                    if drain != usize::MAX {
                        stats.hit("partial_drain_calls");
                        // the consumer stopped after `drain` octets of every string: it must have seen the prefix
                        for e in expected.iter_mut().filter(|e| e.starts_with("i ")) {
                            let t: Vec<&str> = e.split_whitespace().collect();
                            if t.len() == 3 {
                                let b = unhex(t[2]);
                                *e = format!("i {} {}", t[1], hex(&b[..drain.min(b.len())]));
                            }
                        }
                    }
                    let n_items = expected.iter().filter(|e| e.starts_with("i ")).count();
                    stats.add("items_crossed", n_items as u64);
                    stats.hit(match n_items {
                        0 => "items_0",
                        1 => "items_1",
                        2..=9 => "items_2_9",
                        10..=99 => "items_10_99",
                        _ => "items_100_up",
                    });
                    for (m, d) in judge(&expected, &observed) {
                        writeln!(mon, "MONITOR-FAIL {hdr} :: {m} :: {d}").unwrap();
                    }
                }
            }
        }
    }
    stats.dump(mon);
}

// ---------------------------------------------------------------------------------------------
// generator
// ---------------------------------------------------------------------------------------------
const MEAS_CBS: &[&str] = &[
    "binary_input", "double_bit_binary_input", "binary_output_status", "counter", "frozen_counter", "analog_input",
    "frozen_analog_input", "analog_output_status", "binary_output_command_event", "analog_output_command_event",
    "unsigned_integer", "octet_string",
];

fn g_index(r: &mut Rng) -> u16 {
    match r.below(10) {
        0 => 0,
        1 => 1,
        2 => 255,
        3 => 256,
        4 => 65535,
        5 => 65534,
        6 => 32768,
        _ => r.next() as u16,
    }
}

fn g_time(r: &mut Rng) -> String {
    let v = match r.below(8) {
        0 => 0,
        1 => 1,
        2 => 0xFFFF_FFFF_FFFF,
        3 => 0xFFFF_FFFF_FFFE,
        4 => 0x8000_0000_0000,
        5 => 0xFFFF_FFFF,
        _ => r.next() & 0xFFFF_FFFF_FFFF,
    };
    match r.below(3) {
        0 => "none".to_string(),
        1 => format!("sync:{v}"),
        _ => format!("unsync:{v}"),
    }
}

fn g_flags(r: &mut Rng) -> u8 {
    if r.chance(1, 4) {
        *r.pick(&[0u8, 1, 2, 4, 8, 0x10, 0x20, 0x40, 0x80, 0xFF, 0x7F, 0xFE])
    } else {
        r.next() as u8
    }
}

fn g_f64(r: &mut Rng) -> f64 {
    match r.below(16) {
        0 => 0.0,
        1 => -0.0,
        2 => f64::NAN,
        3 => f64::INFINITY,
        4 => f64::NEG_INFINITY,
        5 => f64::MAX,
        6 => f64::MIN,
        7 => f64::MIN_POSITIVE,
        8 => f64::from_bits(1),
        9 => f64::from_bits(0xFFF8_0000_0000_0001),
        10 => 32767.5,
        11 => -2147483649.0,
        12 => r.below(10) as f64,
        _ => f64::from_bits(r.next()),
    }
}

fn g_u32(r: &mut Rng) -> u32 {
    match r.below(6) {
        0 => 0,
        1 => 1,
        2 => u32::MAX,
        3 => 0x8000_0000,
        4 => r.below(100) as u32,
        _ => r.next() as u32,
    }
}

fn g_f32(r: &mut Rng) -> f32 {
    let f = match r.below(10) {
        0 => 0.0,
        1 => -0.0,
        2 => f32::NAN,
        3 => f32::INFINITY,
        4 => f32::NEG_INFINITY,
        5 => f32::MAX,
        6 => f32::MIN_POSITIVE,
        7 => f32::from_bits(1),
        _ => f32::from_bits(r.next() as u32),
    };
    if f.is_nan() {
        f32::NAN
    } else {
        f
    }
}

fn g_status(r: &mut Rng, k: usize) -> String {
    // every status in turn, then random
    let n = STATUS.len() + 3;
    let j = if k < n { k } else { r.below(n as u64) as usize };
    if j < STATUS.len() {
        STATUS[j].2.to_string()
    } else {
        format!("Unknown({})", [20u8, 126, 255][j - STATUS.len()])
    }
}

fn g_acv(r: &mut Rng, k: usize) -> String {
    let f = match k % 4 {
        0 => ("I16", *r.pick(&[i16::MIN, -1, 0, 1, i16::MAX, 12345]) as f64),
        1 => ("I32", *r.pick(&[i32::MIN, -1, 0, 1, i32::MAX, 1_234_567_890, -32769]) as f64),
        2 => ("F32", g_f32(r) as f64),
        _ => ("F64", g_f64(r)),
    };
    let f = if r.chance(1, 3) && f.0 == "I16" { ("I16", (r.next() as i16) as f64) } else { f };
    format!("{} {:016x}", f.0, f.1.to_bits())
}

/// one item of a measurement op; `k` = position (used to sweep small finite domains)
fn g_item(r: &mut Rng, cb: &str, k: usize, idx: u16, sweep_flags: bool) -> String {
    let fl = if sweep_flags { k as u8 } else { g_flags(r) };
    let tm = g_time(r);
    match cb {
        "binary_input" | "binary_output_status" => format!("i {idx} {} {fl:02x} {tm}", r.below(2)),
        "double_bit_binary_input" => format!("i {idx} {} {fl:02x} {tm}", DBITS[if k < 4 { k } else { r.below(4) as usize }].2),
        "counter" | "frozen_counter" => format!("i {idx} {} {fl:02x} {tm}", g_u32(r)),
        "analog_input" | "frozen_analog_input" | "analog_output_status" => format!("i {idx} {:016x} {fl:02x} {tm}", g_f64(r).to_bits()),
        "binary_output_command_event" => format!("i {idx} {} {} {tm}", g_status(r, k), r.below(2)),
        "analog_output_command_event" => format!("i {idx} {} {} {tm}", g_status(r, k), g_acv(r, k)),
        "unsigned_integer" => format!("i {idx} {}", if k < 4 { [0u8, 1, 255, 128][k] } else { r.next() as u8 }),
        _ => {
            let len = match r.below(8) {
                0 => 0,
                1 => 1,
                2 => 255,
                3 => 254,
                _ => r.below(40) as usize,
            };
            format!("i {idx} {}", hex(&r.bytes(len)))
        }
    }
}

/// all native variations (payload-carrying ones on boundary payloads + `extra` random payloads), by Debug name
fn all_variations(r: &mut Rng, extra: usize) -> Vec<String> {
    let mut res = Vec::new();
    for g in 0..=255u8 {
        let mut payload_seen = 0usize;
        for v in 0..=255u8 {
            if let Some(x) = probe::variation_lookup(g, v) {
                let s = format!("{x:?}");
                if s.contains('(') {
                    payload_seen += 1;
                    let keep = matches!(v, 0 | 1 | 2 | 127 | 128 | 253 | 255) || payload_seen <= 2;
                    if !keep {
                        continue;
                    }
                }
                res.push(s);
            }
        }
        if payload_seen > 0 {
            for _ in 0..extra {
                if let Some(x) = probe::variation_lookup(g, r.next() as u8) {
                    let s = format!("{x:?}");
                    if s.contains('(') {
                        res.push(s);
                    }
                }
            }
        }
    }
    res
}

/// a plausible header info for a callback (any variation is legal for the conversion; these are the usual ones)
fn g_info(r: &mut Rng, cb: &str, vars: &[String]) -> String {
    let usual: &[&str] = match cb {
        "binary_input" => &["Group1Var1", "Group1Var2", "Group2Var1", "Group2Var2", "Group2Var3"],
        "double_bit_binary_input" => &["Group3Var1", "Group3Var2", "Group4Var1", "Group4Var2", "Group4Var3"],
        "binary_output_status" => &["Group10Var1", "Group10Var2", "Group11Var1", "Group11Var2"],
        "counter" => &["Group20Var1", "Group20Var2", "Group20Var5", "Group20Var6", "Group22Var1", "Group22Var2", "Group22Var5", "Group22Var6"],
        "frozen_counter" => &["Group21Var1", "Group21Var2", "Group21Var5", "Group21Var6", "Group21Var9", "Group21Var10", "Group23Var1", "Group23Var5"],
        "analog_input" => &["Group30Var1", "Group30Var2", "Group30Var3", "Group30Var4", "Group30Var5", "Group30Var6", "Group32Var1", "Group32Var7", "Group32Var8"],
        "frozen_analog_input" => &["Group31Var1", "Group31Var2", "Group31Var3", "Group31Var4", "Group31Var5", "Group31Var6", "Group31Var7", "Group31Var8", "Group33Var1", "Group33Var8"],
        "analog_output_status" => &["Group40Var1", "Group40Var2", "Group40Var3", "Group40Var4", "Group42Var1", "Group42Var8"],
        "binary_output_command_event" => &["Group13Var1", "Group13Var2"],
        "analog_output_command_event" => &["Group43Var1", "Group43Var2", "Group43Var3", "Group43Var4", "Group43Var5", "Group43Var6", "Group43Var7", "Group43Var8"],
        "unsigned_integer" => &["Group102Var1"],
        "octet_string" => &["Group110(1)", "Group110(255)", "Group111(4)", "Group110(0)", "Group111(255)"],
        "abs_time" => &["Group50Var1", "Group50Var3", "Group51Var1", "Group51Var2"],
        _ => &[],
    };
    let v = if !usual.is_empty() && r.chance(3, 4) {
        let c = *r.pick(usual);
        if var_nat(c).is_some() {
            c.to_string()
        } else {
            r.pick(vars).clone()
        }
    } else {
        r.pick(vars).clone()
    };
    format!("{v} {} {} {}", r.pick(QUALS).2, r.below(2), r.below(2))
}

fn g_meas_op(r: &mut Rng, cb: &str, n: usize, vars: &[String], sweep_flags: bool) -> String {
    let mut s = format!("{cb} {}", g_info(r, cb, vars));
    // index pattern: ascending run (ranges), boundary picks (prefixed), or a run crossing 255 / 256 / 65535
    let base: u32 = match r.below(5) {
        0 => 0,
        1 => 250,
        2 => 65535u32.saturating_sub(n as u32 / 2),
        3 => r.below(60000) as u32,
        _ => u32::MAX,
    };
    for k in 0..n {
        let idx = if base == u32::MAX { g_index(r) } else { ((base + k as u32) % 65536) as u16 };
        s.push_str(" ; ");
        s.push_str(&g_item(r, cb, k, idx, sweep_flags));
    }
    s.push_str(&format!(" ; end {n}"));
    s
}

fn g_frag_op(r: &mut Rng, k: usize) -> String {
    let cb = if k % 2 == 0 { "begin_fragment" } else { "end_fragment" };
    let rt = READ_TYPES[(k / 2) % 4].2;
    let func = FUNCS[(k / 8) % 2].2;
    let ctl = (k / 16) % 16;
    // IIN: one bit at a time first, then zero / all / random
    let (i1, i2): (u8, u8) = match k {
        0..=7 => (1 << k, 0),
        8..=15 => (0, 1 << (k - 8)),
        16 => (0, 0),
        17 => (0xFF, 0xFF),
        _ => (r.next() as u8, r.next() as u8),
    };
    let seq = if k < 32 { (k % 16) as u8 } else { r.below(16) as u8 };
    format!("{cb} {rt} {:04b} {seq} {func} {i1:02x} {i2:02x}", ctl)
}

fn g_attr_values(r: &mut Rng) -> Vec<AVal> {
    let strs: &[&[u8]] = &[b"", b"a", b"DNP3 outstation \xc3\xa9\xe2\x82\xac", b"0123456789012345678901234567890123456789"];
    let s = strs[r.below(strs.len() as u64) as usize].to_vec();
    let olen = *r.pick(&[0usize, 1, 2, 32, 255]);
    let blen = *r.pick(&[0usize, 1, 8, 255]);
    let nlist = *r.pick(&[0usize, 1, 2, 5, 127, 128, 255]);
    vec![
        AVal::Str(s),
        AVal::Uint(g_u32(r)),
        AVal::Int(*r.pick(&[0i32, 1, -1, i32::MIN, i32::MAX, 2, 77])),
        AVal::F32(g_f32(r)),
        AVal::F64(g_f64(r)),
        AVal::Octets(r.bytes(olen)),
        AVal::Bits(r.bytes(blen)),
        AVal::Time(*r.pick(&[0u64, 1, 0xFFFF_FFFF_FFFF, 1_700_000_000_000])),
        AVal::List((0..nlist).map(|_| (r.next() as u8, r.chance(1, 2))).collect()),
    ]
}

/// the op line of an attribute, or None when the native classification rejects (set, variation, value)
fn g_attr_op(r: &mut Rng, set: u8, variation: u8, v: &AVal, allow_nul: bool) -> Option<String> {
    if let AVal::Str(b) = v {
        if b.contains(&0) && !allow_nul {
            return None; // a NUL cannot be carried by a C string: out of the domain of the lossless statement (see `@nul`)
        }
    }
    let class = with_attr(set, variation, v, |a| a.map(|a| attr_class(&a)))?;
    let (cb, name) = class;
    let gv = probe::variation_lookup(0, variation)?;
    let info = format!("{gv:?} {} {} {}", r.pick(QUALS).2, r.below(2), r.below(2));
    let head = format!("{cb} {info} {name} {set} {variation}");
    Some(match v {
        AVal::Str(b) => format!("{head} {}", hex(b)),
        AVal::Uint(x) => format!("{head} {x}"),
        AVal::Int(x) => {
            if cb == "bool_attr" {
                format!("{head} {}", bit(*x == 1))
            } else {
                format!("{head} {x}")
            }
        }
        AVal::F32(x) => format!("{head} {:016x}(F32)", (*x as f64).to_bits()),
        AVal::F64(x) => format!("{head} {:016x}(F64)", x.to_bits()),
        AVal::Octets(b) | AVal::Bits(b) => format!("{head} {}", hex(b)),
        AVal::Time(t) => format!("{head} {t}"),
        AVal::List(l) => {
            let mut s = head;
            for (v, w) in l {
                s.push_str(&format!(" ; i {v} {}", bit(*w)));
            }
            s.push_str(&format!(" ; end {}", l.len()));
            s
        }
    })
}

pub fn gen(thorough: bool, seed: u64, w: &mut dyn Write) {
    let mut r = Rng::new(seed ^ 0x00FF_1EA5);
    let mut case = 0u64;
    let vars = all_variations(&mut r, if thorough { 12 } else { 3 });
    let mut emit = |kind: &str, ops: &[String]| {
        writeln!(w, "# case {case} kind={kind}").unwrap();
        for o in ops {
            writeln!(w, "{o}").unwrap();
        }
        case += 1;
    };

    // (1) fragments: read type x function x control bits x IIN octets
    let n_frag = if thorough { 4096 } else { 1024 };
    let ops: Vec<String> = (0..n_frag).map(|k| g_frag_op(&mut r, k)).collect();
    for c in ops.chunks(32) {
        emit("frag", c);
    }

    // (2) header info: EVERY native variation x all qualifiers x is_event x has_flags, through every callback in turn
    let mut ops = Vec::new();
    let mut k = 0usize;
    let reps = if thorough { 32 } else { 8 };
    for v in &vars {
        for rep in 0..reps {
            let cb = MEAS_CBS[k % MEAS_CBS.len()];
            let q = QUALS[(k / 3 + rep) % QUALS.len()].2;
            let (e, f) = if thorough { ((rep / 8) % 2, (rep / 16) % 2) } else { (rep % 2, (rep / 2) % 2) }; // quick: 8 reps = 2 qualifiers x e x f per variation, qualifiers rotate
            let n = k % 3 % 2; // 0 or 1 item
            let mut s = format!("{cb} {v} {q} {e} {f}");
            for j in 0..n {
                let idx = g_index(&mut r);
                s.push_str(" ; ");
                s.push_str(&g_item(&mut r, cb, j + 5, idx, false));
            }
            s.push_str(&format!(" ; end {n}"));
            ops.push(s);
            k += 1;
        }
    }
    for c in ops.chunks(48) {
        emit("info", c);
    }

    // (3) measurements: every callback, 0..N items, boundary values; one flags sweep (all 256 octets) per flag-bearing type
    let n_cases = if thorough { 60 } else { 20 };
    for cb in MEAS_CBS {
        if *cb == "octet_string" {
            continue;
        }
        let flag_bearing = !matches!(*cb, "binary_output_command_event" | "analog_output_command_event" | "unsigned_integer");
        if flag_bearing {
            emit(cb, &[g_meas_op(&mut r, cb, 256, &vars, true)]);
        } else {
            emit(cb, &[g_meas_op(&mut r, cb, 64, &vars, false)]);
        }
        for c in 0..n_cases {
            let mut ops = Vec::new();
            for o in 0..4 {
                let n = match (c + o) % 6 {
                    0 => 0,
                    1 => 1,
                    2 => 2,
                    3 => r.range(3, 30) as usize,
                    4 => r.range(30, if thorough { 600 } else { 120 }) as usize,
                    _ => r.range(3, 12) as usize,
                };
                ops.push(g_meas_op(&mut r, cb, n, &vars, false));
            }
            emit(cb, &ops);
        }
    }

    // (4) octet strings: 0..N strings per header, lengths 0..255 (every length in one header), uniform and mixed
    {
        let cb = "octet_string";
        let mut all = format!("{cb} Group110(0) Range16 0 0");
        for len in 0..=255usize {
            all.push_str(&format!(" ; i {} {}", len, hex(&r.bytes(len))));
        }
        all.push_str(" ; end 256");
        emit(cb, &[all.clone(), format!("@partial 0 ; {all}"), format!("@partial 1 ; {all}"), format!("@partial 7 ; {all}")]);
        // empty strings only; one string; the same string twice
        emit(cb, &[
            format!("{cb} Group111(0) CountAndPrefix16 1 0 ; i 0 - ; i 1 - ; i 65535 - ; end 3"),
            format!("{cb} Group110(3) Range8 0 0 ; i 7 010203 ; end 1"),
            format!("{cb} Group110(3) Range8 0 0 ; i 7 010203 ; i 8 010203 ; i 9 040506 ; end 3"),
            format!("{cb} Group110(5) Range8 0 0 ; end 0"),
            format!("{cb} Group110(2) Range8 0 0 ; i 0 aabb ; i 1 - ; i 2 ccdd ; i 3 - ; end 4"),
        ]);
        for c in 0..(if thorough { 200 } else { 40 }) {
            let mut ops = Vec::new();
            for o in 0..3 {
                let n = match (c + o) % 5 {
                    0 => 2,
                    1 => 3,
                    2 => r.range(4, 20) as usize,
                    3 => r.range(0, 2) as usize,
                    _ => r.range(20, if thorough { 300 } else { 60 }) as usize,
                };
                let uniform = r.chance(1, 2);
                let ulen = *r.pick(&[0usize, 1, 2, 8, 255, 100]);
                let base = g_index(&mut r);
                let mut s = format!("{cb} {}", g_info(&mut r, cb, &vars));
                for k in 0..n {
                    let len = if uniform {
                        ulen
                    } else {
                        match r.below(6) {
                            0 => 0,
                            1 => 255,
                            2 => 1,
                            _ => r.below(64) as usize,
                        }
                    };
                    s.push_str(&format!(" ; i {} {}", base.wrapping_add(k as u16), hex(&r.bytes(len))));
                }
                s.push_str(&format!(" ; end {n}"));
                if r.chance(1, 3) {
                    ops.push(format!("@partial {} ; {s}", r.below(4)));
                }
                ops.push(s);
            }
            emit(cb, &ops);
        }
    }

    // (5) absolute time (g50 / g51 through handle_abs_time)
    let mut ops = Vec::new();
    for v in [0u64, 1, 0xFFFF_FFFF_FFFF, 0xFFFF_FFFF_FFFE, 0x8000_0000_0000, 1_700_000_000_000] {
        ops.push(format!("abs_time {} sync:{v}", g_info(&mut r, "abs_time", &vars)));
    }
    for _ in 0..(if thorough { 400 } else { 26 }) {
        ops.push(format!("abs_time {} sync:{}", g_info(&mut r, "abs_time", &vars), r.next() & 0xFFFF_FFFF_FFFF));
    }
    for c in ops.chunks(32) {
        emit("abs_time", c);
    }

    // (6) device attributes: EVERY variation 0..=255 x default / private sets x nine value types
    let mut ops = Vec::new();
    let sets: &[u8] = if thorough { &[0, 1, 7, 255] } else { &[0, 7] };
    for set in sets {
        for variation in 0..=255u8 {
            for v in g_attr_values(&mut r) {
                if let Some(o) = g_attr_op(&mut r, *set, variation, &v, false) {
                    ops.push(o);
                }
            }
        }
    }
    for c in ops.chunks(64) {
        emit("attr", c);
    }

    // (7) an interface struct without callbacks: every kind of call once
    let mut ops = vec![format!("@nullcb ; {}", g_frag_op(&mut r, 0)), format!("@nullcb ; {}", g_frag_op(&mut r, 1))];
    for cb in MEAS_CBS {
        ops.push(format!("@nullcb ; {}", g_meas_op(&mut r, cb, 3, &vars, false)));
    }
    ops.push(format!("@nullcb ; abs_time {} sync:5", g_info(&mut r, "abs_time", &vars)));
    for v in g_attr_values(&mut r) {
        if let Some(o) = g_attr_op(&mut r, 9, 200, &v, false) {
            ops.push(format!("@nullcb ; {o}"));
        }
    }
    emit("nullcb", &ops);

    // (8) visible strings with an embedded NUL (not representable as a C string): never a truncated value
    let mut ops = Vec::new();
    for (set, variation) in [(0u8, 252u8), (0, 196), (7, 9), (0, 3)] {
        for b in [&b"\0"[..], b"ab\0cd", b"\0tail", b"head\0"] {
            if let Some(o) = g_attr_op(&mut r, set, variation, &AVal::Str(b.to_vec()), true) {
                ops.push(format!("@nul ; {o}"));
            }
        }
    }
    emit("nul", &ops);
}
