// included from mon_master.rs

fn parse_acfg(ws: &[&str]) -> ACfgM {
    ACfgM {
        rto: kv_u64(ws, "rto", 5000),
        dis: kv_u64(ws, "dis", 7),
        int: kv_u64(ws, "int", 15),
        en: kv_u64(ws, "en", 7),
        ts: matches!(kv(ws, "ts"), Some("lan") | Some("nonlan") | Some("direct")),
        ovf: kv_u64(ws, "ovf", 1) == 1,
        evscan: kv_u64(ws, "evscan", 0),
        ka: kv(ws, "ka").and_then(|v| v.parse().ok()),
        rmin: kv_u64(ws, "rmin", 1000),
        rmax: kv_u64(ws, "rmax", 10000),
    }
}

fn user_tt(kind: &str) -> &'static str {
    match kind {
        "read" | "readh" => "user_read",
        "do" | "sbo" => "command",
        "time" => "time_sync",
        "cold" | "warm" => "restart",
        "deadband" => "write_dead_bands",
        _ => "link",
    }
}

/// errors with which a request is answered without ever having been started
fn never_started(res: &str) -> bool {
    matches!(res, "err no_connection" | "err no_association" | "err too_many_requests" | "err no_system_time" | "err shutdown" | "err link" | "err disabled")
}

/// every status octet of a list of control objects is SUCCESS
fn all_success(objs: &[u8]) -> bool {
    match decode_objects(objs) {
        Some(hs) => hs.iter().all(|h| h.items.iter().all(|(_, o)| *o.last().unwrap_or(&1) == 0)),
        None => false,
    }
}

pub fn check(hdr: &str, lines: &[String], trace: &[(String, String, Vec<String>)], mon: &mut dyn Write, stats: &mut Stats) {
    // annotations attach to the NEXT op
    let mut ann: Vec<Vec<String>> = Vec::new();
    {
        let mut cur: Vec<String> = Vec::new();
        for l in lines {
            if l.starts_with('@') {
                cur.push(l.clone());
            } else if !l.trim().is_empty() {
                ann.push(std::mem::take(&mut cur));
            }
        }
    }
    let mut now: u64 = 0;
    let mut assocs: HashMap<u16, AssocM> = HashMap::new();
    let mut active: Option<Active> = None;
    // link status task in flight: (addr, uid, start time, messages processed since)
    let mut link_active: Option<(u16, Option<u64>, u64, bool, u64)> = None; // + time the deadline was last armed
    let mut enabled = true;
    let mut want_up = true;
    let mut exited = false;
    let mut dropped = false;
    let mut session_up = false;
    let mut submitted: HashMap<u64, (String, u16, u64)> = HashMap::new();
    let mut completed: HashMap<u64, usize> = HashMap::new();
    let mut ring: Vec<u16> = Vec::new();
    let mut last_cmd_objs: Vec<u8> = Vec::new();
    let mut dead = false;

    for (k, (op, resolved, outs)) in trace.iter().enumerate() {
        let ws: Vec<&str> = op.split_whitespace().collect();
        if ws.is_empty() || dead {
            continue;
        }
        let a = ann.get(k).cloned().unwrap_or_default();
        if outs.iter().any(|o| o == "panic") {
            dead = true;
            fail(mon, hdr, "no_panic", "", &format!("op {k}: {op}"));
            continue;
        }
        if outs.iter().any(|o| o == "stall" || o == "model-fuel-exhausted") {
            fail(mon, hdr, "no_spin", "", &format!("op {k}: {op}: the task never became idle"));
        }
        if outs.iter().any(|o| o.starts_with("txbad")) {
            fail(mon, hdr, "tx_wellformed", "", &format!("op {k}: {}", outs.join(" | ")));
        }
        if ws[0] == "user" && ws.len() >= 5 && matches!(ws[3], "do" | "sbo") {
            last_cmd_objs = unhex(ws[4]);
        }
        if outs.iter().any(|o| o == "bad-op") {
            continue;
        }
        let kind = ws[0];
        let rws: Vec<&str> = resolved.split_whitespace().collect();
        let frag: Option<Frag> = if rws.len() == 4 && rws[0] == "rx" {
            Some(Frag { src: rws[1].parse().unwrap_or(0), dst: rws[2].parse().unwrap_or(0), bytes: unhex(rws[3]) })
        } else {
            None
        };

        // ---------------------------------------------------------------- outputs of this op
        let g0: Vec<&String> = outs.iter().filter(|o| o.starts_with("info ") || o.starts_with("deliver ") || o.starts_with("session ") || *o == "task-exit").collect();
        let completes: Vec<(u64, String)> = outs
            .iter()
            .filter_map(|o| o.strip_prefix("complete "))
            .filter_map(|r| r.split_once(' ').map(|(i, res)| (i.parse::<u64>().unwrap_or(u64::MAX), res.to_string())))
            .collect();
        let txs: Vec<(u16, Vec<u8>)> = outs
            .iter()
            .filter_map(|o| {
                let w: Vec<&str> = o.split_whitespace().collect();
                if w.len() == 3 && w[0] == "tx" { Some((w[1].parse().unwrap(), unhex(w[2]))) } else { None }
            })
            .collect();
        let txlinks: Vec<(u8, u16)> = outs
            .iter()
            .filter_map(|o| {
                let w: Vec<&str> = o.split_whitespace().collect();
                if w.len() == 4 && w[0] == "txlink" { Some((w[1].parse().unwrap(), w[2].parse().unwrap())) } else { None }
            })
            .collect();
        let session_ended = g0.iter().any(|o| o.starts_with("session "));
        let confirms: Vec<&(u16, Vec<u8>)> = txs.iter().filter(|t| t.1.len() >= 2 && t.1[1] == 0).collect();
        let requests: Vec<&(u16, Vec<u8>)> = txs.iter().filter(|t| t.1.len() >= 2 && t.1[1] != 0).collect();
        let deliveries: Vec<&String> = outs.iter().filter(|o| o.starts_with("deliver ")).collect();
        let completed_now = |id: u64| completes.iter().find(|c| c.0 == id).map(|c| c.1.clone());

        // ---------------------------------------------------------------- C16: exactly one outcome
        for (id, res) in &completes {
            if !submitted.contains_key(id) && !(kind == "user" && ws[1].parse::<u64>().ok() == Some(*id)) {
                fail(mon, hdr, "exactly_one_outcome", "", &format!("op {k}: completion of unknown request {id}"));
            }
            let c = completed.entry(*id).or_insert(0);
            *c += 1;
            if *c > 1 {
                fail(mon, hdr, "exactly_one_outcome", "", &format!("op {k}: request {id} completed {} times ({res})", *c));
            }
        }

        // ---------------------------------------------------------------- effects of the op itself
        let mut msg_op = false;
        match kind {
            "cfg" => session_up = true,
            "tick" => now += ws[1].parse::<u64>().unwrap_or(0),
            "assoc" => {
                msg_op = true;
                if outs.iter().any(|o| o == "assoc ok") {
                    let addr: u16 = ws[1].parse().unwrap();
                    let mut am = AssocM::new(parse_acfg(&ws[2..]), now);
                    am.tainted = active.as_ref().map(|x| x.addr == addr).unwrap_or(false) || link_active.map(|l| l.0 == addr).unwrap_or(false);
                    assocs.insert(addr, am);
                    ring.push(addr);
                }
            }
            "rmassoc" => {
                msg_op = true;
                let addr: u16 = ws[1].parse().unwrap();
                assocs.remove(&addr);
                ring.retain(|x| *x != addr);
                if let Some(act) = active.as_mut() {
                    if act.addr == addr { act.orphan = true; }
                }
            }
            "user" => {
                msg_op = true;
                let id: u64 = ws[1].parse().unwrap();
                let addr: u16 = ws[2].parse().unwrap();
                if submitted.contains_key(&id) {
                    // ids are unique by construction of the generator
                } else {
                    submitted.insert(id, (ws[3].to_string(), addr, now));
                    let objs = if matches!(ws[3], "do" | "sbo" | "deadband") { unhex(ws[4]) } else if matches!(ws[3], "read" | "readh") { class_headers(ws[4].parse().unwrap_or(0)) } else { Vec::new() };
                    if let Some(am) = assocs.get_mut(&addr) {
                        am.queue.push_back(UserReq { id, kind: ws[3].to_string(), objs });
                    }
                }
            }
            "poll" => {
                msg_op = true;
                let addr: u16 = ws[1].parse().unwrap();
                if outs.iter().any(|o| o.starts_with("poll ") && !o.starts_with("poll err")) {
                    if let Some(am) = assocs.get_mut(&addr) {
                        let period: u64 = ws[2].parse().unwrap();
                        am.polls.push(PollM { classes: ws[3].parse().unwrap(), period, due: now.saturating_add(period), demanded: false, removed: false, running: false });
                    }
                }
            }
            "demand" | "rmpoll" => {
                msg_op = true;
                let addr: u16 = ws[1].parse().unwrap();
                let idx: usize = ws[2].parse().unwrap();
                if let Some(p) = assocs.get_mut(&addr).and_then(|am| am.polls.get_mut(idx)) {
                    if kind == "demand" { p.due = now; p.demanded = true } else { p.removed = true }
                }
            }
            "enable" => { msg_op = true; enabled = true }
            "disable" => { msg_op = true; enabled = false }
            "down" => want_up = false,
            "up" => want_up = true,
            "shutdown" => dropped = true,
            _ => {}
        }
        if msg_op {
            if let Some(l) = link_active.as_mut() { l.3 = true; l.4 = now; }
        }

        let pre_link = link_active;
        let frag_for_link = frag.clone();
        // the end of link status tasks
        if let Some((la, uid, t0, msgs, armed)) = link_active {
            {
                match uid {
                    Some(u) => {
                        if completed_now(u).is_some() {
                            link_active = None;
                        } else if let Some(am) = assocs.get(&la) {
                            if now - t0 >= am.cfg.rto && session_up {
                                fail(mon, hdr, "bounded_duration", if msgs { "D24" } else { "" }, &format!("op {k}: link check {u} on {la} still outstanding {} ms after it was sent (response timeout {})", now - t0, am.cfg.rto));
                            }
                        }
                    }
                    None => {
                        // keep-alive: ends with any frame reaching the master, its response timeout (counted from the request,
                        // never re-armed), or the loss of its association
                        let by_frame = frag_for_link.as_ref().map(|f| f.link_ok() && session_up).unwrap_or(false)
                            || (kind == "rxlink" && ws[2] == "1" && matches!(ws[3], "11" | "73") && ws[1].parse::<u16>().map(|s| s < 0xFFF0).unwrap_or(false));
                        let _ = armed;
                        let by_time = assocs.get(&la).map(|am| now - t0 >= am.cfg.rto).unwrap_or(true);
                        if by_frame || by_time {
                            link_active = None;
                        }
                    }
                }
            }
        }

        // ---------------------------------------------------------------- what the fragment is, for the task that was waiting
        let pre_active_some = active.is_some();
        // facts established while walking the callbacks
        let mut ended_pre: Option<bool> = None; // Some(success?) when the task that was waiting ended in this op
        let mut fragment_accepted = false;
        let mut expect_confirm: Option<(u16, u8)> = None; // (dst, control octet) of the one confirm this op must contain
        let mut confirm_cause = "";
        let mut expect_deliveries: Option<Vec<String>> = Some(Vec::new());
        let mut forbid_success = false;
        let mut activity_addr: Option<u16> = None;
        let mut skip_c15 = false;
        // where the D25 defect would credit the link activity of this op (the destination of the outstanding non-READ request)
        let mut d25_addr: Option<u16> = None;
        // an unsolicited fragment with unparsable objects was confirmed (reported with its own cause)
        let mut unparsable_confirmed = false;

        if let Some(f) = &frag {
            let reaches = f.link_ok() && session_up;
            if !reaches {
                if !outs.iter().all(|o| o.starts_with("resolved ")) {
                    fail(mon, hdr, "foreign_ignored", "", &format!("op {k}: a frame not addressed to the master caused {}", outs.join(" | ")));
                }
            } else if !f.is_response() {
                // malformed header / not a response: never accepted
                forbid_success = true;
            } else if f.is_unsolicited() {
                forbid_success = true;
                let src = f.src;
                match assocs.get_mut(&src) {
                    None => {}
                    Some(am) if am.tainted => skip_c15 = true,
                    Some(am) => {
                        am.observe_iin(f.iin1(), f.iin2());
                        let acceptable = am.integrity_complete() || f.objs().is_empty();
                        if !acceptable {
                            stats.hit("part_unsol_gated");
                            if outs.iter().any(|o| o.starts_with(&format!("info {src} unsol")) || o.contains(" begin unsol ")) || confirms.iter().any(|c| c.1[0] & 0x10 != 0) {
                                fail(mon, hdr, "unsolicited_gated", "", &format!("op {k}: unsolicited data before the integrity poll completed: {}", outs.join(" | ")));
                            }
                        } else if !f.objs().is_empty() && decode_objects(f.objs()).is_none() {
                            // objects that do not parse: nothing can reach the handler, so the fragment is not accepted:
                            // no delivery (expect_deliveries stays empty), no duplicate bookkeeping, and above all no confirm
                            stats.hit("part_unsol_unparsable");
                            if confirms.iter().any(|c| c.0 == src && c.1[0] & 0x10 != 0) {
                                unparsable_confirmed = true;
                                fail(mon, hdr, "confirmed_contents_delivered", "D23", &format!("op {k}: unsolicited fragment with unparsable objects is confirmed but not delivered: {}", hex(&f.bytes)));
                            }
                            if outs.iter().any(|o| o.starts_with(&format!("info {src} unsol"))) && !unparsable_confirmed {
                                fail(mon, hdr, "duplicate_unsolicited", "", &format!("op {k}: ignored unsolicited fragment reported to the application: {}", outs.join(" | ")));
                            }
                        } else {
                            let dup = am.last_unsol.as_ref() == Some(&f.bytes);
                            stats.hit(if dup { "part_unsol_duplicate" } else if f.objs().is_empty() { "part_unsol_null" } else { "part_unsol_data" });
                            am.last_unsol = Some(f.bytes.clone());
                            let want = format!("info {src} unsol {} {}", dup as u8, f.seq());
                            if outs.iter().filter(|o| o.starts_with(&format!("info {src} unsol"))).count() != 1 || !outs.contains(&want) {
                                fail(mon, hdr, "duplicate_unsolicited", "", &format!("op {k}: expected `{want}`: {}", outs.join(" | ")));
                            }
                            let who = format!("{src}");
                            if dup {
                                // confirmed but not delivered again
                            } else if let Some(hs) = decode_objects(f.objs()) {
                                let mut e = vec![format!("deliver {who} begin unsol {} {} {}", f.ctrl(), f.iin1(), f.iin2())];
                                e.extend(expected_deliveries(&who, &hs));
                                e.push(format!("deliver {who} end unsol"));
                                expect_deliveries = Some(e);
                            }
                            if f.con() {
                                expect_confirm = Some((src, 0xD0 | f.seq()));
                            }
                        }
                        activity_addr = Some(src);
                        if let Some(act) = &active {
                            if !act.is_read { d25_addr = Some(act.addr); }
                        }
                    }
                }
            } else {
                // a solicited response
                match active.as_mut() {
                    None => forbid_success = true,
                    Some(act) if act.orphan => {
                        // the association was removed while its task was running: outside the monitored behaviour
                        let _ = act;
                        skip_c15 = true;
                    }
                    Some(act) => {
                        if act.is_read {
                            activity_addr = Some(f.src);
                            let matches = f.src == act.addr && f.seq() == act.expected_seq;
                            let hs = decode_objects(f.objs());
                            let valid = matches && f.fir() == act.first && (f.fin() || f.con()) && f.iin2() & 0x07 == 0 && hs.is_some();
                            if !valid {
                                forbid_success = true;
                            } else {
                                fragment_accepted = true;
                                stats.hit(if f.fin() { if act.first { "part_read_single_fragment" } else { "part_read_series_completed" } } else { "part_read_nonfinal_accepted" });
                                let rt = match act.tt.as_str() {
                                    "startup_integrity" => "integrity",
                                    "user_read" => "single",
                                    _ => "poll",
                                };
                                let mut e = vec![format!("deliver {} begin {rt} {} {} {}", act.who, f.ctrl(), f.iin1(), f.iin2())];
                                e.extend(expected_deliveries(&act.who, hs.as_ref().unwrap()));
                                e.push(format!("deliver {} end {rt}", act.who));
                                expect_deliveries = Some(e);
                                if f.con() {
                                    expect_confirm = Some((act.addr, 0xC0 | f.seq()));
                                }
                                if let Some(am) = assocs.get_mut(&act.addr) {
                                    am.observe_iin(f.iin1(), f.iin2());
                                    am.note_seq(f.seq());
                                }
                                if f.fin() {
                                    ended_pre = Some(true);
                                } else {
                                    act.expected_seq = (act.expected_seq + 1) & 0x0F;
                                    act.first = false;
                                    act.step_time = now;
                                }
                            }
                        } else {
                            activity_addr = Some(f.src);
                            d25_addr = Some(act.addr);
                            let matches = f.src == act.addr && Some(f.seq()) == act.req_seq;
                            if !matches {
                                forbid_success = true;
                                // the wait continues: the task must not end because of this fragment
                                if g0.iter().any(|o| o.starts_with(&format!("info {} fail", act.addr)) || o.starts_with(&format!("info {} success", act.addr))) {
                                    fail(mon, hdr, "stale_or_foreign_ignored", "", &format!("op {k}: {} ended the outstanding {}", hex(&f.bytes), act.tt));
                                }
                            } else if !(f.fir() && f.fin()) || f.iin2() & 0x07 != 0 {
                                forbid_success = true;
                            } else {
                                fragment_accepted = true;
                                stats.hit("part_nonread_accepted");
                                if f.con() {
                                    expect_confirm = Some((act.addr, 0xC0 | f.seq()));
                                    confirm_cause = "D8";
                                }
                                if let Some(am) = assocs.get_mut(&act.addr) {
                                    am.observe_iin(f.iin1(), f.iin2());
                                }
                                // commands: success exactly for the faithful echo with SUCCESS statuses
                                if act.tt == "command" {
                                    let faithful = f.objs() == act.req_objs.as_slice() && all_success(f.objs());
                                    let operate: Vec<&&(u16, Vec<u8>)> = requests.iter().filter(|t| t.0 == act.addr && t.1[1] == 4).collect();
                                    if act.req_func == 3 {
                                        if faithful {
                                            stats.hit("part_sbo_select_faithful");
                                            let ok = operate.len() == 1 && requests.len() == 1
                                                && operate[0].1[0] & 0x0F == (f.seq() + 1) & 0x0F
                                                && operate[0].1[2..] == act.req_objs[..];
                                            if !ok {
                                                fail(mon, hdr, "sbo_operate_follows_select", "", &format!("op {k}: faithful SELECT echo not followed by the matching OPERATE: {}", outs.join(" | ")));
                                            }
                                            act.select_ok = true;
                                        } else {
                                            if !operate.is_empty() {
                                                fail(mon, hdr, "sbo_operate_follows_select", "", &format!("op {k}: OPERATE sent after an unfaithful SELECT echo"));
                                            }
                                            forbid_success = true;
                                        }
                                    } else if !faithful {
                                        forbid_success = true;
                                    } else if let Some(uid) = act.uid {
                                        // faithful echo of DIRECT_OPERATE / OPERATE: the request must succeed
                                        if completed_now(uid).as_deref() != Some("ok") {
                                            fail(mon, hdr, "command_ok_iff_echo", "", &format!("op {k}: faithful echo did not complete request {uid} successfully: {}", outs.join(" | ")));
                                        }
                                    }
                                }
                            }
                        }
                    }
                }
            }
        }

        // ---------------------------------------------------------------- walk the master task's callbacks in order
        let mut started_here: Vec<String> = Vec::new();
        for o in &g0 {
            let w: Vec<&str> = o.split_whitespace().collect();
            if w[0] == "session" {
                for am in assocs.values_mut() {
                    am.session_reset();
                }
                if let Some(act) = &active {
                    if !act.orphan && assocs.contains_key(&act.addr) {
                        fail(mon, hdr, "one_outstanding", "", &format!("op {k}: session ended without an outcome for {} on {}", act.tt, act.addr));
                    }
                }
                active = None;
                link_active = None;
                session_up = false;
                continue;
            }
            if w[0] != "info" || w.len() < 4 {
                continue;
            }
            let addr: u16 = w[1].parse().unwrap();
            match w[2] {
                "start" => {
                    let tt = w[3];
                    let fc: u8 = w[4].parse().unwrap();
                    let seq: u8 = w[5].parse().unwrap();
                    // ---- C19 one at a time
                    if let Some(act) = &active {
                        if !act.orphan {
                            fail(mon, hdr, "one_outstanding", "", &format!("op {k}: {tt} on {addr} started while {} on {} is outstanding", act.tt, act.addr));
                        }
                    }
                    if let Some((la, Some(uid), _, _, _)) = link_active {
                        if completed_now(uid).is_none() && session_up {
                            fail(mon, hdr, "one_outstanding", "", &format!("op {k}: {tt} started while the link status check {uid} on {la} is outstanding"));
                        }
                    }
                    link_active = None;
                    started_here.push(format!("{addr} {tt}"));
                    let req = requests.iter().find(|t| t.0 == addr && t.1[1] == fc && t.1[0] & 0x0F == seq).map(|t| t.1.clone());
                    let req_objs: Vec<u8> = req.as_ref().map(|r| r[2..].to_vec()).unwrap_or_default();
                    let mut act = Active {
                        addr, tt: tt.to_string(), is_read: fc == 1, req_seq: req.as_ref().map(|_| seq), req_func: fc, req_objs: req_objs.clone(),
                        expected_seq: seq, first: true, nreq: req.is_some() as usize, start_time: now, step_time: now, uid: None,
                        who: format!("{addr}"), select_ok: false, poll: None, orphan: false,
                    };
                    let am = match assocs.get_mut(&addr) {
                        Some(x) => x,
                        None => {
                            fail(mon, hdr, "one_outstanding", "", &format!("op {k}: task for unknown association {addr}"));
                            active = Some(act);
                            continue;
                        }
                    };
                    // ---- user request or automatic?
                    let head = am.queue.iter().position(|q| !completed_now(q.id).map(|r| never_started(&r)).unwrap_or(false));
                    let head_is_user = head.map(|i| user_tt(&am.queue[i].kind) == tt).unwrap_or(false);
                    let user_type = matches!(tt, "user_read" | "command" | "restart" | "write_dead_bands") || (tt == "time_sync" && head_is_user);
                    if user_type {
                        // ---- C19 FIFO: the oldest request of this association
                        match head {
                            Some(i) if user_tt(&am.queue[i].kind) == tt && (req.is_none() || am.queue[i].objs == req_objs || tt == "time_sync" || tt == "restart") => {
                                let q = am.queue.remove(i).unwrap();
                                act.uid = Some(q.id);
                                if q.kind == "readh" {
                                    act.who = format!("h{}", q.id);
                                }
                            }
                            _ => fail(mon, hdr, "user_fifo_first", "", &format!("op {k}: {tt} on {addr} is not the oldest queued request of that association")),
                        }
                        stats.hit(&format!("part_user_start_{tt}"));
                        if assocs.values().filter(|x| !x.queue.is_empty()).count() >= 2 { stats.hit("part_user_start_with_two_queues"); }
                        // ---- C19 associations take turns: nobody ahead in the ring has a request waiting
                        for b in ring.iter().take_while(|b| **b != addr) {
                            if let Some(bm) = assocs.get(b) {
                                if let Some(q) = bm.queue.iter().find(|q| completed_now(q.id).is_none()) {
                                    fail(mon, hdr, "round_robin", "", &format!("op {k}: association {addr} served while {b}, ahead of it in turn, has request {} queued", q.id));
                                }
                            }
                        }
                    } else {
                        // ---- C19 user requests first
                        for (b, bm) in assocs.iter() {
                            if let Some(q) = bm.queue.iter().find(|q| completed_now(q.id).is_none() && q.kind != "link") {
                                fail(mon, hdr, "user_requests_first", "", &format!("op {k}: {tt} on {addr} started while request {} is queued on {b}", q.id));
                            }
                        }
                        let am = assocs.get_mut(&addr).unwrap();
                        // ---- C17 order of the automatic tasks
                        if let Some(r) = rank_of(tt).filter(|_| !am.tainted) {
                            if let Some(lower) = am.pending.iter().find(|p| **p < r) {
                                fail(mon, hdr, "startup_order", "", &format!("op {k}: {tt} on {addr} started while automatic task of rank {lower} is still due"));
                            }
                            let configured = match tt {
                                "disable_unsol" => am.cfg.dis != 0,
                                "startup_integrity" => am.cfg.int != 0,
                                "enable_unsol" => am.cfg.en != 0,
                                "time_sync" => am.cfg.ts,
                                "auto_event_scan" => am.cfg.evscan != 0,
                                _ => true,
                            };
                            if !configured {
                                fail(mon, hdr, "startup_order", "", &format!("op {k}: {tt} on {addr} is not configured"));
                            }
                        }
                        // ---- C17 back-off
                        if let Some((n, t, d)) = am.backoff.get(tt) {
                            stats.hit(&format!("part_retry_after_failure_{}", (*n).min(6)));
                            if now < t + d && !am.tainted && !(tt == "time_sync" && am.cfg.rmin > am.cfg.rmax) {
                                fail(mon, hdr, "backoff_law", "", &format!("op {k}: {tt} on {addr} retried at {now}, failure {n} was at {t}, delay {d}"));
                            }
                        }
                        // ---- C19 poll period
                        if tt == "periodic_poll" {
                            let cand = am.polls.iter().position(|p| !p.removed && class_headers(p.classes) == req_objs && p.due <= now);
                            match cand {
                                Some(i) => {
                                    stats.hit(if am.polls[i].demanded { "part_poll_demanded" } else { "part_poll_periodic" });
                                    am.polls[i].running = true;
                                    act.poll = Some(i);
                                }
                                None => fail(mon, hdr, "poll_period", "", &format!("op {k}: poll on {addr} ran at {now} before its period elapsed")),
                            }
                        }
                    }
                    ring.retain(|x| *x != addr);
                    ring.push(addr);
                    active = Some(act);
                }
                "success" | "fail" => {
                    let tt = w[3];
                    let ok = w[2] == "success";
                    let was_pre = pre_active_some && !started_here.contains(&format!("{addr} {tt}"));
                    match &active {
                        Some(act) if act.addr == addr && act.tt == tt && act.orphan => {
                            // the association was removed (and possibly re-created) while the task ran
                            let _ = act;
                            active = None;
                        }
                        Some(act) if act.addr == addr && act.tt == tt => {
                            // ---- C15: success only by an accepted response
                            if ok && (!was_pre || !fragment_accepted || forbid_success) {
                                fail(mon, hdr, "success_needs_response", "", &format!("op {k}: {tt} on {addr} succeeded without an acceptable response ({op})"));
                            }
                            if ok && act.is_read && ended_pre != Some(true) {
                                fail(mon, hdr, "success_needs_response", "", &format!("op {k}: read on {addr} completed without a final fragment"));
                            }
                            // ---- C16 duration
                            if now - act.step_time > assocs.get(&addr).map(|a| a.cfg.rto).unwrap_or(u64::MAX) && kind != "tick" {
                                fail(mon, hdr, "bounded_duration", "", &format!("op {k}: {tt} on {addr} ended {} ms after its last request", now - act.step_time));
                            }
                            if let Some(uid) = act.uid {
                                let res = completed_now(uid);
                                match (&res, ok) {
                                    (Some(r), true) if !r.starts_with("ok") => fail(mon, hdr, "exactly_one_outcome", "", &format!("op {k}: task succeeded but request {uid} got `{r}`")),
                                    (Some(r), false) if r.starts_with("ok") => fail(mon, hdr, "command_ok_iff_echo", "", &format!("op {k}: task failed but request {uid} got `{r}`")),
                                    (None, _) => fail(mon, hdr, "exactly_one_outcome", "", &format!("op {k}: {tt} ended without completing request {uid}")),
                                    _ => {}
                                }
                                // the error corresponds to the cause
                                if let Some(r) = &res {
                                    let want: Option<&str> = match kind {
                                        "tick" => Some("err timeout"),
                                        "cut" | "down" => Some("err link"),
                                        "disable" => Some("err disabled"),
                                        _ => None,
                                    };
                                    if let Some(wnt) = want {
                                        if was_pre && r != wnt && !(kind == "tick" && dropped) {
                                            fail(mon, hdr, "error_matches_cause", "", &format!("op {k}: `{op}` ended request {uid} with `{r}`"));
                                        }
                                    }
                                    if act.tt == "command" && fragment_accepted {
                                        if let Some(m) = a.iter().find_map(|x| x.strip_prefix("@mut ")) {
                                            let allowed: &[&str] = match m {
                                                "status" => &["bad_status"],
                                                "value" | "index" => &["object_value"],
                                                "count-" | "count+" => &["object_count", "bad_status", "object_value"],
                                                "order" => &["object_value", "bad_status"],
                                                "width" | "variation" => &["header_type"],
                                                "hdr-order" => &["header_type", "object_value", "object_count", "bad_status"],
                                                "hdr-" | "hdr+" => &["header_count", "header_type", "object_value", "object_count", "bad_status"],
                                                "truncated" => &["malformed"],
                                                _ => &[],
                                            };
                                            let is_target = act.req_objs == last_cmd_objs && frag.as_ref().map(|f| f.objs() != act.req_objs.as_slice()).unwrap_or(false);
                                            // a request object that itself carries a status other than SUCCESS is echoed with
                                            // it: the first such object ends the comparison with bad_status, before or after the
                                            // mutated place
                                            let own_status = !all_success(&act.req_objs) && r.starts_with("err bad_status");
                                            if is_target && !own_status && !allowed.iter().any(|x| r.starts_with(&format!("err {x}"))) && r != "ok" {
                                                fail(mon, hdr, "error_matches_cause", "", &format!("op {k}: echo mutated in `{m}` ended request {uid} with `{r}`"));
                                            }
                                        }
                                    }
                                }
                            }
                            // ---- bookkeeping of the automatic tasks
                            if let Some(am) = assocs.get_mut(&addr) {
                                let resp_iin1 = frag.as_ref().filter(|f| f.is_solicited()).map(|f| f.iin1()).unwrap_or(0);
                                let iin2_reject = !ok && w.get(4).map(|e| e.starts_with("iin2:")).unwrap_or(false);
                                let mut done = ok;
                                if (tt == "enable_unsol" || tt == "disable_unsol") && iin2_reject { done = true; }
                                if tt == "clear_restart" && (ok || iin2_reject) { done = resp_iin1 & 0x80 == 0; }
                                if let Some(r) = rank_of(tt) {
                                    if act.uid.is_none() && r < R_POLL {
                                        if done {
                                            am.pending.remove(&r);
                                            am.backoff.remove(tt);
                                            if tt == "startup_integrity" { am.integrity_done = true; }
                                        } else {
                                            let d = match am.backoff.get(tt) {
                                                Some((_, _, prev)) => (2 * prev).min(am.cfg.rmax),
                                                None => am.cfg.rmin,
                                            };
                                            let n = am.backoff.get(tt).map(|x| x.0).unwrap_or(0) + 1;
                                            am.backoff.insert(tt.to_string(), (n, now, d));
                                        }
                                    }
                                }
                                if let Some(p) = act.poll.and_then(|i| am.polls.get_mut(i)) {
                                    p.due = now.saturating_add(p.period);
                                    p.demanded = false;
                                    p.running = false;
                                }
                            }
                            if was_pre && ended_pre.is_none() { ended_pre = Some(ok); }
                            active = None;
                        }
                        _ => fail(mon, hdr, "one_outstanding", "", &format!("op {k}: `{o}` does not belong to the outstanding task")),
                    }
                }
                _ => {}
            }
        }

        // ---------------------------------------------------------------- requests on the wire belong to the outstanding task
        for t in &requests {
            // ---- C15: a new request never re-uses a sequence number used by one of the last requests or by an
            // accepted fragment of a read series (a late fragment of an abandoned series would otherwise answer it)
            if let Some(am) = assocs.get_mut(&t.0) {
                let s = t.1[0] & 0x0F;
                if am.used_seqs.contains(&s) && !am.tainted {
                    fail(mon, hdr, "request_seq_fresh", "", &format!("op {k}: request {} to {} re-uses sequence {s} (recently used: {:?}): a stale fragment would match it", hex(&t.1), t.0, am.used_seqs));
                }
                am.note_seq(s);
            }
            match &mut active {
                Some(act) if act.addr == t.0 => {
                    let s = t.1[0] & 0x0F;
                    if act.req_seq == Some(s) && act.nreq == 1 && act.req_func == t.1[1] && started_here.contains(&format!("{} {}", act.addr, act.tt)) {
                        continue; // the request found at `start`
                    }
                    // a further step of a multi-step task: next sequence number
                    act.nreq += 1;
                    if act.nreq as u64 > steps_of(&act.tt) || act.is_read {
                        fail(mon, hdr, "one_outstanding", "", &format!("op {k}: extra request {} of {} on {}", hex(&t.1), act.tt, act.addr));
                    }
                    if act.tt == "command" && !act.orphan && !(t.1[1] == 4 && act.select_ok) {
                        fail(mon, hdr, "sbo_operate_follows_select", "", &format!("op {k}: second command request {} without a faithful SELECT echo", hex(&t.1)));
                    }
                    act.req_seq = Some(s);
                    act.req_func = t.1[1];
                    act.req_objs = t.1[2..].to_vec();
                    act.step_time = now;
                }
                _ => {
                    // requests of tasks that started and ended within this op were matched at `start`
                    if !started_here.iter().any(|s| s.starts_with(&format!("{} ", t.0))) {
                        fail(mon, hdr, "one_outstanding", "", &format!("op {k}: request {} to {} without a task", hex(&t.1), t.0));
                    }
                }
            }
        }

        // ---------------------------------------------------------------- C15 delivery and confirmation
        if skip_c15 {
            expect_deliveries = None;
        }
        if let Some(e) = &expect_deliveries {
            let got: Vec<String> = deliveries.iter().map(|s| s.to_string()).collect();
            if &got != e {
                fail(mon, hdr, "delivered_once_in_order", "", &format!("op {k}: handler saw [{}] expected [{}]", got.join(" | "), e.join(" | ")));
            }
        }
        match expect_confirm {
            _ if skip_c15 => {}
            Some((dst, c)) => {
                let good = confirms.len() == 1 && confirms[0].0 == dst && confirms[0].1 == vec![c, 0];
                if !good {
                    let cause = if confirms.is_empty() { confirm_cause } else { "" };
                    fail(mon, hdr, "confirm_exactly_when", cause, &format!("op {k}: accepted fragment with CON ({}) expected confirm {:02x}00 to {dst}, got [{}]", op, c, confirms.iter().map(|c| hex(&c.1)).collect::<Vec<_>>().join(",")));
                }
            }
            None => {
                if !confirms.is_empty() && !unparsable_confirmed {
                    fail(mon, hdr, "confirm_exactly_when", "", &format!("op {k}: confirm sent for a fragment that was not accepted or did not ask for it: {}", outs.join(" | ")));
                }
            }
        }
        // a request answered `ok` in this op needs the accepted response (or, for link checks, a link frame)
        for (id, res) in &completes {
            if !res.starts_with("ok") {
                continue;
            }
            let is_link = submitted.get(id).map(|s| s.0 == "link").unwrap_or(false);
            if is_link {
                let good = kind == "rxlink" && ws[2] == "1" && matches!(ws[3], "11" | "73") && pre_link.map(|l| l.1 == Some(*id)).unwrap_or(false);
                if !good {
                    fail(mon, hdr, "success_needs_response", "", &format!("op {k}: link check {id} succeeded without a link status frame"));
                }
            } else if skip_c15 {
            } else if !fragment_accepted || forbid_success {
                fail(mon, hdr, "success_needs_response", "", &format!("op {k}: request {id} answered ok without an acceptable response ({op})"));
            }
        }

        // ---------------------------------------------------------------- link status requests
        for (c, dst) in &txlinks {
            if *c != 201 {
                continue;
            }
            if let Some(act) = &active {
                if !act.orphan {
                    fail(mon, hdr, "one_outstanding", "", &format!("op {k}: link status request while {} on {} is outstanding", act.tt, act.addr));
                }
            }
            let am = match assocs.get_mut(dst) {
                Some(x) => x,
                None => {
                    fail(mon, hdr, "keepalive_after_silence", "", &format!("op {k}: link status request to unknown {dst}"));
                    continue;
                }
            };
            let head = am.queue.iter().position(|q| !completed_now(q.id).map(|r| never_started(&r)).unwrap_or(false));
            match head {
                Some(i) if am.queue[i].kind == "link" => {
                    let q = am.queue.remove(i).unwrap();
                    link_active = Some((*dst, Some(q.id), now, false, now));
                    ring.retain(|x| x != dst);
                    ring.push(*dst);
                }
                _ => {
                    // keep-alive: only after the configured silence, and never ahead of user requests
                    stats.hit("part_keepalive");
                    match am.cfg.ka {
                        Some(ka) if now >= am.last_activity + ka => {}
                        Some(ka) if now >= am.last_activity_d25 + ka => fail(mon, hdr, "keepalive_after_silence", "D25", &format!("op {k}: keep-alive to {dst} at {now} although a fragment from {dst} was received at {} (keep-alive {ka}): it was credited to the association of the outstanding request", am.last_activity)),
                        _ => fail(mon, hdr, "keepalive_after_silence", "", &format!("op {k}: keep-alive to {dst} at {now}, last activity {} keep-alive {:?}", am.last_activity, am.cfg.ka)),
                    }
                    if !am.tainted && !session_ended && am.pending.iter().any(|p| *p <= R_ENABLE) {
                        fail(mon, hdr, "startup_order", "", &format!("op {k}: keep-alive to {dst} while automatic tasks {:?} are due", am.pending));
                    }
                    for (b, bm) in assocs.iter() {
                        if let Some(q) = bm.queue.iter().find(|q| completed_now(q.id).is_none()) {
                            fail(mon, hdr, "user_requests_first", "", &format!("op {k}: keep-alive to {dst} while request {} is queued on {b}", q.id));
                        }
                    }
                    link_active = Some((*dst, None, now, false, now));
                    ring.retain(|x| x != dst);
                    ring.push(*dst);
                }
            }
        }
        // ---------------------------------------------------------------- bookkeeping after the op
        for am in assocs.values_mut() {
            am.queue.retain(|q| !completes.iter().any(|c| c.0 == q.id));
        }
        if let Some(addr) = activity_addr {
            if session_up || g0.iter().any(|o| o.starts_with("session ")) {
                if let Some(am) = assocs.get_mut(&addr) { am.last_activity = now; }
                // the same activity as the D25 defect would book it
                if let Some(am) = assocs.get_mut(&d25_addr.unwrap_or(addr)) { am.last_activity_d25 = now; }
            }
        }
        if kind == "rxlink" && ws[2] == "1" && matches!(ws[3], "11" | "73") && session_up {
            if let Ok(src) = ws[1].parse::<u16>() {
                if let Some(am) = assocs.get_mut(&src) { am.last_activity = now; am.last_activity_d25 = now; }
            }
        }
        if outs.iter().any(|o| o == "task-exit") {
            exited = true;
        }
        session_up = want_up && enabled && !exited;
        // a task never outlives its response timeout
        if let Some(act) = &active {
            if !act.orphan {
                if let Some(am) = assocs.get(&act.addr) {
                    if now - act.step_time >= am.cfg.rto {
                        fail(mon, hdr, "bounded_duration", "", &format!("op {k}: {} on {} still outstanding {} ms after its request (response timeout {})", act.tt, act.addr, now - act.step_time, am.cfg.rto));
                    }
                }
            }
        }
        // ---- C19 / C17 liveness: an idle master has nothing due
        if session_up && active.is_none() && link_active.is_none() && !dropped {
            for (addr, am) in assocs.iter() {
                if let Some(q) = am.queue.front() {
                    fail(mon, hdr, "idle_means_nothing_due", "", &format!("op {k}: request {} on {addr} is queued but the master is idle", q.id));
                }
                if am.cfg.evscan != 0 || am.pending.contains(&R_TIME) || am.tainted {
                    continue;
                }
                match am.pending.iter().next() {
                    Some(r) => {
                        let tt = match *r { R_CLEAR => "clear_restart", R_DISABLE => "disable_unsol", R_INTEGRITY => "startup_integrity", _ => "enable_unsol" };
                        let waiting = am.backoff.get(tt).map(|(_, t, d)| now < t + d).unwrap_or(false);
                        if !waiting {
                            fail(mon, hdr, "idle_means_nothing_due", "", &format!("op {k}: automatic task {tt} on {addr} is due at {now} but the master is idle"));
                        }
                    }
                    None => {
                        if let Some(i) = am.polls.iter().position(|p| !p.removed && p.due <= now) {
                            fail(mon, hdr, "idle_means_nothing_due", "", &format!("op {k}: poll {i} on {addr} was due at {} but the master is idle at {now}", am.polls[i].due));
                        }
                    }
                }
            }
        }
    }
    stats.hit("monitored_cases");
}
