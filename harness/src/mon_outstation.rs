//! trace monitors for the outstation engine: property predicates (C04 C05 C07 C12 C13 C14)
//! evaluated on the IMPLEMENTATION's trace with an independent decoder — never with the
//! library's own parser and never with the Lean model.
use crate::util::{hex, unhex, Stats};
use std::collections::HashSet;
use std::io::Write;

const OUTSTATION: u16 = 1024;
const MASTER: u16 = 1;

#[derive(Default)]
struct CaseCfg {
    sol: usize,
    unsol: usize,
    rx: usize,
    unsolicited: bool,
    retries: Option<usize>,
    ctimeout: u64,
    stimeout: u64,
    rdelay: u64,
    anymaster: bool,
    selfaddr: bool,
    maxctl: Option<usize>,
}

fn parse_cfg(ws: &[&str]) -> CaseCfg {
    let mut c = CaseCfg { sol: 2048, unsol: 2048, rx: 2048, ctimeout: 5000, stimeout: 5000, rdelay: 5000, ..Default::default() };
    for w in ws {
        if let Some((k, v)) = w.split_once('=') {
            match k {
                "sol" => c.sol = v.parse().unwrap(),
                "unsol" => c.unsol = v.parse().unwrap(),
                "rx" => c.rx = v.parse().unwrap(),
                "unsolicited" => c.unsolicited = v == "1",
                "retries" => c.retries = v.parse().ok(),
                "ctimeout" => c.ctimeout = v.parse().unwrap(),
                "stimeout" => c.stimeout = v.parse().unwrap(),
                "rdelay" => c.rdelay = v.parse().unwrap(),
                "anymaster" => c.anymaster = v == "1",
                "selfaddr" => c.selfaddr = v == "1",
                "maxctl" => c.maxctl = v.parse().ok(),
                _ => {}
            }
        }
    }
    c
}

fn known_function(f: u8) -> bool {
    f <= 30 || f == 129 || f == 130
}

/// header-level error of a request fragment (independent of the library)
fn header_error(frag: &[u8]) -> bool {
    if frag.len() < 2 {
        return true;
    }
    let c = frag[0];
    let f = frag[1];
    if !known_function(f) || f == 129 || f == 130 {
        return true;
    }
    if c & 0xC0 != 0xC0 {
        return true;
    }
    if c & 0x10 != 0 && f != 0 {
        return true;
    }
    false
}

/// split control objects (g12v1 / g41v1-4 with 0x17 / 0x28) into items; None if not purely controls
/// `Some(true)`: the objects are control headers (g12v1 / g41v1-4, prefixed) mixed with at least one all-objects
/// header (`gg vv 06`) of a class or static group, all whole; `Some(false)`: control headers only; `None`: anything else
fn control_request_has_foreign_header(objs: &[u8]) -> Option<bool> {
    let mut i = 0;
    let mut foreign = false;
    let mut controls = 0;
    while i < objs.len() {
        if i + 3 > objs.len() {
            return None;
        }
        let (g, v, q) = (objs[i], objs[i + 1], objs[i + 2]);
        if q == 0x06 && ((g == 60 && (1..=4).contains(&v)) || (matches!(g, 1 | 2 | 30) && v == 0)) {
            foreign = true;
            i += 3;
            continue;
        }
        let osz = match (g, v) {
            (12, 1) => 11,
            (41, 1) => 5,
            (41, 2) => 3,
            (41, 3) => 5,
            (41, 4) => 9,
            _ => return None,
        };
        i += 3;
        let (isz, count) = match q {
            0x17 if i + 1 <= objs.len() => {
                i += 1;
                (1, objs[i - 1] as usize)
            }
            0x28 if i + 2 <= objs.len() => {
                i += 2;
                (2, u16::from_le_bytes([objs[i - 2], objs[i - 1]]) as usize)
            }
            _ => return None,
        };
        if count == 0 || i + count * (isz + osz) > objs.len() {
            return None;
        }
        i += count * (isz + osz);
        controls += 1;
    }
    if controls == 0 {
        return None;
    }
    Some(foreign)
}

fn control_items(objs: &[u8]) -> Option<usize> {
    let mut i = 0;
    let mut n = 0;
    while i < objs.len() {
        if i + 3 > objs.len() {
            return None;
        }
        let (g, v, q) = (objs[i], objs[i + 1], objs[i + 2]);
        let osz = match (g, v) {
            (12, 1) => 11,
            (41, 1) => 5,
            (41, 2) => 3,
            (41, 3) => 5,
            (41, 4) => 9,
            _ => return None,
        };
        i += 3;
        let (isz, count) = match q {
            0x17 => {
                if i + 1 > objs.len() {
                    return None;
                }
                let c = objs[i] as usize;
                i += 1;
                (1, c)
            }
            0x28 => {
                if i + 2 > objs.len() {
                    return None;
                }
                let c = u16::from_le_bytes([objs[i], objs[i + 1]]) as usize;
                i += 2;
                (2, c)
            }
            _ => return None,
        };
        let len = count * (isz + osz);
        if i + len > objs.len() {
            return None;
        }
        i += len;
        n += count;
    }
    Some(n)
}

/// echo length of a control request (same layout as the request)
fn fail(mon: &mut dyn Write, hdr: &str, name: &str, cause: &str, detail: &str) {
    let c = if cause.is_empty() { String::new() } else { format!(" cause={cause}") };
    writeln!(mon, "MONITOR-FAIL {hdr} :: {name}{c} :: {detail}").unwrap();
}

struct Tx {
    dst: u16,
    bytes: Vec<u8>,
}

fn txs(outs: &[String]) -> Vec<Tx> {
    outs.iter()
        .filter_map(|o| {
            let ws: Vec<&str> = o.split_whitespace().collect();
            if ws.len() == 3 && ws[0] == "tx" {
                Some(Tx { dst: ws[1].parse().unwrap(), bytes: unhex(ws[2]) })
            } else {
                None
            }
        })
        .collect()
}

fn has_cb(outs: &[String], prefix: &str) -> bool {
    outs.iter().any(|o| o.starts_with(prefix))
}

fn exec_cb(o: &str) -> bool {
    ["cb select", "cb operate", "cb write_time", "cb clear_restart_iin", "cb cold_restart", "cb warm_restart", "cb freeze", "cb begin_fragment"]
        .iter()
        .any(|p| o.starts_with(p))
}

pub fn check(hdr: &str, lines: &[String], trace: &[(String, Vec<String>)], mon: &mut dyn Write, stats: &mut Stats) {
    // `disable` (the application stops and restarts communications) ends the session like a link error does
    let mapped: Vec<(String, Vec<String>)> = trace.iter().map(|(o, r)| (if o == "disable" { "cut".to_string() } else { o.clone() }, r.clone())).collect();
    let trace: &[(String, Vec<String>)] = &mapped;
    let d3_panic_op = crate::mon_outstation_db::check(hdr, lines, trace, mon);
    let mut cfg = CaseCfg::default();
    // resolved `cfm` ops need the last seqs: recompute like the engine does
    let mut last_sol: u8 = 0;
    let mut last_uns: u8 = 0;

    // annotations attach to the NEXT op
    let mut ann: Vec<Vec<String>> = Vec::new();
    {
        let mut cur: Vec<String> = Vec::new();
        for l in lines {
            if l.starts_with('@') {
                cur.push(l.clone());
            } else if !l.trim().is_empty() {
                ann.push(std::mem::take(&mut cur));
            }
        }
    }

    let mut dead = false;
    let mut now: u64 = 0;
    let mut sol_con_tx_time: Option<u64> = None;
    // ---- C04 state
    struct Delivered {
        frag: Vec<u8>,
        src: u16,
        time: u64,
        op: usize,
        select_ok: bool,
        /// unicast, accepted master, not a confirm, no header error: can become the "last request"
        processed: bool,
    }
    let mut delivered: Vec<Delivered> = Vec::new();
    let mut session_start_op = 0usize;
    // ---- C05 state
    let mut before_malformed: Option<(usize, Vec<u8>)> = None;
    let mut last_processed: Option<(usize, Vec<u8>)> = None; // (op index, bytes) of the last non-confirm unicast fragment from an accepted master
    let mut sent_this_session: HashSet<Vec<u8>> = HashSet::new();
    let mut in_sol_wait = false;
    let mut last_read_frag: Option<Vec<u8>> = None;
    let mut series_first_hdr: Option<Vec<u8>> = None;
    let mut last_sol_tx: Option<Vec<u8>> = None;
    // ---- C12 state
    let mut last_req_seq: Option<u8> = None;
    let mut prev_unsol: Option<Vec<u8>> = None;
    // ---- C13 state
    let mut restart_cleared = false;
    let mut app_iin: u8 = 0;
    let mut bc_pending: Option<(u8, bool)> = None; // (mode, certain): uncertain = may already have been reported inside the same op
    // the unsolicited response awaiting its confirm carried IIN1.0 / a broadcast was processed after it was written
    let mut unsol_reported_bc = false;
    let mut bc_since_unsol = false;
    // an unsolicited confirm arrived while a broadcast indication was pending that the confirmed response had not
    // reported: the indication must survive (dropping it is defect D16)
    let mut d16_watch = false;
    // ---- C14 state
    let mut unsol_confirmed_once = false;
    let mut unsol_waiting: Option<u8> = None;
    let mut unsol_first: Option<Vec<u8>> = None;
    let mut unsol_retries_seen = 0usize;
    let mut unsol_is_data = false;
    let mut not_before: Option<u64> = None;
    let mut pending_deferred: Option<u8> = None;
    let mut last_new_unsol_seq: Option<u8> = None;
    // ---- C18 state
    let mut recorded_at: Option<u64> = None;
    // ---- deferred READ that must be flagged when finally answered
    let mut deferred_reject: Option<u8> = None;

    for (k, (op, outs)) in trace.iter().enumerate() {
        let ws: Vec<&str> = op.split_whitespace().collect();
        if ws.is_empty() {
            continue;
        }
        let a = ann.get(k).cloned().unwrap_or_default();
        let wellformed = a.iter().any(|x| x.starts_with("@wf"));
        let reject = a.iter().find(|x| x.starts_with("@reject")).cloned();
        if outs.iter().any(|o| o == "panic") {
            dead = true;
            // a panic of the task on peer input is a C01/C12 finding; classification by cause
            let cause = if op.contains(" c") || true { "" } else { "" };
            let _ = cause;
        }
        if outs.iter().any(|o| o == "stall") {
            fail(mon, hdr, "no_stall", "", op);
        }
        // resolve the fragment of rx-like ops
        let mut frag: Option<(u16, u16, Vec<u8>)> = None;
        match ws[0] {
            "cfg" => cfg = parse_cfg(&ws[1..]),
            "rx" => frag = Some((ws[1].parse().unwrap(), ws[2].parse().unwrap(), unhex(ws[3]))),
            "cfm" => {
                let uns = ws[1] == "uns";
                let delta: u8 = ws[2].parse().unwrap();
                let seq = ((if uns { last_uns } else { last_sol }) + delta) & 0x0F;
                frag = Some((ws[3].parse().unwrap(), OUTSTATION, vec![0xC0 | if uns { 0x10 } else { 0 } | seq, 0x00]));
            }
            "tick" => now += ws[1].parse::<u64>().unwrap(),
            "appiin" => app_iin = ws[1].parse().unwrap(),
            "cut" => {
                session_start_op = k + 1;
                delivered.clear();
                last_processed = None;
                before_malformed = None;
                sent_this_session.clear();
                in_sol_wait = false;
                last_read_frag = None;
                pending_deferred = None;
                unsol_waiting = None;
                last_req_seq = None;
            }
            _ => {}
        }
        let t = txs(outs);
        if dead {
            // after a panic nothing more is checked in this case (the panic itself is reported below)
            if outs.iter().any(|o| o == "panic") {
                let is_operate = frag.as_ref().map(|f| f.2.len() >= 2 && f.2[1] == 4).unwrap_or(false);
                let objs_len = frag.as_ref().map(|f| f.2.len().saturating_sub(2)).unwrap_or(0);
                let cause = if is_operate && objs_len + 4 > cfg.sol { "D1" } else if d3_panic_op == Some(k) { "D3" } else { "" };
                fail(mon, hdr, "no_panic", cause, op);
            }
            continue;
        }

        // ------------------------------------------------------------------ delivery model
        let mut accepted_master = false;
        let mut is_bc = false;
        let mut delivered_now = false;
        let mut to_us_flag = false;
        if let Some((src, dst, f)) = &frag {
            let to_us = *dst == OUTSTATION || (*dst == 0xFFFC && cfg.selfaddr);
            to_us_flag = to_us;
            is_bc = *dst >= 0xFFFD;
            let fits = !f.is_empty() && f.len() <= cfg.rx && (!is_bc || f.len() <= 249);
            delivered_now = (to_us || is_bc) && *src < 0xFFF0 && fits;
            accepted_master = cfg.anymaster || *src == MASTER;
        }
        let func = frag.as_ref().and_then(|f| f.2.get(1).copied());
        let seq = frag.as_ref().and_then(|f| f.2.first().map(|c| c & 0x0F));
        let herr = frag.as_ref().map(|f| header_error(&f.2)).unwrap_or(false);

        // ------------------------------------------------------------------ C07 (application part)
        if let Some((src, _dst, f)) = &frag {
            if delivered_now && !accepted_master {
                // nothing may be transmitted or called back because of a foreign master's fragment
                let acted = t.iter().any(|x| x.bytes.len() >= 2 && x.bytes[1] == 0x81) || outs.iter().any(|o| exec_cb(o) || o.starts_with("cb sol_new_request") || o.starts_with("cb broadcast"));
                if acted {
                    let cause = if herr { "D6" } else { "" };
                    fail(mon, hdr, "foreign_master_silent", cause, &format!("src={src} frag={} -> {}", hex(f), outs.join(" | ")));
                }
            }
            // (an unsolicited CONFIRM that arrives on a broadcast address and ends the confirm wait lets the READ
            // deferred during that wait be answered in the same operation: that response answers the unicast
            // READ, not the broadcast)
            let ends_unsol_wait = func == Some(0) && outs.iter().any(|o| o.starts_with("cb unsol_confirmed"));
            if delivered_now && is_bc && !ends_unsol_wait && t.iter().any(|x| x.bytes.len() >= 2 && x.bytes[1] == 0x81) {
                let cause = if herr { "D6" } else { "" };
                fail(mon, hdr, "broadcast_never_answered", cause, &format!("frag={} -> {}", hex(f), outs.join(" | ")));
            }
        }
        let d6_op = delivered_now && herr && (!accepted_master || is_bc);

        // ------------------------------------------------------------------ C04
        for o in outs {
            if o.starts_with("cb operate sbo") {
                // the OPERATE being processed is this op's fragment (or a retained one = this op's)
                let (src, _dst, f) = match &frag {
                    Some(x) => x.clone(),
                    None => {
                        fail(mon, hdr, "operate_needs_select", "", &format!("sbo actuation without a request in op {op}"));
                        break;
                    }
                };
                let oseq = f[0] & 0x0F;
                let oobj = &f[2..];
                // find the SELECT: walk back over delivered fragments (this op's own is not yet pushed)
                let mut ok = false;
                let mut repeat_rebase = false;
                // the SELECT that recorded the select state: the latest one with these objects and
                // the preceding sequence number whose every object was accepted
                let mut idx = delivered.len();
                let mut sel: Option<&Delivered> = None;
                while idx > 0 {
                    idx -= 1;
                    let d = &delivered[idx];
                    if d.frag.len() >= 2 && d.frag[1] == 3 && &d.frag[2..] == oobj && (d.frag[0] & 0x0F) == (oseq + 15) % 16 && d.select_ok {
                        sel = Some(d);
                        break;
                    }
                }
                let _ = src;
                if let Some(s) = sel {
                    let between = &delivered[idx + 1..];
                    // every fragment delivered between that SELECT and the OPERATE is a retransmission of the
                    // SELECT by the master (anything else, a confirm or a foreign fragment included, breaks "directly")
                    let all_repeats = between.iter().all(|d| d.frag == s.frag && d.processed);
                    let fresh = now - s.time <= cfg.stimeout;
                    ok = all_repeats && fresh && s.select_ok && s.op >= session_start_op;
                    if !all_repeats && fresh && s.select_ok {
                        // D9: the fragment received right before the OPERATE is a byte-identical repeat of
                        // the last non-confirm fragment before it (RepeatNonRead re-bases the frame id)
                        let n = between.len();
                        if n >= 1 {
                            let last = &between[n - 1];
                            let upto = delivered.len() - 1;
                            let prev = delivered[..upto].iter().rev().find(|d| d.processed);
                            if let Some(p) = prev {
                                if last.processed && p.frag == last.frag && last.frag != s.frag {
                                    repeat_rebase = true;
                                }
                            }
                        }
                    }
                }
                if !ok {
                    fail(mon, hdr, "operate_needs_select", if repeat_rebase { "D9" } else { "" }, &format!("op {k}: {op}"));
                }
                break;
            }
        }
        // conversely: SELECT (all success, echo fits) directly followed by its matching OPERATE
        if let (Some((src, dst, f)), Some(prev)) = (&frag, delivered.last()) {
            if delivered_now && to_us_flag && accepted_master && f.len() > 2 && f[1] == 4 && prev.op + 1 == k && prev.select_ok
                && prev.frag[1] == 3 && prev.frag[2..] == f[2..] && (prev.frag[0] & 0x0F) == ((f[0] & 0x0F) + 15) % 16 && { let _ = src; true }
                && f[0] & 0xF0 == 0xC0
            {
                if let Some(n) = control_items(&f[2..]) {
                    let exec = outs.iter().filter(|o| o.starts_with("cb operate sbo")).count();
                    let limit = cfg.maxctl.map(|m| m.min(n)).unwrap_or(n);
                    if exec != limit && f.len() + 2 <= cfg.sol {
                        fail(mon, hdr, "select_then_operate_once", "", &format!("objects={n} executed={exec} op {k}"));
                    }
                }
            }
        }

        // ------------------------------------------------------------------ C05
        if let Some((_src, dst, f)) = &frag {
            let unicast = to_us_flag; let _ = dst;
            if delivered_now && accepted_master && unicast && func != Some(0) && !herr {
                if let Some((j, prev)) = &last_processed {
                    if prev == f && func != Some(1) {
                        // a byte-identical repeat of the last processed non-READ request
                        if let Some(o) = outs.iter().find(|o| exec_cb(o)) {
                            fail(mon, hdr, "repeat_nonread_not_executed", "", &format!("op {k} repeats op {j}: {o}"));
                        }
                        let mine: Vec<&Vec<u8>> = t.iter().filter(|x| x.bytes.len() >= 2 && x.bytes[1] == 0x81).map(|x| &x.bytes).collect();
                        let orig = txs(&trace[*j].1);
                        let theirs: Vec<&Vec<u8>> = orig.iter().filter(|x| x.bytes.len() >= 2 && x.bytes[1] == 0x81 && (x.bytes[0] & 0x0F) == (f[0] & 0x0F)).map(|x| &x.bytes).collect();
                        let mine_same_seq: Vec<&Vec<u8>> = mine.into_iter().filter(|b| (b[0] & 0x0F) == (f[0] & 0x0F)).collect();
                        if mine_same_seq != theirs {
                            let only_iin = mine_same_seq.len() == theirs.len()
                                && mine_same_seq.iter().zip(theirs.iter()).all(|(a, b)| a.len() == b.len() && (a[0] & !0x20) == (b[0] & !0x20) && a[1] == b[1] && a[4..] == b[4..]);
                            // D14 (repaired): the echo of a repeated non-READ request re-ORed the current IIN.
                            // D31: a request whose OBJECTS do not parse is classified as malformed before the
                            // duplicate check, so its repeat is answered afresh (current IIN); nothing is executed
                            let malformed = a.iter().any(|x| x.contains("malformed"));
                            let cause = if only_iin && malformed { "D31" } else if only_iin { "D14" } else { "" };
                            fail(mon, hdr, "repeat_nonread_same_bytes", cause, &format!("op {k} vs op {j}"));
                        }
                    }
                }
            }
            // echo of a repeated READ during a solicited confirm wait must be a fragment already sent
            if delivered_now && accepted_master && unicast && func == Some(1) && in_sol_wait && !herr {
                if last_read_frag.as_ref() == Some(f) && !has_cb(outs, "cb sol_new_request") {
                    for x in t.iter().filter(|x| x.bytes.len() >= 2 && x.bytes[1] == 0x81) {
                        if !sent_this_session.contains(&x.bytes) {
                            let splice = match (&series_first_hdr, &last_sol_tx) {
                                (Some(h), Some(l)) => x.bytes.len() >= 4 && x.bytes[..2] == h[..2] && (x.bytes.len() <= 4 || x.bytes[4..] == l[4..x.bytes.len().min(l.len())] || true),
                                _ => false,
                            };
                            fail(mon, hdr, "resend_is_earlier_fragment", if splice { "D5" } else { "" }, &format!("op {k}: {}", hex(&x.bytes)));
                        } else if last_sol_tx.as_ref() != Some(&x.bytes) {
                            // … namely the fragment that awaits the confirm, octet for octet
                            fail(mon, hdr, "resend_is_earlier_fragment", "D5", &format!("op {k}: echo is not the fragment awaiting confirmation: {}", hex(&x.bytes)));
                        }
                    }
                }
            }
        }
        // unsolicited retry must be identical to the response it retries
        if ws[0] == "tick" && has_cb(outs, "cb unsol_timeout") {
            let retried = outs.iter().any(|o| o.starts_with("cb unsol_timeout") && o.ends_with(" 1"));
            if retried {
                if let (Some(first), Some(x)) = (&unsol_first, t.iter().find(|x| x.bytes.len() >= 2 && x.bytes[1] == 0x82)) {
                    if &x.bytes != first {
                        fail(mon, hdr, "unsol_retry_identical", "", &format!("op {k}"));
                    }
                }
            }
        }

        // ------------------------------------------------------------------ C12
        if delivered_now && accepted_master && !is_bc && func != Some(0) {
            last_req_seq = seq;
        }
        if delivered_now && herr && accepted_master && !is_bc && frag.as_ref().map(|f| f.2.len() >= 2).unwrap_or(false) {
            // error responses are correlated with the offending fragment too (a foreign master's or a
            // broadcast fragment with a header error is not answered: D6 repaired)
            last_req_seq = seq;
        }
        for x in &t {
            let b = &x.bytes;
            if b.len() < 4 {
                fail(mon, hdr, "fits_and_parses", "", &format!("short fragment {}", hex(b)));
                continue;
            }
            if b[1] == 0x81 {
                if b[0] & 0x10 != 0 {
                    fail(mon, hdr, "solicited_uns_clear", "", &hex(b));
                }
                if b.len() > cfg.sol {
                    fail(mon, hdr, "fits_and_parses", "", &format!("len {} > {}", b.len(), cfg.sol));
                }
                if b[0] & 0x80 != 0 {
                    // first fragment: sequence number of the request being answered
                    if !d6_op && Some(b[0] & 0x0F) != last_req_seq {
                        fail(mon, hdr, "solicited_correlated", "", &format!("op {k}: {} expected seq {:?}", hex(&b[..4]), last_req_seq));
                    }
                    // C14 (deferral): a READ deferred during an unsolicited wait is answered in the session that
                    // received it or not at all - a first solicited fragment in a session that has not delivered
                    // any request yet answers a READ of an earlier session (S175)
                    if !d6_op && last_req_seq.is_none() {
                        fail(mon, hdr, "deferred_read_dies_with_session", "", &format!("op {k}: {} transmitted in a session that received no request", hex(&b[..4])));
                    }
                } else if let Some(p) = &last_sol_tx {
                    // the echo of a READ repeated during the confirm wait of a later fragment re-sends that fragment
                    let echo = in_sol_wait && b == p && frag.as_ref().map(|f| Some(&f.2) == last_read_frag.as_ref()).unwrap_or(false) && !has_cb(outs, "cb sol_new_request");
                    if !echo && (b[0] & 0x0F) != ((p[0] & 0x0F) + 1) % 16 {
                        fail(mon, hdr, "series_consecutive", "", &format!("op {k}"));
                    }
                }
                if !parses_response_objects(&b[4..]) {
                    // D5: the echo of a READ repeated during the confirm wait of a later fragment is the first
                    // fragment's header and size over the later fragment's objects
                    let echo = in_sol_wait && frag.as_ref().map(|f| Some(&f.2) == last_read_frag.as_ref()).unwrap_or(false) && !has_cb(outs, "cb sol_new_request");
                    fail(mon, hdr, "fits_and_parses", if echo { "D5" } else { "" }, &format!("objects do not parse: {}", hex(b)));
                }
            } else if b[1] == 0x82 {
                if b[0] & 0xF0 != 0xF0 {
                    fail(mon, hdr, "unsolicited_shape", "", &hex(&b[..4]));
                }
                if b.len() > cfg.unsol {
                    fail(mon, hdr, "fits_and_parses", "", &format!("unsol len {} > {}", b.len(), cfg.unsol));
                }
                if x.dst != MASTER {
                    fail(mon, hdr, "unsolicited_shape", "", &format!("dst {}", x.dst));
                }
                let is_retry = prev_unsol.as_ref() == Some(b) && has_cb(outs, "cb unsol_timeout");
                if !is_retry {
                    if let Some(p) = last_new_unsol_seq {
                        if (b[0] & 0x0F) != (p + 1) % 16 {
                            fail(mon, hdr, "unsolicited_numbering", "", &format!("op {k}: seq {} after {}", b[0] & 0x0F, p));
                        }
                    }
                    last_new_unsol_seq = Some(b[0] & 0x0F);
                }
                prev_unsol = Some(b.clone());
                if !parses_response_objects(&b[4..]) {
                    fail(mon, hdr, "fits_and_parses", "", &format!("objects do not parse: {}", hex(b)));
                }
            } else {
                fail(mon, hdr, "fits_and_parses", "", &format!("bad function {}", b[1]));
            }
        }
        if let Some((_s, dst, f)) = &frag {
            if delivered_now && accepted_master && to_us_flag && !herr {
                // silent functions
                if wellformed && matches!(func, Some(6) | Some(8) | Some(10) | Some(12)) {
                    if t.iter().any(|x| x.bytes[1] == 0x81) {
                        fail(mon, hdr, "silent_functions", "", &format!("op {k}: {op}"));
                    }
                }
                // rejection flagged
                let must_reject = reject.is_some() || (!known_function(f[1]));
                if must_reject && !matches!(func, Some(0)) {
                    let replies: Vec<&Tx> = t.iter().filter(|x| x.bytes[1] == 0x81 && x.bytes[0] & 0x80 != 0 && Some(x.bytes[0] & 0x0F) == seq).collect();
                    let silent_ok = matches!(func, Some(6) | Some(8) | Some(10) | Some(12));
                    let d7 = reject.as_ref().map(|r| r.contains("d7")).unwrap_or(false);
                    if replies.is_empty() {
                        // a deferred READ is answered later; silence is acceptable only then
                        if !silent_ok && !(func == Some(1) && unsol_waiting.is_some()) {
                            fail(mon, hdr, "rejection_flagged", "", &format!("op {k}: no reply to {op}"));
                        }
                    } else if replies.iter().any(|x| x.bytes[3] & 0x07 == 0) {
                        fail(mon, hdr, "rejection_flagged", if d7 { "D7" } else { "" }, &format!("op {k}: clean reply to {op}"));
                    }
                }
            }
            if delivered_now && herr && accepted_master && to_us_flag && f.len() >= 2 && f[1] != 129 && f[1] != 130 {
                let replies: Vec<&Tx> = t.iter().filter(|x| x.bytes[1] == 0x81 && Some(x.bytes[0] & 0x0F) == seq).collect();
                if replies.is_empty() || replies.iter().any(|x| x.bytes[3] & 0x07 == 0) {
                    fail(mon, hdr, "rejection_flagged", "", &format!("op {k}: header error not flagged: {op}"));
                }
            }
        }

        // ------------------------------------------------------------------ C13
        let clear_in_op = has_cb(outs, "cb clear_restart_iin");
        if clear_in_op {
            restart_cleared = true;
        }
        let repeat_op = match (&frag, &last_processed) {
            (Some((_, _, f)), Some((_, p))) => f == p,
            _ => false,
        } || match (&frag, &before_malformed) {
            // see `before_malformed`: a repeat iff the implementation treated it as one (nothing executed)
            (Some((_, _, f)), Some((_, p))) => f == p && !outs.iter().any(|o| exec_cb(o)),
            _ => false,
        };
        // independent reference for the restart bit: a processed WRITE that consists of exactly one g80v1 header
        // (8- or 16-bit start/stop) whose range covers index 7 with the bit 0 must clear it, whatever else the range
        // covers (the other indices are refused with PARAMETER_ERROR, they do not stop the clearing); and nothing
        // but such a WRITE clears it
        if let Some((_, _, f)) = &frag {
            let single_g80 = |f: &[u8]| -> Option<bool> {
                // Some(true): covers index 7 with bit 0; Some(false): a lone g80v1 header that does not clear
                if f.len() < 5 || f[1] != 2 || f[2] != 0x50 || f[3] != 0x01 {
                    return None;
                }
                let (start, stop, data) = match f[4] {
                    0x00 if f.len() >= 7 => (f[5] as usize, f[6] as usize, &f[7..]),
                    // (the 16-bit start/stop form is not supported for WRITE by the library: it is answered with
                    // NO_FUNC_CODE_SUPPORT and changes nothing, which tells the master so: no expectation)
                    _ => return None,
                };
                if stop < start || data.len() != (stop - start + 1 + 7) / 8 {
                    return None;
                }
                if start <= 7 && 7 <= stop {
                    let i = 7 - start;
                    Some(data[i / 8] & (1 << (i % 8)) == 0)
                } else {
                    Some(false)
                }
            };
            let processed_now = delivered_now && accepted_master && to_us_flag && !is_bc && !herr && !repeat_op && func == Some(2)
                && !a.iter().any(|x| x.contains("malformed")) && outs.iter().any(|o| o.starts_with("tx "));
            if processed_now {
                match single_g80(f) {
                    Some(true) if !clear_in_op => fail(mon, hdr, "restart_bit_interval", "", &format!("op {k}: WRITE of IIN1.7 = 0 ({}) did not clear the restart indication", hex(f))),
                    Some(false) if clear_in_op => fail(mon, hdr, "restart_bit_interval", "", &format!("op {k}: restart indication cleared by a WRITE that does not write IIN1.7 = 0 ({})", hex(f))),
                    _ => {}
                }
            }
        }
        if clear_in_op && func != Some(2) {
            fail(mon, hdr, "restart_bit_interval", "", &format!("op {k}: restart indication cleared without a WRITE"));
        }
        // did the unsolicited response that an unsolicited confirm of this op acknowledges report the pending
        // indication?  (it carried IIN1.0 and no broadcast was processed after it was written)
        let unsol_confirm_reports = unsol_reported_bc && !bc_since_unsol;
        for o in outs {
            if o.starts_with("cb broadcast") {
                bc_since_unsol = true;
            } else if let Some(r) = o.strip_prefix("cb unsol_wait ") {
                let sq: u8 = r.trim().parse().unwrap();
                unsol_reported_bc = t.iter().any(|x| x.bytes.len() >= 4 && x.bytes[1] == 0x82 && (x.bytes[0] & 0x0F) == sq && x.bytes[2] & 0x01 != 0);
                bc_since_unsol = false;
            }
        }
        if has_cb(outs, "cb broadcast") {
            let mode = match frag.as_ref().map(|f| f.1) {
                Some(0xFFFF) => 0,
                Some(0xFFFE) => 1,
                _ => 2,
            };
            // transmissions of this same op may have happened before or after the broadcast was processed
            bc_pending = Some((mode, t.is_empty()));
            d16_watch = false;
        }
        if has_cb(outs, "cb sol_confirmed") {
            // inside a solicited confirm wait every broadcast aborts the wait: the confirmed response was written
            // after the broadcast and reported it
            if matches!(bc_pending, Some((1, _))) {
                bc_pending = None;
            }
        } else if has_cb(outs, "cb unsol_confirmed") {
            // an unsolicited confirm ends a confirm-mandatory indication only if the confirmed unsolicited
            // response itself reported it; an indication recorded during the wait (any mode) survives the
            // confirm and is reported by the next response (dropping it is defect D16, repaired)
            if unsol_confirm_reports {
                if matches!(bc_pending, Some((1, _))) {
                    bc_pending = None;
                }
            } else if matches!(bc_pending, Some((_, true))) {
                d16_watch = true;
            }
        } else if func == Some(0) && !herr && delivered_now && accepted_master && seq.is_some() && frag.as_ref().map(|f| f.2[0] & 0x10 == 0).unwrap_or(false) && matches!(bc_pending, Some((1, _))) && unsol_waiting.is_some() {
            // a solicited confirm handled inside the unsolicited wait clears a mandatory broadcast silently; whether
            // this confirm was handled there or elsewhere (or dropped) is not visible in the trace: uncertain, the
            // next response decides
            bc_pending = Some((1, false));
        }
        let read_echo_op = func == Some(1) && in_sol_wait && frag.as_ref().map(|f| Some(&f.2) == last_read_frag.as_ref()).unwrap_or(false) && !has_cb(outs, "cb sol_new_request");
        for x in &t {
            let b = &x.bytes;
            if b.len() < 4 {
                continue;
            }
            // an echo of a READ repeated during the confirm wait re-sends a STORED header (its IIN octets are
            // those of the stored fragment; for a later fragment of the series that is the D5 splice, which
            // `fits_and_parses` / `resend_is_earlier_fragment` report): the IIN ledger does not judge it
            let read_echo = b[1] == 0x81 && in_sol_wait && frag.as_ref().map(|f| Some(&f.2) == last_read_frag.as_ref()).unwrap_or(false) && !has_cb(outs, "cb sol_new_request");
            let resend = sent_this_session.contains(b) || (repeat_op && func != Some(1)) || read_echo;
            if resend && b[2] & 0x01 != 0 {
                if let Some((m, _)) = bc_pending {
                    if m != 1 {
                        bc_pending = Some((m, false));
                    }
                }
            }
            if !resend {
                let restart = b[2] & 0x80 != 0;
                // within the op that clears the bit a transmission may precede or follow the clearing
                if restart == restart_cleared && !(clear_in_op && restart) {
                    fail(mon, hdr, "restart_bit_interval", "", &format!("op {k}: iin1 {:02x} cleared={restart_cleared}", b[2]));
                }
                let app = ((b[2] >> 4) & 0x07) | (((b[3] >> 5) & 1) << 3);
                if app != app_iin & 0x0F {
                    fail(mon, hdr, "app_bits_mirror", "", &format!("op {k}: got {app:04b} want {:04b}", app_iin & 0x0F));
                }
                let bc = b[2] & 0x01 != 0;
                let in_broadcast_op = has_cb(outs, "cb broadcast");
                match bc_pending {
                    Some((mode, true)) if !in_broadcast_op => {
                        if !bc {
                            if d16_watch {
                                fail(mon, hdr, "broadcast_bit_rule", "D16", &format!("op {k}: broadcast (mode {mode}) indication dropped by an unsolicited confirm before it was reported"));
                            } else {
                                fail(mon, hdr, "broadcast_bit_rule", "", &format!("op {k}: broadcast bit missing"));
                            }
                        }
                        d16_watch = false;
                        if mode == 1 && b[1] == 0x81 && b[0] & 0x20 == 0 {
                            fail(mon, hdr, "broadcast_bit_rule", "", &format!("op {k}: mandatory broadcast without CON"));
                        }
                        if mode != 1 {
                            bc_pending = None;
                        }
                    }
                    Some((mode, _)) => {
                        // uncertain: either outcome is consistent with the implementation's ordering
                        if bc && mode == 1 && !in_broadcast_op {
                            bc_pending = Some((1, true));
                        } else if !in_broadcast_op {
                            bc_pending = None;
                        }
                    }
                    None => {
                        if bc {
                            fail(mon, hdr, "broadcast_bit_rule", "", &format!("op {k}: broadcast bit without broadcast"));
                        }
                    }
                }
            }
        }

        // ------------------------------------------------------------------ C12 (controls)
        // a control request of which ANY header is not a control header is refused as a whole: nothing is selected
        // or operated, and (unless the function forbids a reply) the reply carries PARAMETER_ERROR and no objects
        if let Some((_s, _d, f)) = &frag {
            if delivered_now && accepted_master && to_us_flag && !is_bc && !herr && !repeat_op && matches!(func, Some(3) | Some(4) | Some(5) | Some(6)) && f.len() > 2 {
                if control_request_has_foreign_header(&f[2..]) == Some(true) {
                    let executed = outs.iter().any(|o| o.starts_with("cb select") || o.starts_with("cb operate"));
                    let reply = t.iter().find(|x| x.bytes.len() >= 4 && x.bytes[1] == 0x81 && Some(x.bytes[0] & 0x0F) == seq);
                    let bad_reply = match (func, reply) {
                        (Some(6), _) => false,
                        (_, Some(r)) => r.bytes[3] & 0x04 == 0 || r.bytes.len() != 4,
                        (_, None) => false,
                    };
                    if executed || bad_reply {
                        fail(mon, hdr, "control_request_refused_as_a_whole", "", &format!("op {k}: {op} -> {}", outs.join(" | ")));
                    }
                }
            }
        }

        // ------------------------------------------------------------------ C14
        // DISABLE_UNSOLICITED processed during the wait ends the series silently
        if unsol_waiting.is_some() && func == Some(21) && delivered_now && accepted_master && !is_bc && !herr && !repeat_op && !a.iter().any(|x| x.contains("malformed")) && t.iter().any(|x| x.bytes[1] == 0x81) {
            if unsol_is_data {
                not_before = Some(now + cfg.rdelay);
            }
            unsol_waiting = None;
        }
        let mut disable_in_op = func == Some(21) && delivered_now && accepted_master && !is_bc && !herr && !repeat_op && !a.iter().any(|x| x.contains("malformed"));
        for o in outs {
            if let Some(r) = o.strip_prefix("cb unsol_wait ") {
                let s: u8 = r.trim().parse().unwrap();
                if unsol_waiting.is_some() && disable_in_op {
                    // the DISABLE_UNSOLICITED of this op was handled inside the wait and cancelled it
                    disable_in_op = false;
                    unsol_waiting = None;
                }
                if unsol_waiting.is_some() {
                    fail(mon, hdr, "one_outstanding", "", &format!("op {k}: new unsolicited {s} while {:?} outstanding", unsol_waiting));
                }
                let first = t.iter().find(|x| x.bytes.len() >= 4 && x.bytes[1] == 0x82 && (x.bytes[0] & 0x0F) == s).map(|x| x.bytes.clone());
                unsol_is_data = first.as_ref().map(|b| b.len() > 4).unwrap_or(false);
                if !unsol_confirmed_once && unsol_is_data {
                    fail(mon, hdr, "null_until_confirmed", "", &format!("op {k}: data before the first unsolicited confirm"));
                }
                if unsol_is_data {
                    if let Some(nb) = not_before {
                        if now < nb {
                            fail(mon, hdr, "series_spacing", "", &format!("op {k}: new series at {now} < {nb}"));
                        }
                    }
                }
                unsol_waiting = Some(s);
                unsol_first = first;
                unsol_retries_seen = 0;
            } else if let Some(r) = o.strip_prefix("cb unsol_timeout ") {
                let p: Vec<&str> = r.split_whitespace().collect();
                if p[1] == "1" {
                    unsol_retries_seen += 1;
                    let limit = if unsol_is_data { cfg.retries } else { Some(0) };
                    if let Some(l) = limit {
                        if unsol_retries_seen > l {
                            fail(mon, hdr, "retries_bounded", "", &format!("op {k}: retry {unsol_retries_seen} > {l}"));
                        }
                    }
                } else {
                    if unsol_is_data {
                        not_before = Some(now + cfg.rdelay);
                    }
                    unsol_waiting = None;
                }
            } else if o.starts_with("cb unsol_confirmed") {
                unsol_confirmed_once = true;
                unsol_waiting = None;
                not_before = None;
            }
        }
        // a DISABLE_UNSOLICITED that arrived while a solicited confirm was awaited is held until the session is
        // idle again; the idle loop may start an unsolicited series first and handle the request INSIDE that
        // series' confirm wait: started and cancelled in one operation (the unsolicited transmission precedes
        // the reply to the DISABLE)
        if disable_in_op && unsol_waiting.is_some() {
            let pu = t.iter().position(|x| x.bytes.len() >= 2 && x.bytes[1] == 0x82);
            let ps = t.iter().rposition(|x| x.bytes.len() >= 2 && x.bytes[1] == 0x81 && Some(x.bytes[0] & 0x0F) == seq);
            if let (Some(pu), Some(ps)) = (pu, ps) {
                if pu < ps {
                    if unsol_is_data {
                        not_before = Some(now + cfg.rdelay);
                    }
                    unsol_waiting = None;
                }
            }
        }
        // deferred READ
        if let Some((_s, dst, _f)) = &frag {
            if delivered_now && accepted_master && to_us_flag && !herr && func != Some(0) {
                let answered_now = t.iter().any(|x| x.bytes.len() >= 4 && x.bytes[1] == 0x81 && x.bytes[0] & 0x80 != 0 && Some(x.bytes[0] & 0x0F) == seq);
                if func == Some(1) && wellformed && unsol_waiting.is_some() && !has_cb(outs, "cb unsol_confirmed") && !answered_now {
                    pending_deferred = seq;
                } else {
                    pending_deferred = None;
                }
            } else if delivered_now && herr && accepted_master {
                pending_deferred = None;
            } else if delivered_now && is_bc && accepted_master {
                pending_deferred = None;
            }
        }
        let ended = outs.iter().any(|o| o.starts_with("cb unsol_confirmed") || (o.starts_with("cb unsol_timeout") && o.ends_with(" 0")));
        if ended {
            if let Some(s) = pending_deferred.take() {
                if !t.iter().any(|x| x.bytes.len() >= 4 && x.bytes[1] == 0x81 && x.bytes[0] & 0x80 != 0 && (x.bytes[0] & 0x0F) == s) {
                    fail(mon, hdr, "read_deferred_not_dropped", "", &format!("op {k}: READ seq {s} not answered when the series ended"));
                }
            }
        }

        // ------------------------------------------------------------------ C18 (outstation half)
        if let Some((_s, _d, f)) = &frag {
            let bc_processed = outs.iter().any(|o| o.starts_with("cb broadcast") && o.ends_with("processed"));
            if delivered_now && ((accepted_master && !is_bc) || (is_bc && bc_processed)) && !herr && !repeat_op {
                if func == Some(24) {
                    recorded_at = Some(now);
                }
                // any accepted write of g50v3 consumes the recorded time
                if func == Some(2) && f.len() != 12 && f[2..].windows(3).any(|w| w == [0x32, 0x03, 0x07]) && has_cb(outs, "cb write_time") {
                    recorded_at = None;
                }
                // WRITE with exactly one header g50v3 / g50v1, count 1
                if func == Some(2) && f.len() == 12 && f[2] == 0x32 && f[4] == 0x07 && f[5] == 1 && (f[3] == 3 || f[3] == 1) {
                    let mut v: u64 = 0;
                    for i in 0..6 {
                        v |= (f[6 + i] as u64) << (8 * i);
                    }
                    let written: Vec<u64> = outs.iter().filter_map(|o| o.strip_prefix("cb write_time ").map(|x| x.trim().parse().unwrap())).collect();
                    if f[3] == 1 {
                        if !is_bc && written != vec![v] {
                            fail(mon, hdr, "time_written_is_master_time", "", &format!("op {k}: g50v1 {v} -> {written:?}"));
                        }
                    } else {
                        match recorded_at {
                            Some(r) => {
                                let want = v + (now - r);
                                let expect: Vec<u64> = if want > 0xFFFF_FFFF_FFFF { vec![] } else { vec![want] };
                                if written != expect {
                                    fail(mon, hdr, "time_written_is_master_time", "", &format!("op {k}: g50v3 {v} + {} -> {written:?}", now - r));
                                }
                                if !written.is_empty() {
                                    recorded_at = None;
                                }
                            }
                            None => {
                                if !written.is_empty() {
                                    fail(mon, hdr, "time_written_is_master_time", "", &format!("op {k}: g50v3 without RECORD_CURRENT_TIME wrote {written:?}"));
                                }
                            }
                        }
                    }
                }
            }
        }

        // ------------------------------------------------------------------ bookkeeping
        if let Some((src, dst, f)) = &frag {
            if delivered_now {
                let select_ok = f.len() > 2
                    && f[1] == 3
                    && to_us_flag
                    && accepted_master
                    && {
                        let sel: Vec<&String> = outs.iter().filter(|o| o.starts_with("cb select")).collect();
                        let n = control_items(&f[2..]).unwrap_or(0);
                        !sel.is_empty() && sel.len() == n && sel.iter().all(|o| o.ends_with("-> 0")) && f.len() + 2 <= cfg.sol
                    };
                delivered.push(Delivered { frag: f.clone(), src: *src, time: now, op: k, select_ok, processed: accepted_master && to_us_flag && func != Some(0) && !herr });
                if accepted_master && to_us_flag && func != Some(0) && !herr {
                    // a request rejected for malformed objects becomes the "last valid request" when it is
                    // processed from idle but not when it is answered inside an unsolicited confirm wait:
                    // whether a later repeat of the request BEFORE it is still a repeat depends on that, so
                    // the monitors let the implementation's behaviour decide (`before_malformed`)
                    // likewise a READ received inside an unsolicited confirm wait is deferred (nothing is
                    // transmitted for it in this operation) and becomes the last valid request only when it is
                    // answered, if it ever is: until then a repeat of the request before it is still echoed
                    let deferred_read = func == Some(1) && !outs.iter().any(|o| o.starts_with("tx "));
                    if a.iter().any(|x| x.contains("malformed")) || deferred_read {
                        if before_malformed.is_none() {
                            before_malformed = last_processed.clone();
                        }
                    } else {
                        before_malformed = None;
                    }
                    last_processed = Some((k, f.clone()));
                    if func == Some(1) {
                        last_read_frag = Some(f.clone());
                    }
                }
            }
        }
        // every fragment that asks for a confirm has its own deadline: the wait is not reported as timed out
        // before the confirm timeout has passed since the fragment now awaited was (re)transmitted
        if let Some(x) = t.iter().rev().find(|x| x.bytes.len() >= 2 && x.bytes[1] == 0x81 && x.bytes[0] & 0x20 != 0) {
            let _ = x;
            sol_con_tx_time = Some(now);
        }
        for o in outs {
            if o.starts_with("cb sol_timeout") {
                if let Some(t0) = sol_con_tx_time {
                    // (a transmission and the time-out in one operation: the transmission follows the time-out)
                    let sent_now = t.iter().any(|x| x.bytes.len() >= 2 && x.bytes[1] == 0x81 && x.bytes[0] & 0x20 != 0);
                    if !sent_now && now < t0 + cfg.ctimeout {
                        fail(mon, hdr, "confirm_timeout_not_early", "", &format!("op {k}: solicited confirm wait timed out {} ms after the awaited fragment was sent (confirm timeout {})", now - t0, cfg.ctimeout));
                    }
                }
            }
        }
        for o in outs {
            if o.starts_with("cb sol_wait") {
                in_sol_wait = true;
                series_first_hdr = t.iter().find(|x| x.bytes[1] == 0x81).map(|x| x.bytes[..4.min(x.bytes.len())].to_vec());
            } else if o.starts_with("cb sol_timeout") || o.starts_with("cb sol_new_request") {
                in_sol_wait = false;
            } else if o.starts_with("cb sol_confirmed") {
                in_sol_wait = t.iter().any(|x| x.bytes.len() >= 2 && x.bytes[1] == 0x81 && x.bytes[0] & 0x20 != 0);
            }
        }
        // (an echo of a READ repeated during the confirm wait re-sends a stored fragment: the series position
        // is still that of the fragment awaiting its confirm)
        for x in &t {
            if x.bytes.len() >= 2 {
                if x.bytes[1] == 0x81 && !read_echo_op {
                    last_sol = x.bytes[0] & 0x0F;
                    last_sol_tx = Some(x.bytes.clone());
                } else if x.bytes[1] == 0x82 {
                    last_uns = x.bytes[0] & 0x0F;
                }
            }
            sent_this_session.insert(x.bytes.clone());
        }
    }
    stats.hit("monitored_cases");
}

/// independent decoder of the object headers an outstation response can carry in this engine
fn parses_response_objects(mut b: &[u8]) -> bool {
    while !b.is_empty() {
        if b.len() < 3 {
            return false;
        }
        let (g, v, q) = (b[0], b[1], b[2]);
        b = &b[3..];
        let pw = crate::eng_db::pack_width(g, v);
        if pw != 0 {
            // packed bits (g1v1, g10v1) / double bits (g3v1) with a start-stop qualifier
            let n = match q {
                0x00 if b.len() >= 2 && b[1] >= b[0] => {
                    let n = (b[1] - b[0]) as usize + 1;
                    b = &b[2..];
                    n
                }
                0x01 if b.len() >= 4 => {
                    let s = u16::from_le_bytes([b[0], b[1]]);
                    let e = u16::from_le_bytes([b[2], b[3]]);
                    if e < s {
                        return false;
                    }
                    b = &b[4..];
                    (e - s) as usize + 1
                }
                _ => return false,
            };
            let bytes = (n * pw + 7) / 8;
            if b.len() < bytes {
                return false;
            }
            b = &b[bytes..];
            continue;
        }
        let size: usize = match (g, v) {
            (1, 2) => 1,
            (2, 1) => 1,
            (2, 2) => 7,
            (2, 3) => 3,
            (30, 1) => 5,
            (30, 2) => 3,
            (30, 3) => 4,
            (30, 4) => 2,
            (30, 5) => 5,
            (30, 6) => 9,
            (32, 1) => 5,
            (32, 2) => 3,
            (12, 1) => 11,
            (41, 1) => 5,
            (41, 2) => 3,
            (41, 3) => 5,
            (41, 4) => 9,
            (52, 1) | (52, 2) => 2,
            (51, 1) | (51, 2) => 6,
            // the other event / static variations of the eight point types (an octet string's variation is its length)
            _ => match crate::eng_db::ev_obj_size(g, v).or(crate::eng_db::st_obj_size(g, v)) {
                Some(n) => n,
                None => return false,
            },
        };
        match q {
            0x00 => {
                if b.len() < 2 || b[1] < b[0] {
                    return false;
                }
                let n = (b[1] - b[0]) as usize + 1;
                b = &b[2..];
                if b.len() < n * size {
                    return false;
                }
                b = &b[n * size..];
            }
            0x01 => {
                if b.len() < 4 {
                    return false;
                }
                let s = u16::from_le_bytes([b[0], b[1]]);
                let e = u16::from_le_bytes([b[2], b[3]]);
                if e < s {
                    return false;
                }
                let n = (e - s) as usize + 1;
                b = &b[4..];
                if b.len() < n * size {
                    return false;
                }
                b = &b[n * size..];
            }
            0x07 => {
                if b.is_empty() {
                    return false;
                }
                let n = b[0] as usize;
                b = &b[1..];
                if b.len() < n * size {
                    return false;
                }
                b = &b[n * size..];
            }
            0x17 => {
                if b.is_empty() {
                    return false;
                }
                let n = b[0] as usize;
                b = &b[1..];
                if b.len() < n * (size + 1) {
                    return false;
                }
                b = &b[n * (size + 1)..];
            }
            0x28 => {
                if b.len() < 2 {
                    return false;
                }
                let n = u16::from_le_bytes([b[0], b[1]]) as usize;
                b = &b[2..];
                if b.len() < n * (size + 2) {
                    return false;
                }
                b = &b[n * (size + 2)..];
            }
            _ => return false,
        }
    }
    true
}
