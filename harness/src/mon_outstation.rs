//! trace monitors for the outstation engine (property predicates evaluated on the
//! implementation's trace with an independent decoder)
use crate::util::Stats;
use std::io::Write;

pub fn check(_hdr: &str, _lines: &[String], _trace: &[(String, Vec<String>)], _mon: &mut dyn Write, _stats: &mut Stats) {}
