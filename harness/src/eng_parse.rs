//! engine `parse` (C09): the real `ParsedFragment::parse` / `to_request` / `to_response`, the real lazy
//! object iterators and `Display`, and the master's request builders, against the Lean model
//! (`Dnp3.Model.{AppHeader,ObjectGrammar,ObjectIter}`), plus trace monitors.
//!
//! ops:   parse <req|resp> <hex> [z]           (z: ParseOptions::parse_zero_length_strings = true)
//!        build <ctrl> <fn> <cap> <hdr>*        hdr = all:g:v | r8:g:v:s:e | r16:g:v:s:e | c8:g:v:n | c16:g:v:n | cr
//!                                                  | cmd8:g:v:<hex items (idx u8 + value)> | cmd16:g:v:<hex items> | one:g:v:<hex>
//!        @built <g> <v> <q> <spec> <n> <first> <last> <hash|->   (monitor input: what the generator asked the builder for)
//! out:   err hdr insufficient | err hdr unknownfn <seq> <raw>
//!        app <ctrl> <fir> <fin> <con> <uns> <seq> <fn> <iin1|-> <iin2|->
//!        valid ok | valid <kind>
//!        objerr <kind ..>      or, per object header:
//!        hdr <g> <v> <q> <spec> <payload_len|?|!>     spec: - | s..e | n | count/len
//!        objs - | objs <n> <first|-> <last|-> <fnv64> | objs panic
//!        display ok | display panic
//!        (build:) bytes <hex> | badwrite | badspec | panic    followed by the `parse req` dump of the bytes
//!        ok
use crate::rng::Rng;
use crate::util::*;
use dnp3::verif_hooks::parse_probe as probe;
use std::io::Write;

/// object sizes per IEEE 1815 (reference knowledge of the harness, NOT read from the library)
const REF_SIZES: &[(u8, u8, usize)] = &[
    (1, 2, 1), (2, 1, 1), (2, 2, 7), (2, 3, 3), (3, 2, 1), (4, 1, 1), (4, 2, 7), (4, 3, 3), (10, 2, 1), (11, 1, 1),
    (11, 2, 7), (12, 1, 11), (13, 1, 1), (13, 2, 7), (20, 1, 5), (20, 2, 3), (20, 5, 4), (20, 6, 2), (21, 1, 5), (21, 2, 3),
    (21, 5, 11), (21, 6, 9), (21, 9, 4), (21, 10, 2), (22, 1, 5), (22, 2, 3), (22, 5, 11), (22, 6, 9), (23, 1, 5), (23, 2, 3),
    (23, 5, 11), (23, 6, 9), (30, 1, 5), (30, 2, 3), (30, 3, 4), (30, 4, 2), (30, 5, 5), (30, 6, 9), (31, 1, 5), (31, 2, 3),
    (31, 3, 11), (31, 4, 9), (31, 5, 4), (31, 6, 2), (31, 7, 5), (31, 8, 9), (32, 1, 5), (32, 2, 3), (32, 3, 11), (32, 4, 9),
    (32, 5, 5), (32, 6, 9), (32, 7, 11), (32, 8, 15), (33, 1, 5), (33, 2, 3), (33, 3, 11), (33, 4, 9), (33, 5, 5), (33, 6, 9),
    (33, 7, 11), (33, 8, 15), (34, 1, 2), (34, 2, 4), (34, 3, 4), (40, 1, 5), (40, 2, 3), (40, 3, 5), (40, 4, 9), (41, 1, 5),
    (41, 2, 3), (41, 3, 5), (41, 4, 9), (42, 1, 5), (42, 2, 3), (42, 3, 11), (42, 4, 9), (42, 5, 5), (42, 6, 9), (42, 7, 11),
    (42, 8, 15), (43, 1, 5), (43, 2, 3), (43, 3, 11), (43, 4, 9), (43, 5, 5), (43, 6, 9), (43, 7, 11), (43, 8, 15), (50, 1, 6),
    (50, 2, 10), (50, 3, 6), (50, 4, 11), (51, 1, 6), (51, 2, 6), (52, 1, 2), (52, 2, 2), (102, 1, 1),
];

/// group/variation pairs the generator draws from: everything in the standard's object library that a
/// DNP3 implementation of this subset may know, plus neighbours that it should not know
fn all_gv() -> Vec<(u8, u8)> {
    let mut v = Vec::new();
    let groups: [u8; 34] = [0, 1, 2, 3, 4, 10, 11, 12, 13, 20, 21, 22, 23, 30, 31, 32, 33, 34, 40, 41, 42, 43, 50, 51, 52, 60, 70, 80, 102, 110, 111, 5, 81, 120];
    for g in groups {
        match g {
            0 => v.extend([0u8, 1, 196, 200, 252, 254, 255].iter().map(|x| (0u8, *x))),
            110 | 111 => v.extend([0u8, 1, 2, 4, 7, 255].iter().map(|x| (g, *x))),
            _ => v.extend((0..=11u8).map(|x| (g, x))),
        }
    }
    v
}

const QUALS: [u8; 10] = [0x00, 0x01, 0x06, 0x07, 0x08, 0x17, 0x28, 0x5B, 0x02, 0x18];
const REQ_FUNCS: [u8; 31] = [0, 1, 2, 3, 4, 5, 6, 7, 8, 9, 10, 11, 12, 13, 14, 15, 16, 17, 18, 19, 20, 21, 22, 23, 24, 25, 26, 27, 28, 29, 30];

fn ref_size(g: u8, v: u8) -> Option<usize> {
    REF_SIZES.iter().find(|r| r.0 == g && r.1 == v).map(|r| r.2)
}

fn fnv(h: &mut u64, b: &[u8]) {
    for x in b {
        *h ^= *x as u64;
        *h = h.wrapping_mul(0x100000001b3);
    }
}

/// a valid attribute value (type, length, payload)
fn rand_attr_value(r: &mut Rng) -> Vec<u8> {
    match r.below(9) {
        0 => {
            let n = r.below(12) as usize;
            let mut v = vec![1u8, n as u8];
            v.extend((0..n).map(|_| b'a' + r.below(26) as u8));
            v
        }
        1 => {
            let n = *r.pick(&[1u8, 2, 4]);
            let mut v = vec![2u8, n];
            v.extend(r.bytes(n as usize));
            v
        }
        2 => {
            let n = *r.pick(&[1u8, 2, 4]);
            let mut v = vec![3u8, n];
            v.extend(r.bytes(n as usize));
            v
        }
        3 => {
            let n = *r.pick(&[4u8, 8]);
            let mut v = vec![4u8, n];
            v.extend(r.bytes(n as usize));
            v
        }
        4 | 5 => {
            let n = r.below(10) as u8;
            let mut v = vec![if r.chance(1, 2) { 5u8 } else { 6 }, n];
            v.extend(r.bytes(n as usize));
            v
        }
        6 => {
            let mut v = vec![7u8, 6];
            v.extend(r.bytes(6));
            v
        }
        7 => {
            let n = 2 * r.below(6) as u8;
            let mut v = vec![254u8, n];
            v.extend(r.bytes(n as usize));
            v
        }
        _ => {
            let n = 2 * r.below(3) as u8;
            let mut v = vec![255u8, n];
            v.extend(r.bytes(n as usize + 256));
            v
        }
    }
}

fn rand_text(r: &mut Rng, n: usize) -> Vec<u8> {
    // mostly ASCII, sometimes multi-byte UTF-8, rarely invalid
    let mut v = Vec::new();
    while v.len() < n {
        match r.below(12) {
            0 if v.len() + 2 <= n => v.extend("é".as_bytes()),
            1 if v.len() + 3 <= n => v.extend("€".as_bytes()),
            2 if v.len() + 4 <= n => v.extend("𝄞".as_bytes()),
            3 if r.chance(1, 6) => v.push(0x80 + r.below(0x80) as u8),
            _ => v.push(b' ' + r.below(90) as u8),
        }
    }
    v
}

/// a (mostly) valid group 70 free-format object
fn rand_file_obj(r: &mut Rng, v: u8) -> Vec<u8> {
    let mut o = Vec::new();
    match v {
        2 => {
            let ul = r.below(8) as usize;
            let pl = r.below(8) as usize;
            o.extend(12u16.to_le_bytes());
            o.extend((ul as u16).to_le_bytes());
            o.extend((12 + ul as u16).to_le_bytes());
            o.extend((pl as u16).to_le_bytes());
            o.extend(r.bytes(4));
            o.extend(rand_text(r, ul));
            o.extend(rand_text(r, pl));
        }
        3 => {
            let nl = r.below(12) as usize;
            o.extend(26u16.to_le_bytes());
            o.extend((nl as u16).to_le_bytes());
            o.extend(r.bytes(22));
            o.extend(rand_text(r, nl));
        }
        4 => {
            o.extend(r.bytes(13));
            let n = r.below(10) as usize;
            o.extend(rand_text(r, n));
        }
        5 => {
            o.extend(r.bytes(8));
            let n = r.below(20) as usize;
            o.extend(r.bytes(n));
        }
        6 => {
            o.extend(r.bytes(9));
            let n = r.below(10) as usize;
            o.extend(rand_text(r, n));
        }
        7 => {
            let nl = r.below(12) as usize;
            o.extend(20u16.to_le_bytes());
            o.extend((nl as u16).to_le_bytes());
            o.extend(r.bytes(16));
            o.extend(rand_text(r, nl));
        }
        _ => {
            let n = r.below(16) as usize;
            o.extend(rand_text(r, n));
        }
    }
    o
}

/// payload length the standard implies for (function, g, v, qualifier, count, start); None: the
/// reference has no opinion (unknown object, qualifier not used with it, attribute, ...)
fn ref_payload_len(is_read: bool, g: u8, v: u8, q: u8, count: usize) -> Option<usize> {
    let packed_bits = matches!((g, v), (1, 1) | (10, 1) | (80, 1));
    let packed_dbits = (g, v) == (3, 1);
    match q {
        0x06 => Some(0),
        0x00 | 0x01 => {
            if is_read {
                return Some(0);
            }
            if g == 0 {
                return None;
            }
            if v == 0 && g != 110 {
                return Some(0); // "any variation" carries nothing
            }
            if packed_bits {
                Some(count.div_ceil(8))
            } else if packed_dbits {
                Some(count.div_ceil(4))
            } else if g == 110 {
                Some(v as usize * count)
            } else {
                ref_size(g, v).map(|s| s * count)
            }
        }
        0x07 | 0x08 => {
            if matches!(g, 50 | 51 | 52) {
                ref_size(g, v).map(|s| s * count)
            } else {
                Some(0)
            }
        }
        0x17 | 0x28 => {
            let idx = if q == 0x17 { 1 } else { 2 };
            if g == 0 {
                None
            } else if g == 111 {
                Some((v as usize + idx) * count)
            } else {
                ref_size(g, v).map(|s| (s + idx) * count)
            }
        }
        _ => None,
    }
}

struct Hdr {
    bytes: Vec<u8>,
}

/// one object header with a payload of the reference-implied length (random content); `count_class`
/// selects the count / range
fn make_header(r: &mut Rng, is_read: bool, g: u8, v: u8, q: u8, class: u64, allow_big: bool) -> Hdr {
    let mut b = vec![g, v, q];
    let mut count: usize = 0;
    match q {
        0x00 => {
            let (s, e): (u8, u8) = match class {
                0 => (0, 0),
                1 => (255, 255),
                2 => (0, 255),
                3 => (7, 14),
                4 => (5, 4),
                5 => (254, 255),
                6 => (0, 8),
                _ => {
                    let s = r.next() as u8;
                    (s, s.saturating_add(r.below(20) as u8))
                }
            };
            b.extend([s, e]);
            count = (e as usize + 1).saturating_sub(s as usize);
        }
        0x01 => {
            let (s, e): (u16, u16) = match class {
                0 => (0, 0),
                1 => (65535, 65535),
                2 => (65534, 65535),
                3 => (255, 256),
                4 => (300, 299),
                5 => (65520, 65535),
                6 => if allow_big { (0, 65535) } else { (0, 1) },
                _ => {
                    let s = r.next() as u16;
                    (s, s.saturating_add(r.below(20) as u16))
                }
            };
            b.extend(s.to_le_bytes());
            b.extend(e.to_le_bytes());
            count = (e as usize + 1).saturating_sub(s as usize);
        }
        0x07 | 0x17 => {
            let n: u8 = match class {
                0 => 0,
                1 => 1,
                2 => 255,
                3 => 2,
                _ => r.below(12) as u8,
            };
            b.push(n);
            count = n as usize;
        }
        0x08 | 0x28 => {
            let n: u16 = match class {
                0 => 0,
                1 => 1,
                2 => 255,
                3 => 256,
                4 => if allow_big { 65535 } else { 3 },
                _ => r.below(12) as u16,
            };
            b.extend(n.to_le_bytes());
            count = n as usize;
        }
        0x5B => {
            let nrand = r.below(6) as usize;
            let obj = if g == 70 { rand_file_obj(r, v) } else { r.bytes(nrand) };
            let c: u8 = if class == 0 { 0 } else if class == 2 { 2 } else { 1 };
            b.push(c);
            let len = match class {
                3 => obj.len() + 1,
                4 => obj.len().saturating_sub(1),
                _ => obj.len(),
            };
            b.extend((len as u16).to_le_bytes());
            b.extend(obj);
            return Hdr { bytes: b };
        }
        _ => {}
    }
    // payload
    if g == 0 && matches!(q, 0x00 | 0x01 | 0x17 | 0x28) && !(is_read && matches!(q, 0x00 | 0x01)) {
        if matches!(q, 0x17 | 0x28) {
            for _ in 0..count.min(3) {
                let idx = if r.chance(5, 6) { r.below(256) as u16 } else { r.next() as u16 };
                if q == 0x17 { b.push(idx as u8) } else { b.extend(idx.to_le_bytes()) }
                b.extend(rand_attr_value(r));
            }
        } else {
            b.extend(rand_attr_value(r));
        }
    } else {
        match ref_payload_len(is_read, g, v, q, count) {
            Some(n) if n <= 70_000 || allow_big => b.extend(r.bytes(n)),
            Some(_) => b.extend(r.bytes(8)),
            None => {
                let n = r.below(9) as usize;
                b.extend(r.bytes(n))
            }
        }
    }
    Hdr { bytes: b }
}

fn app_header(r: &mut Rng, func: u8, valid_ctrl: bool) -> Vec<u8> {
    let seq = r.below(16) as u8;
    let ctrl = if valid_ctrl {
        match func {
            130 => 0xF0 | seq,
            129 => *r.pick(&[0xC0u8, 0xE0, 0x80, 0x40, 0x00, 0xA0]) | seq,
            _ => 0xC0 | seq,
        }
    } else {
        r.next() as u8
    };
    let mut v = vec![ctrl, func];
    if func == 129 || func == 130 {
        v.extend(r.bytes(2));
    }
    v
}

fn kind_of(func: u8) -> &'static str {
    if func == 129 || func == 130 { "resp" } else { "req" }
}

pub fn gen(thorough: bool, seed: u64, w: &mut dyn Write) {
    let mut r = Rng::new(seed);
    let mut case = 0u64;
    let mut hdr = |w: &mut dyn Write, kind: &str, extra: &str| {
        writeln!(w, "# case {case} kind={kind} {extra}").unwrap();
        case += 1;
    };
    let gvs = all_gv();

    // (1) application header: every control octet x every function octet (quick: a sample of the
    //     function octets: all defined codes, their neighbours, and 32 random ones)
    let mut funcs: Vec<u8> = (0..=32).collect();
    funcs.extend([127u8, 128, 129, 130, 131, 255]);
    if thorough {
        funcs = (0..=255).collect();
    } else {
        for _ in 0..8 {
            funcs.push(r.next() as u8);
        }
    }
    for ctrl in 0..=255u8 {
        for &f in &funcs {
            hdr(w, "apphdr", "");
            let mut b = vec![ctrl, f];
            let k = r.below(4);
            if k >= 1 {
                b.extend(r.bytes(if k == 1 { 1 } else { 2 }));
            }
            writeln!(w, "parse {} {}", if r.chance(1, 2) { "req" } else { "resp" }, hex(&b)).unwrap();
        }
    }
    for b in [vec![], vec![0xC0u8], vec![0xC0, 0x81], vec![0xC0, 0x81, 0x00], vec![0xC0, 0x82, 0x00]] {
        hdr(w, "apphdr", "");
        writeln!(w, "parse req {}", hex(&b)).unwrap();
        writeln!(w, "parse resp {}", hex(&b)).unwrap();
    }

    // (2) product space: variation x qualifier x count/range class x function class
    let mut pool: Vec<(u8, Vec<u8>, Vec<usize>)> = Vec::new(); // (func, fragment, header boundaries) for the mutation stream
    let fclasses: Vec<u8> = if thorough { vec![1, 2, 129, 130, 3, 5, 0, 20, 22] } else { vec![1, 2, 129] };
    let mut fi = 0usize;
    for &(g, v) in &gvs {
        for &q in &QUALS {
            let plausible = ref_size(g, v).is_some() || v == 0 || matches!(g, 0 | 60 | 70 | 110 | 111) || matches!((g, v), (1, 1) | (3, 1) | (10, 1) | (80, 1));
            if !plausible && !matches!(q, 0x06 | 0x01 | 0x17) {
                continue;
            }
            let nclass = if !plausible { 1 } else { match q { 0x06 | 0x02 | 0x18 => 1, 0x5B => 5, _ => 8 } };
            for class in 0..nclass {
                for &fc in &fclasses {
                    // rotate the concrete request function code through all of them
                    let func = if fc == 2 { let f = REQ_FUNCS[2 + fi % 29]; fi += 1; f } else { fc };
                    let is_read = func == 1;
                    let big = class == 6 || (class == 4 && q == 0x08) || (class == 4 && q == 0x28);
                    let small = ref_size(g, v).map(|s| s <= 2).unwrap_or(false) || matches!((g, v), (1, 1) | (3, 1) | (10, 1) | (80, 1)) || (g >= 110 && v <= 2);
                    let allow_big = big && small && (thorough || (fc == 129 && (g as usize + v as usize + q as usize) % 2 == 0));
                    let h = make_header(&mut r, is_read, g, v, q, class, allow_big);
                    let mut frag = app_header(&mut r, func, true);
                    let off = frag.len();
                    frag.extend(&h.bytes);
                    let z = if (g == 110 || g == 111) && v == 0 && r.chance(1, 2) { " z" } else { "" };
                    hdr(w, "product", &format!("g={g} v={v} q={q} class={class}"));
                    writeln!(w, "parse {} {}{}", kind_of(func), hex(&frag), z).unwrap();
                    if frag.len() < 200 && r.chance(1, 6) {
                        pool.push((func, frag.clone(), vec![off, frag.len()]));
                    }
                }
            }
        }
    }

    // (3) multi-header fragments of valid headers
    let n_multi = if thorough { 20000 } else { 2500 };
    let valid_q = [0x00u8, 0x01, 0x06, 0x07, 0x08, 0x17, 0x28, 0x5B];
    for _ in 0..n_multi {
        let func = *r.pick(&[1u8, 2, 129, 130, 3, 4, 5, 20, 21, 22, 129, 129]);
        let is_read = func == 1;
        let vc = r.chance(9, 10);
        let mut frag = app_header(&mut r, func, vc);
        let nh = r.range(2, 5);
        let mut bounds = vec![frag.len()];
        for _ in 0..nh {
            // a combination the reference considers meaningful
            let (g, v, q) = loop {
                let (g, v) = *r.pick(&gvs);
                let q = *r.pick(&valid_q);
                let ok = match q {
                    0x5B => g == 70 && (2..=8).contains(&v),
                    0x06 => ref_size(g, v).is_some() || v == 0 || g == 60,
                    0x00 | 0x01 => (ref_size(g, v).is_some() && !matches!(g, 2 | 4 | 11 | 12 | 13 | 22 | 23 | 32 | 33 | 41 | 42 | 43 | 50 | 51 | 52)) || matches!((g, v), (1, 1) | (3, 1) | (10, 1) | (80, 1)) || g == 110 || (g == 0 && v != 0),
                    0x07 | 0x08 => matches!(g, 50 | 51 | 52) && ref_size(g, v).is_some() || (g == 60 && (2..=4).contains(&v)) || (matches!(g, 2 | 22 | 32) && v <= 2),
                    _ => (ref_size(g, v).is_some() && matches!(g, 2 | 4 | 11 | 12 | 13 | 22 | 23 | 32 | 33 | 34 | 41 | 42 | 43)) || g == 111 || (g == 0 && v != 0 && v != 254),
                };
                if ok { break (g, v, q); }
            };
            let class = if q == 0x5B { 1 } else if g == 0 { if q <= 1 { 0 } else { 1 } } else { r.below(8) };
            let class = if matches!(q, 0x00 | 0x01) && class == 4 { 3 } else { class };
            let h = make_header(&mut r, is_read, g, v, q, class, false);
            frag.extend(&h.bytes);
            bounds.push(frag.len());
        }
        hdr(w, "multi", "");
        writeln!(w, "parse {} {}{}", kind_of(func), hex(&frag), if r.chance(1, 4) { " z" } else { "" }).unwrap();
        if frag.len() < 300 && r.chance(1, 3) {
            pool.push((func, frag, bounds));
        }
    }

    // (4) truncations at every octet, extensions, single-octet mutations of pooled fragments
    let n_src = if thorough { pool.len() } else { pool.len().min(220) };
    for i in 0..n_src {
        let (func, frag, bounds) = &pool[(i * 7919) % pool.len()];
        let k = kind_of(*func);
        let step = if thorough { 1 } else { 1 + frag.len() / 24 };
        let mut cut = 0;
        while cut < frag.len() {
            let at_boundary = bounds.contains(&cut) || cut < bounds[0];
            hdr(w, "trunc", &format!("inner={}", if at_boundary { 0 } else { 1 }));
            writeln!(w, "@orig {k} {}", hex(frag)).unwrap();
            writeln!(w, "parse {k} {}", hex(&frag[..cut])).unwrap();
            cut += step;
        }
        for n in 1..=3usize {
            let mut e = frag.clone();
            e.extend(r.bytes(n));
            hdr(w, "extend", &format!("n={n}"));
            writeln!(w, "@orig {k} {}", hex(frag)).unwrap();
            writeln!(w, "parse {k} {}", hex(&e)).unwrap();
        }
        let nmut = if thorough { frag.len() * 2 } else { 10 };
        for j in 0..nmut {
            let mut m = frag.clone();
            let p = if thorough { j / 2 } else { r.below(frag.len() as u64) as usize };
            m[p] = match r.below(4) {
                0 => m[p].wrapping_add(1),
                1 => m[p] ^ (1 << r.below(8)),
                2 => *r.pick(&[0u8, 1, 0xFF, 0x5B, 0x06, 0x17, 0x28, 110, 111]),
                _ => r.next() as u8,
            };
            hdr(w, "mutate", "");
            writeln!(w, "parse {k} {}{}", hex(&m), if r.chance(1, 8) { " z" } else { "" }).unwrap();
        }
    }

    // (5) random octets after a valid application header
    let n_rand = if thorough { 30000 } else { 3000 };
    for _ in 0..n_rand {
        let func = *r.pick(&[1u8, 2, 129, 130, 5]);
        let mut frag = app_header(&mut r, func, true);
        let n = r.below(24) as usize;
        for _ in 0..n {
            frag.push(match r.below(5) {
                0 => *r.pick(&[0u8, 1, 2, 3, 6, 7, 8, 0x17, 0x28, 0x5B]),
                1 => *r.pick(&[1u8, 2, 10, 12, 20, 30, 32, 41, 50, 60, 70, 80, 110, 111]),
                _ => r.next() as u8,
            });
        }
        hdr(w, "random", "");
        writeln!(w, "parse {} {}{}", kind_of(func), hex(&frag), if r.chance(1, 8) { " z" } else { "" }).unwrap();
    }

    // (6) ranges ending at index 65535 for every ranged payload kind (incl. octet strings: former defect D2)
    for &(g, v) in &[(1u8, 1u8), (1, 2), (3, 1), (10, 2), (20, 1), (30, 5), (40, 4), (80, 1), (102, 1), (110, 1), (110, 4), (110, 0), (110, 255)] {
        for &(s, e) in &[(65535u16, 65535u16), (65534, 65535), (65530, 65535), (65534, 65534)] {
            for &func in &[129u8, 2, 1] {
                let is_read = func == 1;
                let mut frag = app_header(&mut r, func, true);
                frag.extend([g, v, 0x01]);
                frag.extend(s.to_le_bytes());
                frag.extend(e.to_le_bytes());
                let count = (e - s) as usize + 1;
                let n = ref_payload_len(is_read, g, v, 0x01, count).unwrap_or(0);
                frag.extend(r.bytes(n));
                hdr(w, "end65535", &format!("g={g} v={v}"));
                writeln!(w, "parse {} {}{}", kind_of(func), hex(&frag), if v == 0 { " z" } else { "" }).unwrap();
            }
        }
    }

    // (7) the master's request builders
    let n_build = if thorough { 6000 } else { 800 };
    for i in 0..n_build {
        gen_build(&mut r, w, &mut hdr, i);
    }
}

fn gen_build(r: &mut Rng, w: &mut dyn Write, hdr: &mut dyn FnMut(&mut dyn Write, &str, &str), i: u64) {
    let seq = r.below(16) as u8;
    let mut toks: Vec<String> = Vec::new();
    let mut built: Vec<String> = Vec::new();
    let style = r.below(4);
    let func: u8;
    let cap = if r.chance(1, 8) { r.range(2, 60) as usize } else { 2048 };
    // static objects (range / all-objects scans) and event objects (count / all-objects scans)
    let static_scan: [(u8, u8); 14] = [(1, 0), (1, 2), (3, 1), (10, 0), (20, 1), (21, 9), (30, 0), (30, 5), (40, 2), (110, 0), (0, 254), (0, 252), (102, 0), (34, 1)];
    let event_scan: [(u8, u8); 10] = [(60, 2), (60, 3), (60, 4), (2, 0), (22, 1), (32, 0), (4, 3), (11, 0), (42, 7), (111, 0)];
    let any_scan: [(u8, u8); 8] = [(22, 0), (2, 1), (60, 1), (12, 1), (50, 1), (70, 5), (80, 1), (111, 4)];
    // style 1 with `any`: the public builder API takes any Variation for any scan header
    let any = r.chance(1, 10);
    match style {
        0 | 1 => {
            // READ-style headers (also used with other function codes: freeze, assign class ...)
            func = if style == 0 { 1 } else { *r.pick(&[7u8, 9, 20, 21, 22]) };
            let nh = r.range(1, 5);
            for _ in 0..nh {
                let sel = r.below(5);
                let (g, v) = if any { *r.pick(&any_scan) } else if sel >= 3 || (sel == 0 && r.chance(1, 2)) { *r.pick(&event_scan) }
                    else if style == 1 { *r.pick(&[(1u8, 0u8), (10, 0), (20, 0), (21, 0), (30, 0), (40, 0)]) } else { *r.pick(&static_scan) };
                match sel {
                    0 => {
                        toks.push(format!("all:{g}:{v}"));
                        built.push(format!("@built {g} {v} 6 - - - - -"));
                    }
                    1 => {
                        let s = *r.pick(&[0u8, 1, 7, 254, 255]);
                        let e = s.saturating_add(r.below(3) as u8 * 100);
                        toks.push(format!("r8:{g}:{v}:{s}:{e}"));
                        built.push(format!("@built {g} {v} 0 {s}..{e} - - - -"));
                    }
                    2 => {
                        let s = *r.pick(&[0u16, 255, 256, 65534, 65535]);
                        let e = s.saturating_add(r.below(3) as u16 * 300);
                        toks.push(format!("r16:{g}:{v}:{s}:{e}"));
                        built.push(format!("@built {g} {v} 1 {s}..{e} - - - -"));
                    }
                    3 => {
                        let n = *r.pick(&[0u8, 1, 10, 255]);
                        toks.push(format!("c8:{g}:{v}:{n}"));
                        built.push(format!("@built {g} {v} 7 {n} - - - -"));
                    }
                    _ => {
                        let n = *r.pick(&[0u16, 1, 255, 256, 65535]);
                        toks.push(format!("c16:{g}:{v}:{n}"));
                        built.push(format!("@built {g} {v} 8 {n} - - - -"));
                    }
                }
            }
        }
        2 => {
            // commands through CommandBuilder
            func = *r.pick(&[3u8, 4, 5, 6]);
            let (g, v) = *r.pick(&[(12u8, 1u8), (41, 1), (41, 2), (41, 3), (41, 4)]);
            let size = ref_size(g, v).unwrap();
            let wide = r.chance(1, 2);
            let n = match r.below(12) {
                0 => 0usize,
                1 if !wide && i % 3 == 0 => 255,
                // 256 commands with one-octet indices: more than the u8 count of the header can express (a clean
                // write error since the repair of D17; before it the count overflowed)
                2 if !wide && size <= 5 => 256,
                _ => r.range(1, 6) as usize,
            };
            let mut items = Vec::new();
            let mut h: u64 = 0xcbf29ce484222325;
            let mut first = None;
            let mut last = 0u16;
            for _ in 0..n {
                let idx: u16 = if wide { *r.pick(&[0u16, 1, 255, 256, 65535, 1000]) } else { r.below(256) as u16 };
                let val = r.bytes(size);
                let mut it = if wide { idx.to_le_bytes().to_vec() } else { vec![idx as u8] };
                it.extend(&val);
                fnv(&mut h, &it);
                items.extend(&it);
                if first.is_none() { first = Some(idx); }
                last = idx;
            }
            toks.push(format!("{}:{g}:{v}:{}", if wide { "cmd16" } else { "cmd8" }, hex(&items)));
            if n > 0 {
                built.push(format!("@built {g} {v} {} {n} {n} {} {last} {:016x}", if wide { 40 } else { 23 }, first.unwrap(), h));
            }
        }
        _ => {
            func = 2;
            if r.chance(1, 3) {
                // WRITE of analog dead-bands (`DeadBandHeader::group34_*`), one to three headers, a header with
                // no item at all included (S111: its count octet(s) must still be written)
                for _ in 0..r.range(1, 3) {
                    let v = r.range(1, 3) as u8;
                    let size = ref_size(34, v).unwrap();
                    let wide = r.chance(1, 2);
                    let n = if r.chance(1, 4) { 0 } else { r.range(1, 5) as usize };
                    let mut items = Vec::new();
                    let mut h: u64 = 0xcbf29ce484222325;
                    let mut first = None;
                    let mut last = 0u16;
                    for _ in 0..n {
                        let idx: u16 = if wide { *r.pick(&[0u16, 1, 255, 256, 65535, 1000]) } else { r.below(256) as u16 };
                        let val = r.bytes(size);
                        let mut it = if wide { idx.to_le_bytes().to_vec() } else { vec![idx as u8] };
                        it.extend(&val);
                        fnv(&mut h, &it);
                        items.extend(&it);
                        if first.is_none() { first = Some(idx); }
                        last = idx;
                    }
                    toks.push(format!("{}:{v}:{}", if wide { "db16" } else { "db8" }, hex(&items)));
                    if n > 0 {
                        built.push(format!("@built 34 {v} {} {n} {n} {} {last} {:016x}", if wide { 40 } else { 23 }, first.unwrap(), h));
                    } else {
                        built.push(format!("@built 34 {v} {} 0 0 - - -", if wide { 40 } else { 23 }));
                    }
                }
            } else if r.chance(1, 2) {
                toks.push("cr".to_string());
                let mut h: u64 = 0xcbf29ce484222325;
                fnv(&mut h, &[7, 0, 0]);
                built.push(format!("@built 80 1 0 7..7 1 7 7 {:016x}", h));
            } else {
                let (g, v) = *r.pick(&[(50u8, 1u8), (50, 3)]);
                let val = r.bytes(6);
                let mut h: u64 = 0xcbf29ce484222325;
                fnv(&mut h, &val);
                toks.push(format!("one:{g}:{v}:{}", hex(&val)));
                built.push(format!("@built {g} {v} 7 1 1 - - {:016x}", h));
            }
        }
    }
    hdr(w, "build", &format!("style={style} cap={cap} any={}", if any && style <= 1 { 1 } else { 0 }));
    for b in &built {
        writeln!(w, "{b}").unwrap();
    }
    writeln!(w, "build {} {} {} {}", 0xC0 | seq, func, cap, toks.join(" ")).unwrap();
}

fn parse_build_hdr(tok: &str) -> Option<probe::BuildHdr> {
    let p: Vec<&str> = tok.split(':').collect();
    let n = |i: usize| -> Option<u32> { p.get(i)?.parse().ok() };
    Some(match p[0] {
        "all" => probe::BuildHdr::All(n(1)? as u8, n(2)? as u8),
        "r8" => probe::BuildHdr::Range8(n(1)? as u8, n(2)? as u8, n(3)? as u8, n(4)? as u8),
        "r16" => probe::BuildHdr::Range16(n(1)? as u8, n(2)? as u8, n(3)? as u16, n(4)? as u16),
        "c8" => probe::BuildHdr::Count8(n(1)? as u8, n(2)? as u8, n(3)? as u8),
        "c16" => probe::BuildHdr::Count16(n(1)? as u8, n(2)? as u8, n(3)? as u16),
        "cr" => probe::BuildHdr::ClearRestart,
        "cmd8" | "cmd16" => {
            let wide = p[0] == "cmd16";
            let (g, v) = (n(1)? as u8, n(2)? as u8);
            let size = ref_size(g, v)?;
            let raw = unhex(p.get(3)?);
            let isz = if wide { 2 } else { 1 };
            let mut items = Vec::new();
            for c in raw.chunks(isz + size) {
                if c.len() != isz + size {
                    return None;
                }
                let idx = if wide { u16::from_le_bytes([c[0], c[1]]) } else { c[0] as u16 };
                items.push((idx, c[isz..].to_vec()));
            }
            probe::BuildHdr::Commands(g, v, wide, items)
        }
        "one" => probe::BuildHdr::TimeOne(n(1)? as u8, n(2)? as u8, unhex(p.get(3)?)),
        "db8" | "db16" => {
            let wide = p[0] == "db16";
            let v = n(1)? as u8;
            let size = ref_size(34, v)?;
            let raw = unhex(p.get(2)?);
            let isz = if wide { 2 } else { 1 };
            let mut items = Vec::new();
            for c in raw.chunks(isz + size) {
                if c.len() != isz + size {
                    return None;
                }
                let idx = if wide { u16::from_le_bytes([c[0], c[1]]) } else { c[0] as u16 };
                items.push((idx, c[isz..].to_vec()));
            }
            probe::BuildHdr::DeadBands(v, wide, items)
        }
        _ => return None,
    })
}

fn spec_len(q: u8) -> usize {
    match q {
        0x00 => 2,
        0x01 => 4,
        0x06 => 0,
        0x07 | 0x17 => 1,
        0x08 | 0x28 => 2,
        0x5B => 3,
        _ => 0,
    }
}

/// monitors over one `parse` dump (independent of the model; reference knowledge only)
fn monitor_parse(hdrline: &str, resp: bool, bytes: &[u8], lines: &[String], mon: &mut dyn Write, stats: &mut Stats) -> bool {
    let fail = |mon: &mut dyn Write, name: &str, detail: &str| {
        writeln!(mon, "MONITOR-FAIL {hdrline} :: {name} :: {detail}").unwrap();
    };
    if lines.is_empty() {
        return false;
    }
    if lines[0].starts_with("err hdr") {
        stats.hit("res_hdr_error");
        // reference: a fragment shorter than its header, or an undefined function octet
        let known = |f: u8| f <= 30 || f == 129 || f == 130;
        let short = bytes.len() < 2 || (known(bytes[1]) && bytes[1] >= 129 && bytes.len() < 4);
        let want = if bytes.len() >= 2 && !known(bytes[1]) { format!("err hdr unknownfn {} {}", bytes[0] & 0x0F, bytes[1]) } else { "err hdr insufficient".to_string() };
        if !(short || !known(bytes[1])) || lines[0] != want {
            fail(mon, "header_rejected_only_when_malformed", &format!("{} (want {want})", lines[0]));
        }
        return false;
    }
    if lines[0] == "panic" {
        fail(mon, "no_panic", "ParsedFragment::parse panicked");
        return false;
    }
    // --- application header fields against the reference decode of the octets
    let a: Vec<&str> = lines[0].split_whitespace().collect();
    let c = bytes[0];
    let want_iin = if bytes[1] >= 129 { format!("{} {}", bytes[2], bytes[3]) } else { "- -".to_string() };
    let want = format!("app {} {} {} {} {} {} {} {}", c, c >> 7, (c >> 6) & 1, (c >> 5) & 1, (c >> 4) & 1, c & 15, bytes[1], want_iin);
    if lines[0] != want {
        fail(mon, "app_header_decodes_to_encoded_fields", &format!("{} (want {want})", lines[0]));
    }
    // the library's own header writer reproduces the octets
    let iin = if bytes[1] >= 129 { Some((bytes[2], bytes[3])) } else { None };
    let hl = if iin.is_some() { 4 } else { 2 };
    match probe::write_app_header(c, bytes[1], iin) {
        Some(wb) if wb == bytes[..hl] => {}
        other => fail(mon, "app_header_write_read_roundtrip", &format!("{other:?}")),
    }
    // validation against the reference rules
    let firfin = c & 0xC0 == 0xC0;
    let uns = c & 0x10 != 0;
    let want_valid = if resp {
        if bytes[1] < 129 { "valid unexpectedfunction" }
        else if bytes[1] == 129 && uns { "valid solicitedwithuns" }
        else if bytes[1] == 130 && !uns { "valid unsolicitedwithoutuns" }
        else if bytes[1] == 130 && !firfin { "valid unsolicitedwithoutfirfin" }
        else { "valid ok" }
    } else if bytes[1] >= 129 { "valid unexpectedfunction" }
    else if !firfin { "valid nonfirfin" }
    else if uns && bytes[1] != 0 { "valid unexpecteduns" }
    else { "valid ok" };
    if lines.get(1).map(|s| s.as_str()) != Some(want_valid) {
        fail(mon, "validation_matches_reference_rules", &format!("{:?} (want {want_valid})", lines.get(1)));
    }
    let _ = a;
    let objs = &bytes[hl..];
    let is_read = bytes[1] == 1;
    // --- panics
    let mut panicked = false;
    for l in lines {
        if l == "objs panic" || l == "display panic" || l.starts_with("display-lower-level") || l == "panic" {
            panicked = true;
        }
        if l == "size-mismatch" {
            fail(mon, "object_write_emits_size_octets", "an iterated object re-encodes to a length different from SIZE");
        }
    }
    if panicked {
        stats.hit("res_panic");
        fail(mon, "no_panic", &lines.iter().filter(|l| l.contains("panic")).cloned().collect::<Vec<_>>().join(","));
    }
    let rejected = lines.iter().any(|l| l.starts_with("objerr"));
    if rejected {
        let k = lines.iter().find(|l| l.starts_with("objerr")).unwrap().split_whitespace().nth(1).unwrap_or("?").to_string();
        stats.hit(&format!("res_objerr_{k}"));
        return false;
    }
    stats.hit("res_accepted");
    // --- accepted: every octet is accounted for by the header images
    let mut total = 0usize;
    let mut unknown = 0;
    let mut i = 2;
    let mut nh = 0;
    while i + 1 < lines.len() && lines[i].starts_with("hdr ") {
        let h: Vec<&str> = lines[i].split_whitespace().collect();
        let o: Vec<&str> = lines[i + 1].split_whitespace().collect();
        i += 2;
        nh += 1;
        let (g, v, q): (u8, u8, u8) = (h[1].parse().unwrap(), h[2].parse().unwrap(), h[3].parse().unwrap());
        total += 3 + spec_len(q);
        stats.hit(&format!("q_{q:02x}"));
        let (start, stop, count): (usize, usize, usize) = if let Some((s, e)) = h[4].split_once("..") {
            let (s, e): (usize, usize) = (s.parse().unwrap(), e.parse().unwrap());
            if e < s {
                fail(mon, "range_stop_not_below_start", &lines[i - 2]);
            }
            (s, e, e + 1 - s.min(e + 1))
        } else if let Some((c, _)) = h[4].split_once('/') {
            (0, 0, c.parse().unwrap())
        } else {
            (0, 0, h[4].parse().unwrap_or(0))
        };
        let paylen: Option<usize> = h[5].parse().ok();
        match paylen {
            Some(n) => total += n,
            None => unknown += 1,
        }
        // payload length is what the standard implies for (g, v, qualifier, count)
        if let (Some(n), Some(want)) = (paylen, ref_payload_len(is_read, g, v, q, count)) {
            if q != 0x5B && n != want {
                fail(mon, "payload_length_is_what_the_header_implies", &format!("{} (reference {want})", lines[i - 2]));
            }
        }
        // iteration yields exactly the announced objects with the announced indices
        if o.len() >= 5 && o[0] == "objs" {
            let n: usize = o[1].parse().unwrap();
            let ranged = matches!(q, 0x00 | 0x01);
            if is_read && ranged {
                if n != 0 {
                    fail(mon, "read_request_carries_no_objects", &lines[i - 1]);
                }
            } else if n != count {
                fail(mon, "iteration_yields_announced_count", &format!("{} / {}", lines[i - 2], lines[i - 1]));
            } else if ranged && n > 0 && (o[2] != start.to_string() || o[3] != stop.to_string()) {
                fail(mon, "iteration_indices_run_start_to_stop", &format!("{} / {}", lines[i - 2], lines[i - 1]));
            }
            stats.add("objects_iterated", n as u64);
        }
    }
    stats.add("headers_accepted", nh);
    if unknown == 0 && total != objs.len() {
        fail(mon, "accepted_fragment_is_sum_of_header_images", &format!("sum {total} input {}", objs.len()));
    }
    if unknown == 1 && total > objs.len() {
        fail(mon, "accepted_fragment_is_sum_of_header_images", &format!("sum {total}+? input {}", objs.len()));
    }
    true
}

pub fn run(ops: &str, out: &mut dyn Write, mon: &mut dyn Write) {
    std::panic::set_hook(Box::new(|_| {}));
    let mut stats = Stats::default();
    for (hdr, lines) in split_cases(ops) {
        writeln!(out, "{hdr}").unwrap();
        let kind = case_attr(&hdr, "kind").unwrap_or("?").to_string();
        stats.hit(&format!("kind_{kind}"));
        stats.note_case(&lines.join("\n"));
        let mut built: Vec<String> = Vec::new();
        let mut orig: Option<(bool, Vec<u8>)> = None;
        for line in &lines {
            let ws: Vec<&str> = line.split_whitespace().collect();
            match ws.as_slice() {
                ["parse", k, h] | ["parse", k, h, "z"] => {
                    let z = ws.len() == 4;
                    let bytes = unhex(h);
                    let resp = *k == "resp";
                    let dump = probe::parse_dump(resp, z, &bytes);
                    for l in &dump {
                        writeln!(out, "{l}").unwrap();
                    }
                    writeln!(out, "ok").unwrap();
                    let accepted = monitor_parse(&hdr, resp, &bytes, &dump, mon, &mut stats);
                    // truncation / extension monitors: the original was accepted => the damaged one is not
                    if let Some((oresp, obytes)) = &orig {
                        let odump = probe::parse_dump(*oresp, z, obytes);
                        let o_ok = odump.len() > 2 && !odump.iter().any(|l| l.starts_with("objerr") || l.starts_with("err "));
                        if o_ok && accepted {
                            if kind == "trunc" && case_attr(&hdr, "inner") == Some("1") {
                                writeln!(mon, "MONITOR-FAIL {hdr} :: fragment_cut_inside_a_header_is_rejected :: {line}").unwrap();
                            }
                            if kind == "extend" && matches!(case_attr(&hdr, "n"), Some("1") | Some("2")) {
                                writeln!(mon, "MONITOR-FAIL {hdr} :: fragment_with_trailing_octets_is_rejected :: {line}").unwrap();
                            }
                        }
                    }
                }
                ["@orig", k, h] => orig = Some((*k == "resp", unhex(h))),
                ["@built", ..] => built.push(line.clone()),
                ["build", ctrl, func, cap, toks @ ..] => {
                    let hs: Option<Vec<probe::BuildHdr>> = toks.iter().map(|t| parse_build_hdr(t)).collect();
                    let (ctrl, func, cap): (u8, u8, usize) = (ctrl.parse().unwrap(), func.parse().unwrap(), cap.parse().unwrap());
                    let res = match hs {
                        None => Ok(Err("badspec".to_string())),
                        Some(hs) => std::panic::catch_unwind(std::panic::AssertUnwindSafe(|| probe::build_request(ctrl, func, cap, &hs))),
                    };
                    match res {
                        Err(_) => {
                            writeln!(out, "panic").unwrap();
                            stats.hit("build_panic");
                            // cause predicate of D17 (repaired; the tag stays so that a returning defect is named): a
                            // count-and-prefix header with one-octet count asked to carry > 255 items
                            let d16 = toks.iter().any(|t| t.starts_with("cmd8:") && {
                                let p: Vec<&str> = t.split(':').collect();
                                let size = ref_size(p[1].parse().unwrap(), p[2].parse().unwrap()).unwrap_or(0);
                                unhex(p[3]).len() / (1 + size) > 255
                            });
                            writeln!(mon, "MONITOR-FAIL {hdr} :: builder_never_panics{} :: {}", if d16 { " cause=D17" } else { "" }, &line[..line.len().min(120)]).unwrap();
                        }
                        Ok(Err(e)) => {
                            writeln!(out, "{e}").unwrap();
                            stats.hit(&format!("build_{e}"));
                            if e == "badwrite" {
                                // a write error must have a reason (reference sizes, IEEE 1815 header layouts): the request does
                                // not fit the buffer, or a count-and-prefix header is asked to carry more items than its count
                                // can express (256+ commands under a one-octet count: clean failure since the repair of D17)
                                let mut total = 2usize;
                                let mut inexpressible = false;
                                for t in toks.iter() {
                                    let p: Vec<&str> = t.split(':').collect();
                                    total += match p[0] {
                                        "all" => 3,
                                        "r8" => 5,
                                        "r16" => 7,
                                        "c8" => 4,
                                        "c16" => 5,
                                        "cr" => 6,
                                        "one" => 4 + unhex(p[3]).len(),
                                        "cmd8" | "cmd16" => {
                                            let isz = if p[0] == "cmd16" { 2 } else { 1 };
                                            let size = ref_size(p[1].parse().unwrap(), p[2].parse().unwrap()).unwrap_or(0);
                                            let raw = unhex(p[3]).len();
                                            let n = raw / (isz + size);
                                            if n > (if isz == 2 { 65535 } else { 255 }) {
                                                inexpressible = true;
                                            }
                                            if n == 0 { 0 } else { 3 + isz + raw }
                                        }
                                        "db8" | "db16" => {
                                            // a dead-band header is written even when it has no item
                                            let isz = if p[0] == "db16" { 2 } else { 1 };
                                            let size = ref_size(34, p[1].parse().unwrap()).unwrap_or(0);
                                            let raw = unhex(p[2]).len();
                                            if raw / (isz + size) > (if isz == 2 { 65535 } else { 255 }) {
                                                inexpressible = true;
                                            }
                                            3 + isz + raw
                                        }
                                        _ => 0,
                                    };
                                }
                                if total <= cap && !inexpressible {
                                    writeln!(mon, "MONITOR-FAIL {hdr} :: builder_writes_what_fits :: {} octets fit {cap}: {}", total, &line[..line.len().min(120)]).unwrap();
                                }
                            }
                        }
                        Ok(Ok(bytes)) => {
                            stats.hit("build_ok");
                            writeln!(out, "bytes {}", hex(&bytes)).unwrap();
                            let dump = probe::parse_dump(false, false, &bytes);
                            for l in &dump {
                                writeln!(out, "{l}").unwrap();
                            }
                            monitor_parse(&hdr, false, &bytes, &dump, mon, &mut stats);
                            // builder output parses back to what was built
                            let mut got: Vec<String> = Vec::new();
                            let mut i = 2;
                            while i + 1 < dump.len() && dump[i].starts_with("hdr ") {
                                let h: Vec<&str> = dump[i].split_whitespace().collect();
                                let o: Vec<&str> = dump[i + 1].split_whitespace().collect();
                                let objs = if o.len() >= 5 { format!("{} {} {} {}", o[1], o[2], o[3], o[4]) } else { "- - - -".to_string() };
                                got.push(format!("@built {} {} {} {} {}", h[1], h[2], h[3], h[4], objs));
                                i += 2;
                            }
                            let hdr_ok = dump.first().map(|l| l.starts_with(&format!("app {} 1 1 0 0 {} {} - -", ctrl, ctrl & 15, func))).unwrap_or(false);
                            // READ requests carry no objects: the parser reports empty sequences for ranged headers
                            let norm = |v: &Vec<String>| -> Vec<String> {
                                v.iter().map(|s| {
                                    let p: Vec<&str> = s.split_whitespace().collect();
                                    if p[5] == "-" || p[5] == "0" { format!("{} {} {} {} -", p[1], p[2], p[3], p[4]) } else { p[1..].join(" ") }
                                }).collect()
                            };
                            if !hdr_ok || norm(&got) != norm(&built) || dump.iter().any(|l| l.starts_with("objerr")) {
                                // cause predicate of D18: a scan header built through the public API for a variation that
                                // the parser's table for that qualifier does not list
                                // (rejected outright, or — for a non-READ function and a variation that carries data under a
                                // range / count qualifier — taken with the following header's octets as its objects)
                                let d17 = case_attr(&hdr, "any") == Some("1") && hdr_ok
                                    && (dump.iter().any(|l| l.starts_with("objerr")) || func != 1);
                                writeln!(mon, "MONITOR-FAIL {hdr} :: builder_output_parses_back_to_what_was_built{} :: built {:?} got {:?}", if d17 { " cause=D18" } else { "" }, built, got).unwrap();
                            }
                        }
                    }
                    writeln!(out, "ok").unwrap();
                }
                [] => {}
                _ => writeln!(out, "bad-op").unwrap(),
            }
        }
    }
    stats.dump(mon);
}
