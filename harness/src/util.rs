use std::collections::HashSet;

pub fn hex(b: &[u8]) -> String {
    if b.is_empty() {
        return "-".to_string();
    }
    let mut s = String::with_capacity(b.len() * 2);
    for x in b {
        s.push_str(&format!("{x:02x}"));
    }
    s
}

pub fn unhex(s: &str) -> Vec<u8> {
    if s == "-" {
        return Vec::new();
    }
    let b = s.as_bytes();
    (0..b.len() / 2)
        .map(|i| u8::from_str_radix(std::str::from_utf8(&b[2 * i..2 * i + 2]).unwrap(), 16).unwrap())
        .collect()
}

/// independent bit-serial CRC-16/DNP (reflected polynomial 0xA6BC, final complement)
pub fn ref_crc(init: u16, data: &[u8]) -> u16 {
    let mut acc = init;
    for b in data {
        acc ^= *b as u16;
        for _ in 0..8 {
            acc = if acc & 1 == 1 { (acc >> 1) ^ 0xA6BC } else { acc >> 1 };
        }
    }
    !acc
}

/// independent reference link framer (payload = transport octet + app data, 0..=250 octets)
pub fn ref_frame(ctrl: u8, dst: u16, src: u16, payload: &[u8]) -> Vec<u8> {
    assert!(payload.len() <= 250);
    let mut v = vec![0x05, 0x64, payload.len() as u8 + 5, ctrl];
    v.extend_from_slice(&dst.to_le_bytes());
    v.extend_from_slice(&src.to_le_bytes());
    let c = ref_crc(0, &v);
    v.extend_from_slice(&c.to_le_bytes());
    for blk in payload.chunks(16) {
        v.extend_from_slice(blk);
        v.extend_from_slice(&ref_crc(0, blk).to_le_bytes());
    }
    v
}

pub fn contains(hay: &[u8], needle: &[u8]) -> bool {
    if needle.is_empty() {
        return true;
    }
    hay.windows(needle.len()).any(|w| w == needle)
}

/// per-engine case statistics written at the end of the monitor file as `STAT key value`
#[derive(Default)]
pub struct Stats {
    pub counts: std::collections::BTreeMap<String, u64>,
    pub distinct: HashSet<u64>,
}

impl Stats {
    pub fn hit(&mut self, k: &str) {
        *self.counts.entry(k.to_string()).or_insert(0) += 1;
    }
    pub fn add(&mut self, k: &str, n: u64) {
        *self.counts.entry(k.to_string()).or_insert(0) += n;
    }
    pub fn note_case(&mut self, text: &str) {
        // FNV-1a of the canonical op list
        let mut h: u64 = 0xcbf29ce484222325;
        for b in text.as_bytes() {
            h ^= *b as u64;
            h = h.wrapping_mul(0x100000001b3);
        }
        self.distinct.insert(h);
    }
    pub fn dump(&self, w: &mut dyn std::io::Write) {
        for (k, v) in &self.counts {
            writeln!(w, "STAT {k} {v}").unwrap();
        }
        writeln!(w, "STAT distinct_cases {}", self.distinct.len()).unwrap();
    }
}

/// split an ops file into cases: each starts with a `# case ...` line
pub fn split_cases(ops: &str) -> Vec<(String, Vec<String>)> {
    let mut res: Vec<(String, Vec<String>)> = Vec::new();
    for line in ops.lines() {
        if line.starts_with("# case") {
            res.push((line.to_string(), Vec::new()));
        } else if let Some(last) = res.last_mut() {
            last.1.push(line.to_string());
        }
    }
    res
}

/// `key=value` lookup in a `# case` header
pub fn case_attr<'a>(hdr: &'a str, key: &str) -> Option<&'a str> {
    hdr.split_whitespace().find_map(|w| w.strip_prefix(key).and_then(|r| r.strip_prefix('=')))
}

pub fn runtime() -> tokio::runtime::Runtime {
    tokio::runtime::Builder::new_current_thread()
        .enable_time()
        .start_paused(true)
        .build()
        .unwrap()
}
