//! generator of engine `pair`: two families of histories.
//!
//! * `sync` (C18): time synchronisation procedures (user-requested LAN / non-LAN / direct, and the
//!   automatic ones triggered by NEED_TIME) under scripted one-way delays a (request), p + b
//!   (processing + reply), c (WRITE) taken from boundary sets (0, 1, odd / even, 65535, 65536, beyond),
//!   master clocks 0 .. 2^48-1 and beyond-the-edge sums, honest / dishonest / impossible reported
//!   processing delays, NEED_TIME cleared in time or not, the application refusing the write,
//!   unrelated traffic (unsolicited responses, injected wrong-sequence / unsolicited / forged replies)
//!   interleaved, response time-outs, re-chunking.
//! * `data` (C02): update transactions over binary and analog points in classes 0-3 interleaved with
//!   polls, unsolicited reporting, commands, delays, holds, octet-granular delivery, re-chunking and
//!   cuts, over small and large buffers and event buffers, both link error modes; every history ends
//!   with a quiescent tail (wire released, no delay, settling time, two integrity reads) after which
//!   the convergence monitors compare the handler's picture with the database.
use crate::rng::Rng;
use std::io::Write;

#[derive(Clone, Copy, PartialEq)]
pub enum Profile {
    Both,
    Sync,
    Data,
    /// both families with `merge=1`: the relay may merge consecutive fragments into one write (search only)
    Merge,
}

const MAX_TS: u64 = 0x0000_FFFF_FFFF_FFFF;

struct G<'a> {
    r: Rng,
    w: &'a mut dyn Write,
    uid: u64,
    points: Vec<(bool, u16, u8)>,
    time: u64,
    polls: usize,
    unsolicited: bool,
}

impl<'a> G<'a> {
    fn line(&mut self, s: &str) {
        writeln!(self.w, "{s}").unwrap();
    }
    fn next_uid(&mut self) -> u64 {
        self.uid += 1;
        self.uid
    }
    fn delay_value(&mut self) -> u64 {
        match self.r.below(10) {
            0 => 0,
            1 => 1,
            2 => *self.r.pick(&[2u64, 3, 7, 10, 11]),
            3 | 4 => self.r.range(1, 200),
            5 => self.r.range(200, 3000),
            6 => *self.r.pick(&[65535u64, 65536, 65534, 32767, 32768]),
            7 => self.r.range(65537, 140000),
            _ => self.r.range(0, 1000),
        }
    }
    fn small_delay(&mut self) -> u64 {
        *self.r.pick(&[0u64, 0, 0, 1, 5, 10, 50, 100, 700, 1000, 2500, 6000])
    }
    fn chunk(&mut self) -> u64 {
        *self.r.pick(&[0u64, 0, 0, 1, 2, 3, 5, 7, 10, 16, 17, 18, 64, 100, 291, 292, 293, 1000])
    }
    fn txn(&mut self) {
        if self.points.is_empty() {
            self.line("txn bin:0:1:1:0");
            return;
        }
        let n = self.r.range(1, 4);
        let mut items = Vec::new();
        for _ in 0..n {
            let (is_bin, idx, _) = *self.r.pick(&self.points.clone());
            let idx = if self.r.chance(1, 30) { idx.wrapping_add(1) } else { idx };
            let flags = *self.r.pick(&[1u8, 1, 1, 1, 0x41, 0x02, 0x09, 0x11, 0x21, 0x00, 0x05]);
            self.time += self.r.range(0, 5);
            if is_bin {
                items.push(format!("bin:{idx}:{}:{flags}:{}", self.r.below(2), self.time));
            } else {
                let v: i64 = match self.r.below(12) {
                    0 => 0,
                    1 => -1,
                    2 => i32::MAX as i64,
                    3 => i32::MIN as i64,
                    4 => i32::MAX as i64 + 1 + self.r.below(1000) as i64,
                    5 => i32::MIN as i64 - 1 - self.r.below(1000) as i64,
                    6 | 7 => self.r.below(100) as i64,
                    _ => self.r.range(0, 2_000_000) as i64 - 1_000_000,
                };
                items.push(format!("an:{idx}:{v}:{flags}:{}", self.time));
            }
        }
        self.line(&format!("txn {}", items.join(" ")));
    }
    fn populate(&mut self, big: bool) {
        if big {
            let n = *self.r.pick(&[30u16, 60, 100, 260]);
            let is_bin = self.r.chance(1, 2);
            let start = *self.r.pick(&[0u16, 0, 5, 250]);
            let class = self.r.below(4) as u8;
            self.line(&format!("addmany {} {} {} {}", if is_bin { "bin" } else { "an" }, start, n, class));
            for i in 0..6u16 {
                self.points.push((is_bin, start + i * (n / 6), class));
            }
        }
        let np = self.r.range(1, 6);
        for _ in 0..np {
            let is_bin = self.r.chance(1, 2);
            let idx = if self.r.chance(1, 8) { *self.r.pick(&[255u16, 256, 65535, 1000]) } else { self.r.below(8) as u16 };
            let class = if self.r.chance(1, 5) { 0 } else { self.r.range(1, 3) as u8 };
            self.line(&format!("{} {} {}", if is_bin { "addbin" } else { "addan" }, idx, class));
            if !self.points.iter().any(|p| p.0 == is_bin && p.1 == idx) {
                self.points.push((is_bin, idx, class));
            }
        }
    }
    fn command(&mut self) {
        let id = self.next_uid();
        let kind = if self.r.chance(1, 2) { "do" } else { "sbo" };
        let idx = self.r.below(4) as u8;
        let objs = match self.r.below(3) {
            0 => format!("0c011701{idx:02x}{:02x}01{:08x}{:08x}00", *self.r.pick(&[0x03u8, 0x04, 0x41, 0x81, 0x01]), self.r.below(1000) as u32, 0u32),
            1 => format!("29021701{idx:02x}{:04x}00", self.r.below(65536) as u16),
            _ => format!("29012802000100{:08x}000200{:08x}00", self.r.next() as u32, self.r.next() as u32),
        };
        self.line(&format!("cmd {id} {kind} {objs}"));
    }
    /// an unrelated fragment inserted by the relay towards the master while a time synchronisation runs
    fn inject_noise(&mut self) {
        let seq = self.r.below(16);
        match self.r.below(4) {
            // a solicited reply with an arbitrary sequence number (matches the request in flight 1 time in 16)
            0 => self.line(&format!("inject o2m 1024 1 {:02x}810000", 0xC0 | seq)),
            // an unsolicited null response
            1 => self.line(&format!("inject o2m 1024 1 {:02x}820000", 0xF0 | seq)),
            // a reply from another outstation
            2 => self.line(&format!("inject o2m 1025 1 {:02x}810000", 0xC0 | seq)),
            // an unsolicited response with data
            _ => {
                let st = 0x01 | (self.r.below(2) << 7) as u8;
                self.line(&format!("inject o2m 1024 1 {:02x}82000002012801000000{:02x}", 0xF0 | seq, st))
            }
        }
    }
}

fn gen_sync(case: usize, mut r: Rng, w: &mut dyn Write, merge: bool) {
    let kind = *r.pick(&["lan", "lan", "nonlan", "nonlan", "nonlan", "direct", "auto_lan", "auto_nonlan", "forged", "timeout"]);
    writeln!(w, "# case {case} kind=sync_{kind}").unwrap();
    let mut g = G { r, w, uid: 0, points: Vec::new(), time: 1000, polls: 0, unsolicited: false };
    // delays: a = request, pb = processing + reply, c = WRITE
    let mut a = g.delay_value();
    let mut pb = g.delay_value();
    let mut c = if g.r.chance(1, 3) { a } else { g.delay_value() };
    if g.r.chance(1, 8) {
        // symmetric path
        pb = a;
        c = a;
    }
    if kind.starts_with("auto") || kind == "timeout" {
        a = a.min(3000);
        pb = pb.min(3000);
        c = c.min(3000);
    }
    let total = a + pb + c + pb;
    let rto = if kind == "timeout" { *g.r.pick(&[1u64, 50, 500]) + a.min(pb) } else { total * 2 + 5000 + g.r.below(3) * 100_000 };
    // master clock
    let clock: Option<u64> = match g.r.below(12) {
        0 => Some(0),
        1 => Some(1),
        2 => Some(MAX_TS),
        3 => Some(MAX_TS - g.r.below(4)),
        4 => Some(MAX_TS.saturating_sub(total + g.r.below(5))),
        5 => Some(MAX_TS.saturating_sub((a + pb) / 2 + a + pb + g.r.below(3))),
        6 => Some(MAX_TS.saturating_sub(pb + c + g.r.below(3))),
        7 => Some(1u64 << 47),
        8 => None,
        _ => Some(g.r.range(1_000_000_000_000, 2_000_000_000_000)),
    };
    let clock = if kind == "timeout" || kind == "forged" { clock.or(Some(5)) } else { clock };
    let quiet = g.r.chance(1, 2);
    g.unsolicited = !quiet && g.r.chance(2, 3);
    let ts = match kind {
        "auto_lan" => "lan",
        "auto_nonlan" => "nonlan",
        _ => *g.r.pick(&["none", "none", "lan", "nonlan"]),
    };
    let chunk = g.chunk();
    let cfg = format!(
        "cfg unsolicited={} evmax=5 retries={} ctimeout={} discard={} rto={} dis={} int={} en={} ts={} rmin={} rmax={} mclock={} dm2o=0 do2m=0 chunk={}",
        g.unsolicited as u8,
        *g.r.pick(&["none", "0", "2"]),
        *g.r.pick(&[5000u64, 1009, 200_000]),
        g.r.chance(1, 2) as u8,
        rto,
        if quiet { 0 } else { 7 },
        if quiet { 0 } else { 15 },
        if quiet { 0 } else { 7 },
        ts,
        *g.r.pick(&[1000u64, 3000]),
        *g.r.pick(&[10000u64, 3000]),
        clock.map(|c| c.to_string()).unwrap_or("none".to_string()),
        chunk,
    );
    g.line(&if merge { format!("{cfg} merge=1") } else { cfg });
    if !quiet {
        g.populate(false);
    }
    g.line("tick 100");
    // reported processing delay
    let p_real = if pb == 0 { 0 } else { g.r.below(pb.min(65535) + 1) };
    let reported: u64 = match g.r.below(8) {
        0 => 0,
        1 | 2 | 3 => p_real,                                   // honest
        4 => (a + pb + g.r.range(1, 3)).min(65535),            // exceeds the round trip (when it fits 16 bits)
        5 => (a + pb).min(65535),                              // exactly the round trip
        6 => *g.r.pick(&[65535u64, 65534, 1]),
        _ => g.r.below(65536),
    };
    if kind.contains("nonlan") || g.r.chance(1, 4) {
        g.line(&format!("procdelay {reported}"));
    }
    if g.r.chance(1, 10) {
        let v = g.r.range(1, 2);
        g.line(&format!("timeres {v}"));
    }
    g.line(&format!("delay m2o {a}"));
    g.line(&format!("delay o2m {pb}"));
    let noise = g.r.chance(1, 3);
    // start
    match kind {
        "auto_lan" | "auto_nonlan" => {
            g.line("appiin 1");
            // some response must carry IIN1.4: a user read
            let id = g.next_uid();
            let cls = *g.r.pick(&[8u8, 15, 7]);
            g.line(&format!("read {id} {cls}"));
        }
        "lan" | "forged" | "timeout" if kind != "forged" || g.r.chance(1, 2) => {
            if g.r.chance(1, 6) {
                g.line("appiin 1");
            }
            let id = g.next_uid();
            g.line(&format!("timesync {id} lan"));
        }
        "direct" => {
            let id = g.next_uid();
            g.line(&format!("timesync {id} direct"));
        }
        _ => {
            if g.r.chance(1, 6) {
                g.line("appiin 1");
            }
            let id = g.next_uid();
            g.line(&format!("timesync {id} nonlan"));
        }
    }
    let clear_early = g.r.chance(2, 3);
    // run the exchange in steps so that the WRITE's delay can differ from the request's
    let mut steps: Vec<u64> = Vec::new();
    if kind.starts_with("auto") {
        // the read first (a + pb), then the procedure
        steps.push(a);
        steps.push(pb);
    }
    steps.push(a);
    steps.push(pb);
    let mut first = true;
    for (i, st) in steps.clone().iter().enumerate() {
        if noise && g.r.chance(1, 2) {
            g.inject_noise();
        }
        if g.unsolicited && !g.points.is_empty() && g.r.chance(1, 4) {
            g.txn();
        }
        if kind == "forged" && i + 2 == steps.len() && first {
            first = false;
            // the relay answers the first request itself, with unexpected objects, before the real reply
            let shape = g.r.below(5);
            g.line("hold o2m on");
            g.line(&format!("tick {st}"));
            // the request in flight has the sequence number the monitor-independent model resolves: use a
            // wildcard by injecting all 16 sequence numbers is too noisy; the master's first user request
            // after a quiet start uses a known sequence (0), after a start-up sequence it is unknown: try 16
            for seq in 0..16u8 {
                let f = match shape {
                    0 => format!("{:02x}810000340207010500", 0xC0 | seq),             // g52v2 where none / another is expected
                    1 => format!("{:02x}8100003402070205000600", 0xC0 | seq),         // count 2
                    2 => format!("{:02x}810000340107010500", 0xC0 | seq),             // g52v1
                    3 => format!("{:02x}8100000102000001", 0xC0 | seq),               // measurement data
                    _ => format!("{:02x}8100003402080100050000", 0xC0 | seq),         // 16-bit count... and trailing octet
                };
                g.line(&format!("inject o2m 1024 1 {f}"));
            }
            g.line("hold o2m off");
            continue;
        }
        if i + 1 == steps.len() {
            // the WRITE is issued when this step's delivery happens: give it its own delay first
            g.line(&format!("delay m2o {c}"));
            if clear_early {
                g.line("appiin 0");
            }
        }
        // split a step now and then so that unrelated ops land in the middle of a transit
        if *st > 1 && g.r.chance(1, 3) {
            let x = g.r.range(1, st - 1);
            g.line(&format!("tick {x}"));
            if noise {
                g.inject_noise();
            }
            g.line(&format!("tick {}", st - x));
        } else {
            g.line(&format!("tick {st}"));
        }
    }
    if noise && g.r.chance(1, 2) {
        g.inject_noise();
    }
    if g.r.chance(1, 12) {
        g.line("cut");
    }
    g.line(&format!("tick {c}"));
    g.line(&format!("tick {pb}"));
    // the automatic procedures may need retries: let everything settle
    g.line("delay m2o 0");
    g.line("delay o2m 0");
    g.line(&format!("tick {}", rto + 1));
    g.line("tick 20000");
}

fn gen_data(case: usize, mut r: Rng, w: &mut dyn Write, merge: bool) {
    let kind = *r.pick(&["mixed", "mixed", "mixed", "unsol", "poll", "overflow", "cuts", "bigdb"]);
    writeln!(w, "# case {case} kind=data_{kind}").unwrap();
    let mut g = G { r, w, uid: 0, points: Vec::new(), time: 1000, polls: 0, unsolicited: false };
    g.unsolicited = match kind {
        "unsol" => true,
        "poll" => false,
        _ => g.r.chance(1, 2),
    };
    let evmax = match kind {
        "overflow" => *g.r.pick(&[1u16, 1, 2, 3]),
        _ => *g.r.pick(&[1u16, 2, 5, 10, 50]),
    };
    let sol = *g.r.pick(&[249u16, 249, 300, 512, 2048]);
    let dm2o = g.small_delay();
    let do2m = g.small_delay();
    let cfg = format!(
        "cfg sol={} unsol={} unsolicited={} retries={} ctimeout={} rdelay={} evmax={} discard={} mtx={} rto={} dis={} int={} en={} evscan={} ovf={} rmin={} rmax={} mclock=1000 dm2o={} do2m={} chunk={}",
        sol,
        *g.r.pick(&[249u16, 300, 2048]),
        g.unsolicited as u8,
        *g.r.pick(&["none", "0", "1", "3"]),
        *g.r.pick(&[5000u64, 1009, 15000]),
        *g.r.pick(&[5000u64, 3001, 500]),
        evmax,
        g.r.chance(1, 2) as u8,
        *g.r.pick(&[249u16, 2048]),
        *g.r.pick(&[5000u64, 2000, 20000]),
        *g.r.pick(&[7u8, 7, 0]),
        *g.r.pick(&[15u8, 15, 15, 8, 0]),
        *g.r.pick(&[7u8, 7, 7, 1, 0]),
        *g.r.pick(&[0u8, 0, 7, 2]),
        g.r.chance(3, 4) as u8,
        *g.r.pick(&[1000u64, 500]),
        *g.r.pick(&[10000u64, 2000]),
        dm2o,
        do2m,
        g.chunk(),
    );
    g.line(&if merge { format!("{cfg} merge=1") } else { cfg });
    let before = g.r.chance(2, 3);
    if before {
        let big = kind == "bigdb" || g.r.chance(1, 6);
        g.populate(big);
    }
    let t0 = *g.r.pick(&[0u64, 100, 1000, 5000, 30000]);
    g.line(&format!("tick {t0}"));
    if !before {
        g.populate(kind == "bigdb");
    }
    if g.r.chance(1, 3) {
        let per = *g.r.pick(&[1000u64, 3000, 7000, 60000]);
        let cls = *g.r.pick(&[7u8, 15, 1, 8, 6]);
        g.line(&format!("addpoll {per} {cls}"));
        g.polls += 1;
    }
    let len = g.r.range(6, 45);
    let cut_w = if kind == "cuts" { 12 } else { 3 };
    for _ in 0..len {
        let x = g.r.below(100);
        if x < 34 {
            g.txn();
        } else if x < 56 {
            let t = match g.r.below(8) {
                0 => 0,
                1 => 1,
                2 => g.r.range(2, 50),
                3 | 4 => g.r.range(50, 1500),
                5 => *g.r.pick(&[1009u64, 5000, 3001, 2000, 500]),
                6 => g.r.range(4000, 12000),
                _ => g.r.range(100, 700),
            };
            g.line(&format!("tick {t}"));
        } else if x < 64 {
            let id = g.next_uid();
            let cls = *g.r.pick(&[15u8, 7, 8, 1, 2, 4, 3, 9]);
            g.line(&format!("read {id} {cls}"));
        } else if x < 64 + cut_w {
            g.line("cut");
        } else if x < 74 {
            let d = if g.r.chance(1, 2) { "m2o" } else { "o2m" };
            let v = g.small_delay();
            g.line(&format!("delay {d} {v}"));
        } else if x < 80 {
            let d = if g.r.chance(1, 2) { "m2o" } else { "o2m" };
            let v = if g.r.chance(3, 5) { "on" } else { "off" };
            g.line(&format!("hold {d} {v}"));
        } else if x < 86 {
            let d = if g.r.chance(1, 2) { "m2o" } else { "o2m" };
            let n = match g.r.below(5) {
                0 => "all".to_string(),
                1 => g.r.range(1, 9).to_string(),
                2 => g.r.range(10, 40).to_string(),
                3 => g.r.pick(&["10", "18", "26", "292", "293"]).to_string(),
                _ => g.r.range(1, 600).to_string(),
            };
            g.line(&format!("deliver {d} {n}"));
        } else if x < 89 {
            let c = g.chunk();
            g.line(&format!("chunk {c}"));
        } else if x < 92 {
            g.command();
        } else if x < 94 && g.polls > 0 {
            let k = g.r.below(g.polls as u64);
            g.line(&format!("demand {k}"));
        } else if x < 96 {
            let per = *g.r.pick(&[1000u64, 3000, 7000]);
            let cls = *g.r.pick(&[7u8, 15, 1, 8]);
            g.line(&format!("addpoll {per} {cls}"));
            g.polls += 1;
        } else if x < 98 {
            // a point added while traffic may be in flight
            let is_bin = g.r.chance(1, 2);
            let idx = g.r.below(12) as u16;
            let class = g.r.below(4) as u8;
            g.line(&format!("{} {} {}", if is_bin { "addbin" } else { "addan" }, idx, class));
            if !g.points.iter().any(|p| p.0 == is_bin && p.1 == idx) {
                g.points.push((is_bin, idx, class));
            }
        } else {
            let b = *g.r.pick(&[0u8, 1, 2, 4, 8]);
            g.line(&format!("appiin {b}"));
        }
    }
    // quiescent tail: activity stops, the wire is released and prompt, everything settles,
    // then the master asks for everything twice
    g.line("@quiet");
    g.line("appiin 0");
    g.line("chunk 0");
    g.line("delay m2o 0");
    g.line("delay o2m 0");
    g.line("hold m2o off");
    g.line("hold o2m off");
    g.line("tick 25000");
    g.line("tick 25000");
    g.line("tick 25000");
    g.line("read 9001 15");
    g.line("tick 21000");
    g.line("read 9002 15");
    g.line("tick 21000");
    g.line("@converged");
}

pub fn gen(thorough: bool, seed: u64, w: &mut dyn Write, p: Profile) {
    let mut root = Rng::new(seed ^ 0x7061_6972 ^ if p == Profile::Merge { 0x6d65_7267_0000 } else { 0 });
    let n = if thorough { 40000 } else { 6000 };
    for case in 0..n {
        let r = root.fork();
        let sync = match p {
            Profile::Sync => true,
            Profile::Data => false,
            Profile::Both | Profile::Merge => case % 2 == 0,
        };
        if sync {
            gen_sync(case, r, w, p == Profile::Merge);
        } else {
            gen_data(case, r, w, p == Profile::Merge);
        }
    }
}
