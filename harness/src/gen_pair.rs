//! generator of engine `pair`: two families of histories.
//!
//! * `sync` (C18): time synchronisation procedures (user-requested LAN / non-LAN / direct, and the
//!   automatic ones triggered by NEED_TIME) under scripted one-way delays a (request), p + b
//!   (processing + reply), c (WRITE) taken from boundary sets (0, 1, odd / even, 65535, 65536, beyond),
//!   master clocks 0 .. 2^48-1 and beyond-the-edge sums, honest / dishonest / impossible reported
//!   processing delays, NEED_TIME cleared in time or not, the application refusing the write,
//!   unrelated traffic (unsolicited responses, injected wrong-sequence / unsolicited / forged replies)
//!   interleaved, response time-outs, re-chunking.
//! * `data` (C02): update transactions over binary and analog points in classes 0-3 interleaved with
//!   polls, unsolicited reporting, commands, delays, holds, octet-granular delivery, re-chunking and
//!   cuts, over small and large buffers and event buffers, both link error modes; every history ends
//!   with a quiescent tail after which the convergence monitors compare the handler's picture with the
//!   database.  Two kinds of tail (half of the cases each):
//!   - `explicit`: wire released, no delay, settling time, two user reads of classes 0-3, `@converged`;
//!   - `auto`: wire released, no delay, NO user request at all: only virtual time passes (retries, confirm
//!     time-outs, back-off of the automatic tasks, every configured poll period several times), then
//!     `@converged auto`: the picture is judged on what the library did by itself (integrity poll on
//!     reconnection / restart IIN / overflow IIN, unsolicited reporting, periodic polls, automatic event
//!     scans).  One auto tail in four cuts the connection once more first (`auto` after a reconnection).
//!   Kind `ovfread` aims at event buffer overflow racing with multi-fragment event reads: event buffers of
//!   36-50 per type behind a 249 / 300 octet response buffer (a full buffer takes several fragments),
//!   events collected by periodic event polls / user event reads (unsolicited mostly off), bursts of
//!   updates longer than the buffer, so that IIN2.3 is reported in fragments of a series whose confirms
//!   free the buffer again (the indication is then carried by non-final fragments only).
use crate::rng::Rng;
use std::io::Write;

#[derive(Clone, Copy, PartialEq)]
pub enum Profile {
    Both,
    Sync,
    Data,
    /// both families with `merge=1`: the relay may merge consecutive fragments into one write (search only)
    Merge,
}

const MAX_TS: u64 = 0x0000_FFFF_FFFF_FFFF;

struct G<'a> {
    r: Rng,
    w: &'a mut dyn Write,
    uid: u64,
    points: Vec<(bool, u16, u8)>,
    time: u64,
    polls: usize,
    unsolicited: bool,
    /// the master does not disable unsolicited reporting at start-up for every class it enables, and its
    /// response time-out does not exceed the outstation's confirm time-out (see `tail`)
    slow_start: bool,
    cuts: usize,
}

impl<'a> G<'a> {
    fn line(&mut self, s: &str) {
        writeln!(self.w, "{s}").unwrap();
    }
    fn next_uid(&mut self) -> u64 {
        self.uid += 1;
        self.uid
    }
    fn delay_value(&mut self) -> u64 {
        match self.r.below(10) {
            0 => 0,
            1 => 1,
            2 => *self.r.pick(&[2u64, 3, 7, 10, 11]),
            3 | 4 => self.r.range(1, 200),
            5 => self.r.range(200, 3000),
            6 => *self.r.pick(&[65535u64, 65536, 65534, 32767, 32768]),
            7 => self.r.range(65537, 140000),
            _ => self.r.range(0, 1000),
        }
    }
    fn small_delay(&mut self) -> u64 {
        *self.r.pick(&[0u64, 0, 0, 1, 5, 10, 50, 100, 700, 1000, 2500, 6000])
    }
    fn chunk(&mut self) -> u64 {
        *self.r.pick(&[0u64, 0, 0, 1, 2, 3, 5, 7, 10, 16, 17, 18, 64, 100, 291, 292, 293, 1000])
    }
    fn txn(&mut self) {
        if self.points.is_empty() {
            self.line("txn bin:0:1:1:0");
            return;
        }
        let n = self.r.range(1, 4);
        let mut items = Vec::new();
        for _ in 0..n {
            let (is_bin, idx, _) = *self.r.pick(&self.points.clone());
            let idx = if self.r.chance(1, 30) { idx.wrapping_add(1) } else { idx };
            let flags = *self.r.pick(&[1u8, 1, 1, 1, 0x41, 0x02, 0x09, 0x11, 0x21, 0x00, 0x05]);
            self.time += self.r.range(0, 5);
            if is_bin {
                items.push(format!("bin:{idx}:{}:{flags}:{}", self.r.below(2), self.time));
            } else {
                let v: i64 = match self.r.below(12) {
                    0 => 0,
                    1 => -1,
                    2 => i32::MAX as i64,
                    3 => i32::MIN as i64,
                    4 => i32::MAX as i64 + 1 + self.r.below(1000) as i64,
                    5 => i32::MIN as i64 - 1 - self.r.below(1000) as i64,
                    6 | 7 => self.r.below(100) as i64,
                    _ => self.r.range(0, 2_000_000) as i64 - 1_000_000,
                };
                items.push(format!("an:{idx}:{v}:{flags}:{}", self.time));
            }
        }
        self.line(&format!("txn {}", items.join(" ")));
    }
    fn populate(&mut self, big: bool) {
        if big {
            let n = *self.r.pick(&[30u16, 60, 100, 260]);
            let is_bin = self.r.chance(1, 2);
            let start = *self.r.pick(&[0u16, 0, 5, 250]);
            let class = self.r.below(4) as u8;
            self.line(&format!("addmany {} {} {} {}", if is_bin { "bin" } else { "an" }, start, n, class));
            for i in 0..6u16 {
                self.points.push((is_bin, start + i * (n / 6), class));
            }
        }
        let np = self.r.range(1, 6);
        for _ in 0..np {
            let is_bin = self.r.chance(1, 2);
            let idx = if self.r.chance(1, 8) { *self.r.pick(&[255u16, 256, 65535, 1000]) } else { self.r.below(8) as u16 };
            let class = if self.r.chance(1, 5) { 0 } else { self.r.range(1, 3) as u8 };
            self.line(&format!("{} {} {}", if is_bin { "addbin" } else { "addan" }, idx, class));
            if !self.points.iter().any(|p| p.0 == is_bin && p.1 == idx) {
                self.points.push((is_bin, idx, class));
            }
        }
    }
    fn command(&mut self) {
        let id = self.next_uid();
        let kind = if self.r.chance(1, 2) { "do" } else { "sbo" };
        let idx = self.r.below(4) as u8;
        let objs = match self.r.below(3) {
            0 => format!("0c011701{idx:02x}{:02x}01{:08x}{:08x}00", *self.r.pick(&[0x03u8, 0x04, 0x41, 0x81, 0x01]), self.r.below(1000) as u32, 0u32),
            1 => format!("29021701{idx:02x}{:04x}00", self.r.below(65536) as u16),
            _ => format!("29012802000100{:08x}000200{:08x}00", self.r.next() as u32, self.r.next() as u32),
        };
        self.line(&format!("cmd {id} {kind} {objs}"));
    }
    /// the quiescent tail.  `auto`: no user request, only time passes
    fn tail(&mut self, auto: bool, final_cut: bool) {
        self.line("@quiet");
        self.line("appiin 0");
        self.line("chunk 0");
        self.line("delay m2o 0");
        self.line("delay o2m 0");
        self.line("hold m2o off");
        self.line("hold o2m off");
        if !auto {
            // activity stops, the wire is released and prompt, everything settles, then the master asks
            // for everything twice
            self.line("tick 25000");
            self.line("tick 25000");
            self.line("tick 25000");
            self.line("read 9001 15");
            self.line("tick 21000");
            self.line("read 9002 15");
            self.line("tick 21000");
            self.line("@converged");
            return;
        }
        if final_cut {
            // the last interruption: whatever was in flight is lost, both sessions restart
            let t = *self.r.pick(&[0u64, 1, 700, 6000]);
            self.line(&format!("tick {t}"));
            self.line("cut");
            self.cuts += 1;
        }
        if self.slow_start && self.cuts > 0 {
            // After a reconnection this outstation still has unsolicited reporting enabled and this master
            // neither disables it first nor confirms unsolicited data before its start-up integrity poll is
            // complete; the outstation defers that READ until the confirm time-out of the unsolicited response
            // in progress, which is not shorter than the master's response time-out: the poll succeeds only
            // when the READ arrives late enough in a confirm wait (or between two), i.e. when the phases of the
            // master's back-off and of the outstation's retry cycle happen to fit.  Coarse steps re-align the
            // two endpoints at every step (everything that expired fires at the same instant) and can keep
            // them aligned for ever, so here the time passes in steps of 250 ms, for 400 s.
            self.line("@fine");
            for _ in 0..1600 {
                self.line("tick 250");
            }
            self.line("@converged auto");
            return;
        }
        // only time passes.  A `tick` activates each endpoint once at its end (all the timers that expired fire
        // at that one instant), so the time is cut finely: blocks of 20 s in steps of 0.5 - 5 s, in which the
        // retries, confirm time-outs (<= 15 s), response time-outs (<= 20 s) and back-off delays (<= 10 s) of
        // the two endpoints fire at their own instants, separated by the long waits that the slowest chains
        // and the longest poll period (60 s) need
        const FINE: [u64; 13] = [500, 500, 500, 500, 1000, 1000, 1000, 1000, 2000, 2000, 2000, 3000, 5000];
        const LONG: [&[u64]; 4] = [&[10000, 20000], &[61000], &[10000, 20000, 61000], &[20000]];
        for t in [1u64, 99, 400] {
            self.line(&format!("tick {t}"));
        }
        for long in LONG {
            for t in FINE {
                self.line(&format!("tick {t}"));
            }
            for t in long {
                self.line(&format!("tick {t}"));
            }
        }
        self.line("@converged auto");
    }
    /// an unrelated fragment inserted by the relay towards the master while a time synchronisation runs
    fn inject_noise(&mut self) {
        let seq = self.r.below(16);
        match self.r.below(4) {
            // a solicited reply with an arbitrary sequence number (matches the request in flight 1 time in 16)
            0 => self.line(&format!("inject o2m 1024 1 {:02x}810000", 0xC0 | seq)),
            // an unsolicited null response
            1 => self.line(&format!("inject o2m 1024 1 {:02x}820000", 0xF0 | seq)),
            // a reply from another outstation
            2 => self.line(&format!("inject o2m 1025 1 {:02x}810000", 0xC0 | seq)),
            // an unsolicited response with data
            _ => {
                let st = 0x01 | (self.r.below(2) << 7) as u8;
                self.line(&format!("inject o2m 1024 1 {:02x}82000002012801000000{:02x}", 0xF0 | seq, st))
            }
        }
    }
}

fn gen_sync(case: usize, mut r: Rng, w: &mut dyn Write, merge: bool) {
    let kind = *r.pick(&["lan", "lan", "nonlan", "nonlan", "nonlan", "direct", "auto_lan", "auto_nonlan", "forged", "timeout"]);
    writeln!(w, "# case {case} kind=sync_{kind}").unwrap();
    let mut g = G { r, w, uid: 0, points: Vec::new(), time: 1000, polls: 0, unsolicited: false, slow_start: false, cuts: 0 };
    // delays: a = request, pb = processing + reply, c = WRITE
    let mut a = g.delay_value();
    let mut pb = g.delay_value();
    let mut c = if g.r.chance(1, 3) { a } else { g.delay_value() };
    if g.r.chance(1, 8) {
        // symmetric path
        pb = a;
        c = a;
    }
    if kind.starts_with("auto") || kind == "timeout" {
        a = a.min(3000);
        pb = pb.min(3000);
        c = c.min(3000);
    }
    let total = a + pb + c + pb;
    let rto = if kind == "timeout" { *g.r.pick(&[1u64, 50, 500]) + a.min(pb) } else { total * 2 + 5000 + g.r.below(3) * 100_000 };
    // master clock
    let clock: Option<u64> = match g.r.below(12) {
        0 => Some(0),
        1 => Some(1),
        2 => Some(MAX_TS),
        3 => Some(MAX_TS - g.r.below(4)),
        4 => Some(MAX_TS.saturating_sub(total + g.r.below(5))),
        5 => Some(MAX_TS.saturating_sub((a + pb) / 2 + a + pb + g.r.below(3))),
        6 => Some(MAX_TS.saturating_sub(pb + c + g.r.below(3))),
        7 => Some(1u64 << 47),
        8 => None,
        _ => Some(g.r.range(1_000_000_000_000, 2_000_000_000_000)),
    };
    let clock = if kind == "timeout" || kind == "forged" { clock.or(Some(5)) } else { clock };
    let quiet = g.r.chance(1, 2);
    g.unsolicited = !quiet && g.r.chance(2, 3);
    let ts = match kind {
        "auto_lan" => "lan",
        "auto_nonlan" => "nonlan",
        _ => *g.r.pick(&["none", "none", "lan", "nonlan"]),
    };
    let chunk = g.chunk();
    let cfg = format!(
        "cfg unsolicited={} evmax=5 retries={} ctimeout={} discard={} rto={} dis={} int={} en={} ts={} rmin={} rmax={} mclock={} dm2o=0 do2m=0 chunk={}",
        g.unsolicited as u8,
        *g.r.pick(&["none", "0", "2"]),
        *g.r.pick(&[5000u64, 1009, 200_000]),
        g.r.chance(1, 2) as u8,
        rto,
        if quiet { 0 } else { 7 },
        if quiet { 0 } else { 15 },
        if quiet { 0 } else { 7 },
        ts,
        *g.r.pick(&[1000u64, 3000]),
        *g.r.pick(&[10000u64, 3000]),
        clock.map(|c| c.to_string()).unwrap_or("none".to_string()),
        chunk,
    );
    g.line(&if merge { format!("{cfg} merge=1") } else { cfg });
    if !quiet {
        g.populate(false);
    }
    g.line("tick 100");
    // reported processing delay
    let p_real = if pb == 0 { 0 } else { g.r.below(pb.min(65535) + 1) };
    let reported: u64 = match g.r.below(8) {
        0 => 0,
        1 | 2 | 3 => p_real,                                   // honest
        4 => (a + pb + g.r.range(1, 3)).min(65535),            // exceeds the round trip (when it fits 16 bits)
        5 => (a + pb).min(65535),                              // exactly the round trip
        6 => *g.r.pick(&[65535u64, 65534, 1]),
        _ => g.r.below(65536),
    };
    if kind.contains("nonlan") || g.r.chance(1, 4) {
        g.line(&format!("procdelay {reported}"));
    }
    if g.r.chance(1, 10) {
        let v = g.r.range(1, 2);
        g.line(&format!("timeres {v}"));
    }
    g.line(&format!("delay m2o {a}"));
    g.line(&format!("delay o2m {pb}"));
    let noise = g.r.chance(1, 3);
    // a user request already in flight: the synchronisation waits in the queue for one round trip; the clock /
    // instant it uses must be the one at which ITS request is sent, not the one at which it was queued (S140)
    let busy = matches!(kind, "lan" | "nonlan" | "direct") && g.r.chance(1, 4);
    if busy {
        let id = g.next_uid();
        let cls = *g.r.pick(&[8u8, 15, 7]);
        g.line(&format!("read {id} {cls}"));
    }
    // start
    match kind {
        "auto_lan" | "auto_nonlan" => {
            g.line("appiin 1");
            // some response must carry IIN1.4: a user read
            let id = g.next_uid();
            let cls = *g.r.pick(&[8u8, 15, 7]);
            g.line(&format!("read {id} {cls}"));
        }
        "lan" | "forged" | "timeout" if kind != "forged" || g.r.chance(1, 2) => {
            if g.r.chance(1, 6) {
                g.line("appiin 1");
            }
            let id = g.next_uid();
            g.line(&format!("timesync {id} lan"));
        }
        "direct" => {
            let id = g.next_uid();
            g.line(&format!("timesync {id} direct"));
        }
        _ => {
            if g.r.chance(1, 6) {
                g.line("appiin 1");
            }
            let id = g.next_uid();
            g.line(&format!("timesync {id} nonlan"));
        }
    }
    let clear_early = g.r.chance(2, 3);
    // run the exchange in steps so that the WRITE's delay can differ from the request's
    let mut steps: Vec<u64> = Vec::new();
    if kind.starts_with("auto") || busy {
        // the read first (a + pb), then the procedure
        steps.push(a);
        steps.push(pb);
    }
    steps.push(a);
    steps.push(pb);
    let mut first = true;
    for (i, st) in steps.clone().iter().enumerate() {
        if noise && g.r.chance(1, 2) {
            g.inject_noise();
        }
        if g.unsolicited && !g.points.is_empty() && g.r.chance(1, 4) {
            g.txn();
        }
        if kind == "forged" && i + 2 == steps.len() && first {
            first = false;
            // the relay answers the first request itself, with unexpected objects, before the real reply
            let shape = g.r.below(5);
            g.line("hold o2m on");
            g.line(&format!("tick {st}"));
            // the request in flight has the sequence number the monitor-independent model resolves: use a
            // wildcard by injecting all 16 sequence numbers is too noisy; the master's first user request
            // after a quiet start uses a known sequence (0), after a start-up sequence it is unknown: try 16
            // in descending order the reply that matches is not followed by one that matches the NEXT request
            // (ascending: a master that wrongly goes on is stopped by the following forged reply)
            let descending = g.r.chance(1, 2);
            for k in 0..16u8 {
                let seq = if descending { 15 - k } else { k };
                let f = match shape {
                    0 => format!("{:02x}810000340207010500", 0xC0 | seq),             // g52v2 where none / another is expected
                    // count 2; the first delay is sometimes 0 so that it never exceeds the round trip (S120: a master
                    // that takes the first of several delays goes on to the WRITE and reports success)
                    1 => format!("{:02x}81000034020702{}000600", 0xC0 | seq, if seq % 2 == 0 { "00" } else { "05" }),
                    2 => format!("{:02x}810000340107010500", 0xC0 | seq),             // g52v1
                    3 => format!("{:02x}8100000102000001", 0xC0 | seq),               // measurement data
                    _ => format!("{:02x}8100003402080100050000", 0xC0 | seq),         // 16-bit count... and trailing octet
                };
                g.line(&format!("inject o2m 1024 1 {f}"));
            }
            g.line("hold o2m off");
            continue;
        }
        if i + 1 == steps.len() {
            // the WRITE is issued when this step's delivery happens: give it its own delay first
            g.line(&format!("delay m2o {c}"));
            if clear_early {
                g.line("appiin 0");
            }
        }
        // split a step now and then so that unrelated ops land in the middle of a transit
        if *st > 1 && g.r.chance(1, 3) {
            let x = g.r.range(1, st - 1);
            g.line(&format!("tick {x}"));
            if noise {
                g.inject_noise();
            }
            g.line(&format!("tick {}", st - x));
        } else {
            g.line(&format!("tick {st}"));
        }
    }
    if noise && g.r.chance(1, 2) {
        g.inject_noise();
    }
    if g.r.chance(1, 12) {
        g.line("cut");
    }
    g.line(&format!("tick {c}"));
    g.line(&format!("tick {pb}"));
    // the automatic procedures may need retries: let everything settle
    g.line("delay m2o 0");
    g.line("delay o2m 0");
    g.line(&format!("tick {}", rto + 1));
    g.line("tick 20000");
}

fn gen_data(case: usize, mut r: Rng, w: &mut dyn Write, merge: bool) {
    let kind = *r.pick(&["mixed", "mixed", "mixed", "unsol", "poll", "overflow", "cuts", "bigdb", "ovfread", "ovfread"]);
    if kind == "ovfread" {
        return gen_ovfread(case, r, w, merge);
    }
    writeln!(w, "# case {case} kind=data_{kind}").unwrap();
    let mut g = G { r, w, uid: 0, points: Vec::new(), time: 1000, polls: 0, unsolicited: false, slow_start: false, cuts: 0 };
    g.unsolicited = match kind {
        "unsol" => true,
        "poll" => false,
        _ => g.r.chance(1, 2),
    };
    let evmax = match kind {
        "overflow" => *g.r.pick(&[1u16, 1, 2, 3]),
        _ => *g.r.pick(&[1u16, 2, 5, 10, 50]),
    };
    let sol = *g.r.pick(&[249u16, 249, 300, 512, 2048]);
    let dm2o = g.small_delay();
    let do2m = g.small_delay();
    let ctimeout = *g.r.pick(&[5000u64, 1009, 15000]);
    let rto = *g.r.pick(&[5000u64, 2000, 20000]);
    let dis = *g.r.pick(&[7u8, 7, 0]);
    let int = *g.r.pick(&[15u8, 15, 15, 8, 0]);
    let en = *g.r.pick(&[7u8, 7, 7, 1, 0]);
    g.slow_start = g.unsolicited && int != 0 && en & !dis != 0 && rto <= ctimeout;
    let cfg = format!(
        "cfg sol={} unsol={} unsolicited={} retries={} ctimeout={} rdelay={} evmax={} discard={} mtx={} rto={} dis={} int={} en={} evscan={} ovf={} rmin={} rmax={} mclock=1000 dm2o={} do2m={} chunk={}",
        sol,
        *g.r.pick(&[249u16, 300, 2048]),
        g.unsolicited as u8,
        *g.r.pick(&["none", "0", "1", "3"]),
        ctimeout,
        *g.r.pick(&[5000u64, 3001, 500]),
        evmax,
        g.r.chance(1, 2) as u8,
        *g.r.pick(&[249u16, 2048]),
        rto,
        dis,
        int,
        en,
        *g.r.pick(&[0u8, 0, 7, 2]),
        g.r.chance(3, 4) as u8,
        *g.r.pick(&[1000u64, 500]),
        *g.r.pick(&[10000u64, 2000]),
        dm2o,
        do2m,
        g.chunk(),
    );
    g.line(&if merge { format!("{cfg} merge=1") } else { cfg });
    let before = g.r.chance(2, 3);
    if before {
        let big = kind == "bigdb" || g.r.chance(1, 6);
        g.populate(big);
    }
    let t0 = *g.r.pick(&[0u64, 100, 1000, 5000, 30000]);
    g.line(&format!("tick {t0}"));
    if !before {
        g.populate(kind == "bigdb");
    }
    if g.r.chance(1, 3) {
        let per = *g.r.pick(&[1000u64, 3000, 7000, 60000]);
        let cls = *g.r.pick(&[7u8, 15, 1, 8, 6]);
        g.line(&format!("addpoll {per} {cls}"));
        g.polls += 1;
    }
    let len = g.r.range(6, 45);
    let cut_w = if kind == "cuts" { 12 } else { 3 };
    for _ in 0..len {
        let x = g.r.below(100);
        if x < 34 {
            g.txn();
        } else if x < 56 {
            let t = match g.r.below(8) {
                0 => 0,
                1 => 1,
                2 => g.r.range(2, 50),
                3 | 4 => g.r.range(50, 1500),
                5 => *g.r.pick(&[1009u64, 5000, 3001, 2000, 500]),
                6 => g.r.range(4000, 12000),
                _ => g.r.range(100, 700),
            };
            g.line(&format!("tick {t}"));
        } else if x < 64 {
            let id = g.next_uid();
            let cls = *g.r.pick(&[15u8, 7, 8, 1, 2, 4, 3, 9]);
            g.line(&format!("read {id} {cls}"));
        } else if x < 64 + cut_w {
            g.line("cut");
            g.cuts += 1;
        } else if x < 74 {
            let d = if g.r.chance(1, 2) { "m2o" } else { "o2m" };
            let v = g.small_delay();
            g.line(&format!("delay {d} {v}"));
        } else if x < 80 {
            let d = if g.r.chance(1, 2) { "m2o" } else { "o2m" };
            let v = if g.r.chance(3, 5) { "on" } else { "off" };
            g.line(&format!("hold {d} {v}"));
        } else if x < 86 {
            let d = if g.r.chance(1, 2) { "m2o" } else { "o2m" };
            let n = match g.r.below(5) {
                0 => "all".to_string(),
                1 => g.r.range(1, 9).to_string(),
                2 => g.r.range(10, 40).to_string(),
                3 => g.r.pick(&["10", "18", "26", "292", "293"]).to_string(),
                _ => g.r.range(1, 600).to_string(),
            };
            g.line(&format!("deliver {d} {n}"));
        } else if x < 89 {
            let c = g.chunk();
            g.line(&format!("chunk {c}"));
        } else if x < 92 {
            g.command();
        } else if x < 94 && g.polls > 0 {
            let k = g.r.below(g.polls as u64);
            g.line(&format!("demand {k}"));
        } else if x < 96 {
            let per = *g.r.pick(&[1000u64, 3000, 7000]);
            let cls = *g.r.pick(&[7u8, 15, 1, 8]);
            g.line(&format!("addpoll {per} {cls}"));
            g.polls += 1;
        } else if x < 98 {
            // a point added while traffic may be in flight
            let is_bin = g.r.chance(1, 2);
            let idx = g.r.below(12) as u16;
            let class = g.r.below(4) as u8;
            g.line(&format!("{} {} {}", if is_bin { "addbin" } else { "addan" }, idx, class));
            if !g.points.iter().any(|p| p.0 == is_bin && p.1 == idx) {
                g.points.push((is_bin, idx, class));
            }
        } else {
            let b = *g.r.pick(&[0u8, 1, 2, 4, 8]);
            g.line(&format!("appiin {b}"));
        }
    }
    let auto = g.r.chance(1, 2);
    let final_cut = auto && g.r.chance(1, 4);
    g.tail(auto, final_cut);
}

/// event buffer overflow racing with multi-fragment event reads (see the module comment)
fn gen_ovfread(case: usize, r: Rng, w: &mut dyn Write, merge: bool) {
    writeln!(w, "# case {case} kind=data_ovfread").unwrap();
    let mut g = G { r, w, uid: 0, points: Vec::new(), time: 1000, polls: 0, unsolicited: false, slow_start: false, cuts: 0 };
    g.unsolicited = g.r.chance(1, 4);
    let evmax = *g.r.pick(&[36u16, 40, 50, 50]);
    let fast = |g: &mut G| *g.r.pick(&[0u64, 0, 0, 1, 5, 10, 50]);
    let dm2o = fast(&mut g);
    let do2m = fast(&mut g);
    let ctimeout = *g.r.pick(&[5000u64, 1009, 15000]);
    let rto = *g.r.pick(&[5000u64, 2000, 20000]);
    let dis = *g.r.pick(&[7u8, 7, 0]);
    let int = *g.r.pick(&[15u8, 15, 15, 8, 8, 0]);
    let en = *g.r.pick(&[7u8, 0, 0, 1]);
    g.slow_start = g.unsolicited && int != 0 && en & !dis != 0 && rto <= ctimeout;
    let cfg = format!(
        "cfg sol={} unsol={} unsolicited={} retries={} ctimeout={} rdelay={} evmax={} discard={} mtx={} rto={} dis={} int={} en={} evscan={} ovf={} rmin={} rmax={} mclock=1000 dm2o={} do2m={} chunk={}",
        *g.r.pick(&[249u16, 249, 300]),
        *g.r.pick(&[249u16, 300, 2048]),
        g.unsolicited as u8,
        *g.r.pick(&["none", "0", "1", "3"]),
        ctimeout,
        *g.r.pick(&[5000u64, 3001, 500]),
        evmax,
        g.r.chance(1, 2) as u8,
        *g.r.pick(&[249u16, 2048]),
        rto,
        dis,
        int,
        en,
        *g.r.pick(&[0u8, 0, 7, 2]),
        g.r.chance(7, 8) as u8,
        *g.r.pick(&[1000u64, 500]),
        *g.r.pick(&[10000u64, 2000]),
        dm2o,
        do2m,
        g.chunk(),
    );
    g.line(&if merge { format!("{cfg} merge=1") } else { cfg });
    // analog points (7 octets per event: 34 / 41 events per fragment) and some binary ones (3 octets)
    let na = g.r.range(3, 7) as u16;
    let nb = g.r.below(4) as u16;
    let one_class = if g.r.chance(1, 2) { Some(g.r.range(1, 3) as u8) } else { None };
    for i in 0..na {
        let class = one_class.unwrap_or(g.r.range(1, 3) as u8);
        g.line(&format!("addan {i} {class}"));
        g.points.push((false, i, class));
    }
    for i in 0..nb {
        let class = if g.r.chance(1, 6) { 0 } else { one_class.unwrap_or(g.r.range(1, 3) as u8) };
        g.line(&format!("addbin {i} {class}"));
        g.points.push((true, i, class));
    }
    let t0 = *g.r.pick(&[0u64, 100, 1000, 5000]);
    g.line(&format!("tick {t0}"));
    // who collects the events: a periodic event poll (no class 0) and / or user event reads
    let period = *g.r.pick(&[1000u64, 3000, 7000]);
    let ev_cls = *g.r.pick(&[7u8, 7, 7, 7, 1, 2, 6, 3, 5]);
    let has_poll = g.r.chance(3, 4);
    if has_poll {
        g.line(&format!("addpoll {period} {ev_cls}"));
        g.polls += 1;
    }
    if g.r.chance(1, 8) {
        // a periodic integrity poll as well: every point is re-read
        let per = *g.r.pick(&[3000u64, 60000]);
        g.line(&format!("addpoll {per} 15"));
        g.polls += 1;
    }
    // the first integrity poll and the rest of the start-up sequence get their time
    let t1 = *g.r.pick(&[0u64, 50, 500, 2000]);
    g.line(&format!("tick {t1}"));
    let rounds = g.r.range(1, 3);
    let analogs: Vec<u16> = (0..na).collect();
    for _ in 0..rounds {
        // victims: updated once, then pushed out of the buffer by the burst
        let nv = g.r.range(1, 2) as usize;
        let victims: Vec<u16> = analogs.iter().copied().take(nv).collect();
        let others: Vec<u16> = analogs.iter().copied().skip(nv).collect();
        let mut items = Vec::new();
        for v in &victims {
            g.time += 1;
            items.push(format!("an:{v}:{}:1:{}", g.r.range(0, 2_000_000) as i64 - 1_000_000, g.time));
        }
        g.line(&format!("txn {}", items.join(" ")));
        // the burst: more events than the buffer holds (sometimes just short of it), split over several
        // transactions between which the polls / reads in progress advance
        let total = match g.r.below(6) {
            0 => evmax as u64 - g.r.range(1, 3),
            1 => evmax as u64,
            2 => evmax as u64 + 1,
            3 => evmax as u64 * 2 + g.r.below(10),
            _ => evmax as u64 + g.r.range(2, 30),
        };
        let mut left = total;
        while left > 0 {
            let n = left.min(g.r.range(6, 25));
            left -= n;
            let mut items = Vec::new();
            for k in 0..n {
                g.time += 1;
                let idx = others[(k as usize + left as usize) % others.len()];
                items.push(format!("an:{idx}:{}:1:{}", g.r.range(0, 2_000_000) as i64 - 1_000_000, g.time));
            }
            if nb > 0 && g.r.chance(1, 3) {
                g.time += 1;
                items.push(format!("bin:{}:{}:1:{}", g.r.below(nb as u64), g.r.below(2), g.time));
            }
            g.line(&format!("txn {}", items.join(" ")));
            match g.r.below(12) {
                0 => {
                    let t = g.r.range(1, period);
                    g.line(&format!("tick {t}"));
                }
                1 => g.line("tick 0"),
                2 => {
                    let d = if g.r.chance(1, 2) { "m2o" } else { "o2m" };
                    let v = fast(&mut g);
                    g.line(&format!("delay {d} {v}"));
                }
                3 if !has_poll || g.r.chance(1, 3) => {
                    let id = g.next_uid();
                    g.line(&format!("read {id} {ev_cls}"));
                }
                _ => {}
            }
        }
        // the events are collected: the poll period elapses / the user reads the event classes
        match g.r.below(8) {
            0 => {
                let d = if g.r.chance(1, 2) { "m2o" } else { "o2m" };
                g.line(&format!("hold {d} on"));
                g.line(&format!("tick {}", period + 1));
                g.txn();
                g.line(&format!("hold {d} off"));
            }
            1 => {
                g.line("cut");
                g.cuts += 1;
            }
            _ => {}
        }
        if !has_poll || g.r.chance(1, 4) {
            let id = g.next_uid();
            g.line(&format!("read {id} {ev_cls}"));
        }
        let t = period + g.r.below(3) * 1000 + g.r.below(50);
        g.line(&format!("tick {t}"));
        if g.r.chance(1, 2) {
            g.line(&format!("tick {}", period + 1));
        }
        if g.r.chance(1, 4) {
            // a few ordinary updates afterwards (never the victims)
            g.time += 1;
            let idx = others[g.r.below(others.len() as u64) as usize];
            let v = g.r.below(1000);
            let t = g.time;
            g.line(&format!("txn an:{idx}:{v}:1:{t}"));
        }
    }
    let auto = g.r.chance(3, 4);
    let final_cut = auto && g.r.chance(1, 8);
    g.tail(auto, final_cut);
}

pub fn gen(thorough: bool, seed: u64, w: &mut dyn Write, p: Profile) {
    let mut root = Rng::new(seed ^ 0x7061_6972 ^ if p == Profile::Merge { 0x6d65_7267_0000 } else { 0 });
    let n = if thorough { 40000 } else { 6000 };
    for case in 0..n {
        let r = root.fork();
        let sync = match p {
            Profile::Sync => true,
            Profile::Data => false,
            Profile::Both | Profile::Merge => case % 2 == 0,
        };
        if sync {
            gen_sync(case, r, w, p == Profile::Merge);
        } else {
            gen_data(case, r, w, p == Profile::Merge);
        }
    }
}
